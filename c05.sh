#!/bin/bash
# C05: schedule exploration under the rayon model (sched/) + conformance against the real rayon (harness/).
set -u
ROOT="$(cd "$(dirname "${BASH_SOURCE[0]}")" && pwd)"
export VERIF_ROOT="$ROOT"
export CARGO_NET_OFFLINE=true
TIER="${1:-quick}"
mkdir -p "$ROOT/target"
if [ "$TIER" = "--replay" ]; then
  (cd "$ROOT/sched" && cargo build --release --offline >"$ROOT/target/build-sched.log" 2>&1) || { echo "machinery error: sched build failed" >&2; tail -20 "$ROOT/target/build-sched.log" >&2; exit 2; }
  exec "$ROOT/target/sched/release/nv-sched" --replay "${2:?replay file}"
fi
(cd "$ROOT/harness" && cargo build --release --offline >"$ROOT/target/build-harness.log" 2>&1) || { echo "machinery error: harness build failed (see target/build-harness.log)" >&2; tail -20 "$ROOT/target/build-harness.log" >&2; exit 2; }
CONF="$ROOT/target/c05-conf.json"
rm -f "$CONF"
"$ROOT/target/harness/release/nv" C05conf "$TIER" "$CONF" || { echo "machinery error: real-rayon conformance run failed" >&2; exit 3; }
if (cd "$ROOT/sched" && cargo build --release --offline >"$ROOT/target/build-sched.log" 2>&1); then
  exec "$ROOT/target/sched/release/nv-sched" "$TIER" "$CONF"
else
  # the library uses a rayon API the scheduler model lacks: fall back to the real-rayon differential alone
  echo "note: neurons does not build against the rayon scheduler model (see target/build-sched.log); C05 falls back to real-rayon differential runs only (exhaustive:false)"
  exec "$ROOT/target/harness/release/nv" C05fallback "$TIER" "$CONF"
fi
