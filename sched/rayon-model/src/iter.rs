//! Parallel-iterator API of the model. A pipeline is a base producer over an index domain
//! `0..m_len()` plus pull-style adapters; terminal operations call `drive`, which asks the
//! scheduler for a split tree and a leaf order, runs the leaves one after another in that order and
//! combines the per-leaf results along the tree — as rayon's consumers / reducers do.
use crate::model::{end_region, plan, set_running_worker, Tree};
use std::cell::RefCell;
use std::collections::{BTreeMap, BTreeSet, HashMap, HashSet, LinkedList, VecDeque};
use std::hash::{BuildHasher, Hash};

/// sink for the items of one leaf
pub type Sink<'s, T> = &'s mut dyn FnMut(T);

/// items of base indices lo..hi collected (leaf-local)
fn leaf_vec<P: ParallelIterator>(p: &P, lo: usize, hi: usize) -> Vec<P::Item> {
    let mut v = Vec::new();
    p.m_each(lo, hi, &mut |x| v.push(x));
    v
}

fn drive<P: ParallelIterator, R>(p: &P, leaf: &mut dyn FnMut(&P, usize, usize) -> R, combine: &mut dyn FnMut(R, R) -> R) -> R {
    let n = p.m_len();
    let plan = plan(n, p.m_min_len(), p.m_max_len());
    let mut results: Vec<Option<R>> = (0..plan.leaves.len()).map(|_| None).collect();
    for &li in &plan.order {
        let (lo, hi) = plan.leaves[li];
        set_running_worker(plan.workers[li]);
        results[li] = Some(leaf(p, lo, hi));
    }
    fn eval<R>(t: &Tree, results: &mut Vec<Option<R>>, combine: &mut dyn FnMut(R, R) -> R) -> R {
        match t {
            Tree::Leaf(i) => results[*i].take().expect("leaf result consumed twice"),
            Tree::Node(a, b, _) => {
                let l = eval(a, results, combine);
                let r = eval(b, results, combine);
                combine(l, r)
            }
        }
    }
    let r = eval(&plan.tree, &mut results, combine);
    end_region();
    r
}

pub trait ParallelIterator: Sized {
    type Item;

    // ---- model internals -------------------------------------------------------------------
    /// size of the index domain that is split
    fn m_len(&self) -> usize;
    /// push the items produced by base indices lo..hi, sequentially, into `sink`
    fn m_each(&self, lo: usize, hi: usize, sink: Sink<'_, Self::Item>);
    fn m_min_len(&self) -> usize {
        1
    }
    fn m_max_len(&self) -> usize {
        usize::MAX
    }

    // ---- adapters ------------------------------------------------------------------------------
    fn map<F, R>(self, map_op: F) -> Map<Self, F>
    where
        F: Fn(Self::Item) -> R,
    {
        Map { base: self, f: map_op }
    }
    fn map_with<F, T, R>(self, init: T, map_op: F) -> MapWith<Self, T, F>
    where
        F: Fn(&mut T, Self::Item) -> R,
        T: Clone,
    {
        MapWith { base: self, init, f: map_op }
    }
    /// `init` runs once per leaf (rayon: once per job), the value is threaded through the leaf's items
    fn map_init<F, INIT, T, R>(self, init: INIT, map_op: F) -> MapInit<Self, INIT, F>
    where
        F: Fn(&mut T, Self::Item) -> R,
        INIT: Fn() -> T,
    {
        MapInit { base: self, init, f: map_op }
    }
    fn update<F>(self, update_op: F) -> Update<Self, F>
    where
        F: Fn(&mut Self::Item),
    {
        Update { base: self, f: update_op }
    }
    fn inspect<F>(self, f: F) -> Inspect<Self, F>
    where
        F: Fn(&Self::Item),
    {
        Inspect { base: self, f }
    }
    fn filter<F>(self, f: F) -> Filter<Self, F>
    where
        F: Fn(&Self::Item) -> bool,
    {
        Filter { base: self, f }
    }
    fn filter_map<F, R>(self, f: F) -> FilterMap<Self, F>
    where
        F: Fn(Self::Item) -> Option<R>,
    {
        FilterMap { base: self, f }
    }
    fn flat_map<F, PI>(self, f: F) -> FlatMap<Self, F>
    where
        F: Fn(Self::Item) -> PI,
        PI: IntoParallelIterator,
    {
        FlatMap { base: self, f }
    }
    fn flat_map_iter<F, SI>(self, f: F) -> FlatMapIter<Self, F>
    where
        F: Fn(Self::Item) -> SI,
        SI: IntoIterator,
    {
        FlatMapIter { base: self, f }
    }
    fn flatten(self) -> Flatten<Self>
    where
        Self::Item: IntoParallelIterator,
    {
        Flatten { base: self }
    }
    fn flatten_iter(self) -> FlattenIter<Self>
    where
        Self::Item: IntoIterator,
    {
        FlattenIter { base: self }
    }
    fn cloned<'a, T>(self) -> Cloned<Self>
    where
        T: 'a + Clone,
        Self: ParallelIterator<Item = &'a T>,
    {
        Cloned { base: self }
    }
    fn copied<'a, T>(self) -> Copied<Self>
    where
        T: 'a + Copy,
        Self: ParallelIterator<Item = &'a T>,
    {
        Copied { base: self }
    }
    /// each leaf yields ONE folded item (the split decides how many there are)
    fn fold<T, ID, F>(self, identity: ID, fold_op: F) -> Fold<Self, ID, F>
    where
        F: Fn(T, Self::Item) -> T,
        ID: Fn() -> T,
    {
        Fold { base: self, identity, f: fold_op }
    }
    fn fold_with<F, T>(self, init: T, fold_op: F) -> FoldWith<Self, T, F>
    where
        F: Fn(T, Self::Item) -> T,
        T: Clone,
    {
        FoldWith { base: self, init, f: fold_op }
    }
    fn chain<C>(self, chain: C) -> Chain<Self, C::Iter>
    where
        C: IntoParallelIterator<Item = Self::Item>,
    {
        Chain { a: self, b: chain.into_par_iter() }
    }

    // ---- terminal operations -------------------------------------------------------------------
    fn for_each<OP>(self, op: OP)
    where
        OP: Fn(Self::Item),
    {
        drive(&self, &mut |p, lo, hi| p.m_each(lo, hi, &mut |x| op(x)), &mut |_, _| ())
    }
    fn for_each_with<OP, T>(self, init: T, op: OP)
    where
        OP: Fn(&mut T, Self::Item),
        T: Clone,
    {
        drive(
            &self,
            &mut |p, lo, hi| {
                let mut t = init.clone();
                p.m_each(lo, hi, &mut |x| op(&mut t, x))
            },
            &mut |_, _| (),
        )
    }
    fn for_each_init<OP, INIT, T>(self, init: INIT, op: OP)
    where
        OP: Fn(&mut T, Self::Item),
        INIT: Fn() -> T,
    {
        drive(
            &self,
            &mut |p, lo, hi| {
                let mut t = init();
                p.m_each(lo, hi, &mut |x| op(&mut t, x))
            },
            &mut |_, _| (),
        )
    }
    /// stops feeding a leaf after its first error; the error of the first failing leaf IN TREE ORDER is returned
    fn try_for_each<OP, E>(self, op: OP) -> Result<(), E>
    where
        OP: Fn(Self::Item) -> Result<(), E>,
    {
        drive(
            &self,
            &mut |p, lo, hi| {
                let mut r: Result<(), E> = Ok(());
                p.m_each(lo, hi, &mut |x| {
                    if r.is_ok() {
                        r = op(x);
                    }
                });
                r
            },
            &mut |a, b| a.and(b),
        )
    }
    fn count(self) -> usize {
        drive(
            &self,
            &mut |p, lo, hi| {
                let mut n = 0usize;
                p.m_each(lo, hi, &mut |_| n += 1);
                n
            },
            &mut |a, b| a + b,
        )
    }
    fn reduce<OP, ID>(self, identity: ID, op: OP) -> Self::Item
    where
        OP: Fn(Self::Item, Self::Item) -> Self::Item,
        ID: Fn() -> Self::Item,
    {
        drive(
            &self,
            &mut |p, lo, hi| {
                let mut acc = Some(identity());
                p.m_each(lo, hi, &mut |x| acc = Some(op(acc.take().unwrap(), x)));
                acc.unwrap()
            },
            &mut |a, b| op(a, b),
        )
    }
    fn reduce_with<OP>(self, op: OP) -> Option<Self::Item>
    where
        OP: Fn(Self::Item, Self::Item) -> Self::Item,
    {
        drive(
            &self,
            &mut |p, lo, hi| {
                let mut acc: Option<Self::Item> = None;
                p.m_each(lo, hi, &mut |x| {
                    acc = Some(match acc.take() {
                        Some(a) => op(a, x),
                        None => x,
                    })
                });
                acc
            },
            &mut |a, b| match (a, b) {
                (Some(a), Some(b)) => Some(op(a, b)),
                (Some(a), None) => Some(a),
                (None, b) => b,
            },
        )
    }
    fn sum<S>(self) -> S
    where
        S: std::iter::Sum<Self::Item> + std::iter::Sum<S>,
    {
        // SumFolder: add(empty-sum, leaf.sum()); reducer: add(left, right) with add = [l, r].sum()
        drive(
            &self,
            &mut |p, lo, hi| {
                let zero: S = std::iter::empty::<Self::Item>().sum();
                let leaf: S = leaf_vec(p, lo, hi).into_iter().sum();
                [zero, leaf].into_iter().sum()
            },
            &mut |a, b| [a, b].into_iter().sum(),
        )
    }
    fn product<P>(self) -> P
    where
        P: std::iter::Product<Self::Item> + std::iter::Product<P>,
    {
        drive(
            &self,
            &mut |p, lo, hi| {
                let one: P = std::iter::empty::<Self::Item>().product();
                let leaf: P = leaf_vec(p, lo, hi).into_iter().product();
                [one, leaf].into_iter().product()
            },
            &mut |a, b| [a, b].into_iter().product(),
        )
    }
    fn min(self) -> Option<Self::Item>
    where
        Self::Item: Ord,
    {
        self.reduce_with(|a, b| std::cmp::min(a, b))
    }
    fn max(self) -> Option<Self::Item>
    where
        Self::Item: Ord,
    {
        self.reduce_with(|a, b| std::cmp::max(a, b))
    }
    fn min_by<F>(self, f: F) -> Option<Self::Item>
    where
        F: Fn(&Self::Item, &Self::Item) -> std::cmp::Ordering,
    {
        self.reduce_with(|a, b| match f(&a, &b) {
            std::cmp::Ordering::Greater => b,
            _ => a,
        })
    }
    fn max_by<F>(self, f: F) -> Option<Self::Item>
    where
        F: Fn(&Self::Item, &Self::Item) -> std::cmp::Ordering,
    {
        self.reduce_with(|a, b| match f(&a, &b) {
            std::cmp::Ordering::Greater => a,
            _ => b,
        })
    }
    fn min_by_key<K, F>(self, f: F) -> Option<Self::Item>
    where
        K: Ord,
        F: Fn(&Self::Item) -> K,
    {
        self.reduce_with(|a, b| if f(&b) < f(&a) { b } else { a })
    }
    fn max_by_key<K, F>(self, f: F) -> Option<Self::Item>
    where
        K: Ord,
        F: Fn(&Self::Item) -> K,
    {
        self.reduce_with(|a, b| if f(&b) >= f(&a) { b } else { a })
    }
    fn any<P>(self, predicate: P) -> bool
    where
        P: Fn(Self::Item) -> bool,
    {
        drive(
            &self,
            &mut |p, lo, hi| {
                let mut r = false;
                p.m_each(lo, hi, &mut |x| r = r || predicate(x));
                r
            },
            &mut |a, b| a || b,
        )
    }
    fn all<P>(self, predicate: P) -> bool
    where
        P: Fn(Self::Item) -> bool,
    {
        drive(
            &self,
            &mut |p, lo, hi| {
                let mut r = true;
                p.m_each(lo, hi, &mut |x| r = r && predicate(x));
                r
            },
            &mut |a, b| a && b,
        )
    }
    /// the match of whichever leaf RAN first (schedule dependent, as in rayon)
    fn find_any<P>(self, predicate: P) -> Option<Self::Item>
    where
        P: Fn(&Self::Item) -> bool,
    {
        let clock = RefCell::new(0u64);
        let r = drive(
            &self,
            &mut |p, lo, hi| {
                let t = {
                    let mut c = clock.borrow_mut();
                    *c += 1;
                    *c
                };
                let mut found: Option<Self::Item> = None;
                p.m_each(lo, hi, &mut |x| {
                    if found.is_none() && predicate(&x) {
                        found = Some(x);
                    }
                });
                found.map(|x| (t, x))
            },
            &mut |a, b| match (a, b) {
                (Some(a), Some(b)) => Some(if a.0 <= b.0 { a } else { b }),
                (Some(a), None) => Some(a),
                (None, b) => b,
            },
        );
        r.map(|x| x.1)
    }
    fn find_first<P>(self, predicate: P) -> Option<Self::Item>
    where
        P: Fn(&Self::Item) -> bool,
    {
        drive(
            &self,
            &mut |p, lo, hi| {
                let mut found: Option<Self::Item> = None;
                p.m_each(lo, hi, &mut |x| {
                    if found.is_none() && predicate(&x) {
                        found = Some(x);
                    }
                });
                found
            },
            &mut |a, b| a.or(b),
        )
    }
    fn find_last<P>(self, predicate: P) -> Option<Self::Item>
    where
        P: Fn(&Self::Item) -> bool,
    {
        drive(
            &self,
            &mut |p, lo, hi| {
                let mut found: Option<Self::Item> = None;
                p.m_each(lo, hi, &mut |x| {
                    if predicate(&x) {
                        found = Some(x);
                    }
                });
                found
            },
            &mut |a, b| b.or(a),
        )
    }
    fn collect<C>(self) -> C
    where
        C: FromParallelIterator<Self::Item>,
    {
        C::from_par_iter(self)
    }
    fn unzip<A, B, FromA, FromB>(self) -> (FromA, FromB)
    where
        Self: ParallelIterator<Item = (A, B)>,
        FromA: Default + ParallelExtend<A>,
        FromB: Default + ParallelExtend<B>,
    {
        let v: Vec<(A, B)> = collect_vec(self);
        let (a, b): (Vec<A>, Vec<B>) = v.into_iter().unzip();
        let mut fa = FromA::default();
        fa.par_extend(a);
        let mut fb = FromB::default();
        fb.par_extend(b);
        (fa, fb)
    }
    fn partition<A, B, P>(self, predicate: P) -> (A, B)
    where
        A: Default + ParallelExtend<Self::Item>,
        B: Default + ParallelExtend<Self::Item>,
        P: Fn(&Self::Item) -> bool,
    {
        let v: Vec<Self::Item> = collect_vec(self);
        let (x, y): (Vec<_>, Vec<_>) = v.into_iter().partition(|i| predicate(i));
        let mut a = A::default();
        a.par_extend(x);
        let mut b = B::default();
        b.par_extend(y);
        (a, b)
    }
    fn opt_len(&self) -> Option<usize> {
        None
    }
}

/// items in index order: per-leaf vectors appended along the tree (ListVecConsumer / CollectConsumer)
pub fn collect_vec<P: ParallelIterator>(p: P) -> Vec<P::Item> {
    drive(&p, &mut |p, lo, hi| leaf_vec(p, lo, hi), &mut |mut a, mut b| {
        a.append(&mut b);
        a
    })
}

pub trait IndexedParallelIterator: ParallelIterator {
    fn len(&self) -> usize {
        self.m_len()
    }
    fn zip<Z>(self, zip_op: Z) -> Zip<Self, Z::Iter>
    where
        Z: IntoParallelIterator,
        Z::Iter: IndexedParallelIterator,
    {
        Zip { a: self, b: zip_op.into_par_iter() }
    }
    fn zip_eq<Z>(self, zip_op: Z) -> Zip<Self, Z::Iter>
    where
        Z: IntoParallelIterator,
        Z::Iter: IndexedParallelIterator,
    {
        let b = zip_op.into_par_iter();
        assert_eq!(self.m_len(), b.m_len(), "iterators must have the same length");
        Zip { a: self, b }
    }
    fn enumerate(self) -> Enumerate<Self> {
        Enumerate { base: self }
    }
    fn with_min_len(self, min: usize) -> MinLen<Self> {
        MinLen { base: self, min }
    }
    fn with_max_len(self, max: usize) -> MaxLen<Self> {
        MaxLen { base: self, max }
    }
    fn rev(self) -> Rev<Self> {
        Rev { base: self }
    }
    fn skip(self, n: usize) -> Window<Self> {
        let len = self.m_len();
        let n = n.min(len);
        Window { base: self, off: n, len: len - n }
    }
    fn take(self, n: usize) -> Window<Self> {
        let len = self.m_len();
        Window { base: self, off: 0, len: n.min(len) }
    }
    fn step_by(self, step: usize) -> StepBy<Self> {
        assert!(step != 0, "step must not be zero");
        StepBy { base: self, step }
    }
    fn chunks(self, chunk_size: usize) -> ChunksOf<Self> {
        assert!(chunk_size != 0, "chunk_size must not be zero");
        ChunksOf { base: self, size: chunk_size }
    }
    fn collect_into_vec(self, target: &mut Vec<Self::Item>) {
        target.clear();
        target.extend(collect_vec(self));
    }
    fn position_any<P>(self, predicate: P) -> Option<usize>
    where
        P: Fn(Self::Item) -> bool,
    {
        self.enumerate().map(|(i, x)| (i, predicate(x))).find_any(|(_, b)| *b).map(|(i, _)| i)
    }
    fn position_first<P>(self, predicate: P) -> Option<usize>
    where
        P: Fn(Self::Item) -> bool,
    {
        self.enumerate().map(|(i, x)| (i, predicate(x))).find_first(|(_, b)| *b).map(|(i, _)| i)
    }
}

pub trait IntoParallelIterator {
    type Iter: ParallelIterator<Item = Self::Item>;
    type Item;
    fn into_par_iter(self) -> Self::Iter;
}

impl<T: ParallelIterator> IntoParallelIterator for T {
    type Iter = T;
    type Item = T::Item;
    fn into_par_iter(self) -> T {
        self
    }
}

pub trait IntoParallelRefIterator<'data> {
    type Iter: ParallelIterator<Item = Self::Item>;
    type Item: 'data;
    fn par_iter(&'data self) -> Self::Iter;
}
impl<'data, I: 'data + ?Sized> IntoParallelRefIterator<'data> for I
where
    &'data I: IntoParallelIterator,
{
    type Iter = <&'data I as IntoParallelIterator>::Iter;
    type Item = <&'data I as IntoParallelIterator>::Item;
    fn par_iter(&'data self) -> Self::Iter {
        self.into_par_iter()
    }
}

pub trait IntoParallelRefMutIterator<'data> {
    type Iter: ParallelIterator<Item = Self::Item>;
    type Item: 'data;
    fn par_iter_mut(&'data mut self) -> Self::Iter;
}
impl<'data, I: 'data + ?Sized> IntoParallelRefMutIterator<'data> for I
where
    &'data mut I: IntoParallelIterator,
{
    type Iter = <&'data mut I as IntoParallelIterator>::Iter;
    type Item = <&'data mut I as IntoParallelIterator>::Item;
    fn par_iter_mut(&'data mut self) -> Self::Iter {
        self.into_par_iter()
    }
}

pub trait FromParallelIterator<T> {
    fn from_par_iter<I>(par_iter: I) -> Self
    where
        I: IntoParallelIterator<Item = T>;
}
pub trait ParallelExtend<T> {
    fn par_extend<I>(&mut self, par_iter: I)
    where
        I: IntoParallelIterator<Item = T>;
}

impl<T> FromParallelIterator<T> for Vec<T> {
    fn from_par_iter<I: IntoParallelIterator<Item = T>>(par_iter: I) -> Self {
        collect_vec(par_iter.into_par_iter())
    }
}
impl<T> ParallelExtend<T> for Vec<T> {
    fn par_extend<I: IntoParallelIterator<Item = T>>(&mut self, par_iter: I) {
        self.extend(collect_vec(par_iter.into_par_iter()));
    }
}
impl<T> FromParallelIterator<T> for VecDeque<T> {
    fn from_par_iter<I: IntoParallelIterator<Item = T>>(par_iter: I) -> Self {
        collect_vec(par_iter.into_par_iter()).into()
    }
}
impl<T> FromParallelIterator<T> for LinkedList<T> {
    fn from_par_iter<I: IntoParallelIterator<Item = T>>(par_iter: I) -> Self {
        collect_vec(par_iter.into_par_iter()).into_iter().collect()
    }
}
impl<K: Eq + Hash, V, S: BuildHasher + Default> FromParallelIterator<(K, V)> for HashMap<K, V, S> {
    fn from_par_iter<I: IntoParallelIterator<Item = (K, V)>>(par_iter: I) -> Self {
        collect_vec(par_iter.into_par_iter()).into_iter().collect()
    }
}
impl<K: Eq + Hash, S: BuildHasher + Default> FromParallelIterator<K> for HashSet<K, S> {
    fn from_par_iter<I: IntoParallelIterator<Item = K>>(par_iter: I) -> Self {
        collect_vec(par_iter.into_par_iter()).into_iter().collect()
    }
}
impl<K: Ord, V> FromParallelIterator<(K, V)> for BTreeMap<K, V> {
    fn from_par_iter<I: IntoParallelIterator<Item = (K, V)>>(par_iter: I) -> Self {
        collect_vec(par_iter.into_par_iter()).into_iter().collect()
    }
}
impl<K: Ord> FromParallelIterator<K> for BTreeSet<K> {
    fn from_par_iter<I: IntoParallelIterator<Item = K>>(par_iter: I) -> Self {
        collect_vec(par_iter.into_par_iter()).into_iter().collect()
    }
}
impl FromParallelIterator<char> for String {
    fn from_par_iter<I: IntoParallelIterator<Item = char>>(par_iter: I) -> Self {
        collect_vec(par_iter.into_par_iter()).into_iter().collect()
    }
}
impl FromParallelIterator<String> for String {
    fn from_par_iter<I: IntoParallelIterator<Item = String>>(par_iter: I) -> Self {
        collect_vec(par_iter.into_par_iter()).concat()
    }
}
impl FromParallelIterator<()> for () {
    fn from_par_iter<I: IntoParallelIterator<Item = ()>>(par_iter: I) -> Self {
        par_iter.into_par_iter().for_each(|_| ())
    }
}
impl<T, E> FromParallelIterator<Result<T, E>> for Result<Vec<T>, E> {
    fn from_par_iter<I: IntoParallelIterator<Item = Result<T, E>>>(par_iter: I) -> Self {
        collect_vec(par_iter.into_par_iter()).into_iter().collect()
    }
}
impl<T> FromParallelIterator<Option<T>> for Option<Vec<T>> {
    fn from_par_iter<I: IntoParallelIterator<Item = Option<T>>>(par_iter: I) -> Self {
        collect_vec(par_iter.into_par_iter()).into_iter().collect()
    }
}

// ------------------------------------------------------------------------------------------------
// base producers
// ------------------------------------------------------------------------------------------------
pub struct SliceIter<'data, T> {
    pub(crate) slice: &'data [T],
}
impl<'data, T: 'data> ParallelIterator for SliceIter<'data, T> {
    type Item = &'data T;
    fn m_len(&self) -> usize {
        self.slice.len()
    }
    fn m_each(&self, lo: usize, hi: usize, sink: Sink<'_, &'data T>) {
        let s: &'data [T] = self.slice;
        for x in &s[lo..hi] {
            sink(x);
        }
    }
    fn opt_len(&self) -> Option<usize> {
        Some(self.slice.len())
    }
}
impl<'data, T: 'data> IndexedParallelIterator for SliceIter<'data, T> {}

impl<'data, T: 'data> IntoParallelIterator for &'data [T] {
    type Iter = SliceIter<'data, T>;
    type Item = &'data T;
    fn into_par_iter(self) -> Self::Iter {
        SliceIter { slice: self }
    }
}
impl<'data, T: 'data> IntoParallelIterator for &'data Vec<T> {
    type Iter = SliceIter<'data, T>;
    type Item = &'data T;
    fn into_par_iter(self) -> Self::Iter {
        SliceIter { slice: self }
    }
}
impl<'data, T: 'data, const N: usize> IntoParallelIterator for &'data [T; N] {
    type Iter = SliceIter<'data, T>;
    type Item = &'data T;
    fn into_par_iter(self) -> Self::Iter {
        SliceIter { slice: self }
    }
}

pub struct SliceIterMut<'data, T> {
    pub(crate) ptr: *mut T,
    pub(crate) len: usize,
    pub(crate) _m: std::marker::PhantomData<&'data mut [T]>,
}
impl<'data, T: 'data> ParallelIterator for SliceIterMut<'data, T> {
    type Item = &'data mut T;
    fn m_len(&self) -> usize {
        self.len
    }
    fn m_each(&self, lo: usize, hi: usize, sink: Sink<'_, &'data mut T>) {
        for i in lo..hi {
            // every index is handed out exactly once per drive (leaves partition the domain)
            sink(unsafe { &mut *self.ptr.add(i) });
        }
    }
}
impl<'data, T: 'data> IndexedParallelIterator for SliceIterMut<'data, T> {}
impl<'data, T: 'data> IntoParallelIterator for &'data mut [T] {
    type Iter = SliceIterMut<'data, T>;
    type Item = &'data mut T;
    fn into_par_iter(self) -> Self::Iter {
        SliceIterMut { ptr: self.as_mut_ptr(), len: self.len(), _m: std::marker::PhantomData }
    }
}
impl<'data, T: 'data> IntoParallelIterator for &'data mut Vec<T> {
    type Iter = SliceIterMut<'data, T>;
    type Item = &'data mut T;
    fn into_par_iter(self) -> Self::Iter {
        SliceIterMut { ptr: self.as_mut_ptr(), len: self.len(), _m: std::marker::PhantomData }
    }
}

pub struct VecIter<T> {
    items: RefCell<Vec<Option<T>>>,
}
impl<T> ParallelIterator for VecIter<T> {
    type Item = T;
    fn m_len(&self) -> usize {
        self.items.borrow().len()
    }
    fn m_each(&self, lo: usize, hi: usize, sink: Sink<'_, T>) {
        for i in lo..hi {
            let x = self.items.borrow_mut()[i].take().expect("item taken twice");
            sink(x);
        }
    }
}
impl<T> IndexedParallelIterator for VecIter<T> {}
impl<T> IntoParallelIterator for Vec<T> {
    type Iter = VecIter<T>;
    type Item = T;
    fn into_par_iter(self) -> Self::Iter {
        VecIter { items: RefCell::new(self.into_iter().map(Some).collect()) }
    }
}
impl<T, const N: usize> IntoParallelIterator for [T; N] {
    type Iter = VecIter<T>;
    type Item = T;
    fn into_par_iter(self) -> Self::Iter {
        VecIter { items: RefCell::new(self.into_iter().map(Some).collect()) }
    }
}
impl<T> IntoParallelIterator for Option<T> {
    type Iter = VecIter<T>;
    type Item = T;
    fn into_par_iter(self) -> Self::Iter {
        VecIter { items: RefCell::new(self.into_iter().map(Some).collect()) }
    }
}

pub struct RangeIter<T> {
    start: T,
    len: usize,
}
macro_rules! range_impl {
    ($($t:ty),*) => {$(
        impl ParallelIterator for RangeIter<$t> {
            type Item = $t;
            fn m_len(&self) -> usize { self.len }
            fn m_each(&self, lo: usize, hi: usize, sink: Sink<'_, $t>) {
                for i in lo..hi { sink(self.start + i as $t); }
            }
        }
        impl IndexedParallelIterator for RangeIter<$t> {}
        impl IntoParallelIterator for std::ops::Range<$t> {
            type Iter = RangeIter<$t>;
            type Item = $t;
            fn into_par_iter(self) -> Self::Iter {
                let len = if self.end > self.start { (self.end - self.start) as usize } else { 0 };
                RangeIter { start: self.start, len }
            }
        }
        impl IntoParallelIterator for std::ops::RangeInclusive<$t> {
            type Iter = RangeIter<$t>;
            type Item = $t;
            fn into_par_iter(self) -> Self::Iter {
                let (s, e) = (*self.start(), *self.end());
                let len = if e >= s { (e - s) as usize + 1 } else { 0 };
                RangeIter { start: s, len }
            }
        }
    )*};
}
range_impl!(usize, u64, u32, u16, u8, isize, i64, i32, i16, i8);

/// zip in push style: the left side of the leaf is produced first, then paired with the right side
fn zip_each<A: ParallelIterator, B: ParallelIterator>(a: &A, b: &B, lo: usize, hi: usize, sink: Sink<'_, (A::Item, B::Item)>) {
    let mut left = leaf_vec(a, lo, hi).into_iter();
    b.m_each(lo, hi, &mut |y| {
        if let Some(x) = left.next() {
            sink((x, y));
        }
    });
}

// tuples of indexed iterators (MultiZip)
pub struct MultiZip2<A, B> {
    a: A,
    b: B,
}
impl<A: IndexedParallelIterator, B: IndexedParallelIterator> ParallelIterator for MultiZip2<A, B> {
    type Item = (A::Item, B::Item);
    fn m_len(&self) -> usize {
        self.a.m_len().min(self.b.m_len())
    }
    fn m_each(&self, lo: usize, hi: usize, sink: Sink<'_, Self::Item>) {
        zip_each(&self.a, &self.b, lo, hi, sink)
    }
    fn m_min_len(&self) -> usize {
        self.a.m_min_len().max(self.b.m_min_len())
    }
    fn m_max_len(&self) -> usize {
        self.a.m_max_len().min(self.b.m_max_len())
    }
}
impl<A: IndexedParallelIterator, B: IndexedParallelIterator> IndexedParallelIterator for MultiZip2<A, B> {}
impl<A, B> IntoParallelIterator for (A, B)
where
    A: IntoParallelIterator,
    B: IntoParallelIterator,
    A::Iter: IndexedParallelIterator,
    B::Iter: IndexedParallelIterator,
{
    type Iter = MultiZip2<A::Iter, B::Iter>;
    type Item = (A::Item, B::Item);
    fn into_par_iter(self) -> Self::Iter {
        MultiZip2 { a: self.0.into_par_iter(), b: self.1.into_par_iter() }
    }
}
pub struct MultiZip3<A, B, C> {
    a: A,
    b: B,
    c: C,
}
impl<A: IndexedParallelIterator, B: IndexedParallelIterator, C: IndexedParallelIterator> ParallelIterator for MultiZip3<A, B, C> {
    type Item = (A::Item, B::Item, C::Item);
    fn m_len(&self) -> usize {
        self.a.m_len().min(self.b.m_len()).min(self.c.m_len())
    }
    fn m_each(&self, lo: usize, hi: usize, sink: Sink<'_, Self::Item>) {
        let mut xs = leaf_vec(&self.a, lo, hi).into_iter();
        let mut ys = leaf_vec(&self.b, lo, hi).into_iter();
        self.c.m_each(lo, hi, &mut |z| {
            if let (Some(x), Some(y)) = (xs.next(), ys.next()) {
                sink((x, y, z));
            }
        });
    }
}
impl<A: IndexedParallelIterator, B: IndexedParallelIterator, C: IndexedParallelIterator> IndexedParallelIterator for MultiZip3<A, B, C> {}
impl<A, B, C> IntoParallelIterator for (A, B, C)
where
    A: IntoParallelIterator,
    B: IntoParallelIterator,
    C: IntoParallelIterator,
    A::Iter: IndexedParallelIterator,
    B::Iter: IndexedParallelIterator,
    C::Iter: IndexedParallelIterator,
{
    type Iter = MultiZip3<A::Iter, B::Iter, C::Iter>;
    type Item = (A::Item, B::Item, C::Item);
    fn into_par_iter(self) -> Self::Iter {
        MultiZip3 { a: self.0.into_par_iter(), b: self.1.into_par_iter(), c: self.2.into_par_iter() }
    }
}

// ------------------------------------------------------------------------------------------------
// adapters
// ------------------------------------------------------------------------------------------------
macro_rules! forward_len {
    () => {
        fn m_len(&self) -> usize {
            self.base.m_len()
        }
        fn m_min_len(&self) -> usize {
            self.base.m_min_len()
        }
        fn m_max_len(&self) -> usize {
            self.base.m_max_len()
        }
    };
}

pub struct Map<I, F> {
    base: I,
    f: F,
}
impl<I: ParallelIterator, F: Fn(I::Item) -> R, R> ParallelIterator for Map<I, F> {
    type Item = R;
    forward_len!();
    fn m_each(&self, lo: usize, hi: usize, sink: Sink<'_, R>) {
        self.base.m_each(lo, hi, &mut |x| sink((self.f)(x)))
    }
}
impl<I: IndexedParallelIterator, F: Fn(I::Item) -> R, R> IndexedParallelIterator for Map<I, F> {}

pub struct MapWith<I, T, F> {
    base: I,
    init: T,
    f: F,
}
impl<I: ParallelIterator, T: Clone, F: Fn(&mut T, I::Item) -> R, R> ParallelIterator for MapWith<I, T, F> {
    type Item = R;
    forward_len!();
    fn m_each(&self, lo: usize, hi: usize, sink: Sink<'_, R>) {
        let mut t = self.init.clone();
        self.base.m_each(lo, hi, &mut |x| sink((self.f)(&mut t, x)))
    }
}
impl<I: IndexedParallelIterator, T: Clone, F: Fn(&mut T, I::Item) -> R, R> IndexedParallelIterator for MapWith<I, T, F> {}

pub struct Inspect<I, F> {
    base: I,
    f: F,
}
impl<I: ParallelIterator, F: Fn(&I::Item)> ParallelIterator for Inspect<I, F> {
    type Item = I::Item;
    forward_len!();
    fn m_each(&self, lo: usize, hi: usize, sink: Sink<'_, I::Item>) {
        self.base.m_each(lo, hi, &mut |x| {
            (self.f)(&x);
            sink(x)
        })
    }
}
impl<I: IndexedParallelIterator, F: Fn(&I::Item)> IndexedParallelIterator for Inspect<I, F> {}

pub struct Filter<I, F> {
    base: I,
    f: F,
}
impl<I: ParallelIterator, F: Fn(&I::Item) -> bool> ParallelIterator for Filter<I, F> {
    type Item = I::Item;
    forward_len!();
    fn m_each(&self, lo: usize, hi: usize, sink: Sink<'_, I::Item>) {
        self.base.m_each(lo, hi, &mut |x| {
            if (self.f)(&x) {
                sink(x)
            }
        })
    }
}

pub struct FilterMap<I, F> {
    base: I,
    f: F,
}
impl<I: ParallelIterator, F: Fn(I::Item) -> Option<R>, R> ParallelIterator for FilterMap<I, F> {
    type Item = R;
    forward_len!();
    fn m_each(&self, lo: usize, hi: usize, sink: Sink<'_, R>) {
        self.base.m_each(lo, hi, &mut |x| {
            if let Some(y) = (self.f)(x) {
                sink(y)
            }
        })
    }
}

/// the inner iterators are consumed sequentially inside the leaf (their own splitting is not modelled)
pub struct FlatMap<I, F> {
    base: I,
    f: F,
}
impl<I: ParallelIterator, F: Fn(I::Item) -> PI, PI: IntoParallelIterator> ParallelIterator for FlatMap<I, F> {
    type Item = PI::Item;
    forward_len!();
    fn m_each(&self, lo: usize, hi: usize, sink: Sink<'_, PI::Item>) {
        self.base.m_each(lo, hi, &mut |x| {
            let inner = (self.f)(x).into_par_iter();
            let n = inner.m_len();
            inner.m_each(0, n, &mut |y| sink(y));
        })
    }
}

pub struct FlatMapIter<I, F> {
    base: I,
    f: F,
}
impl<I: ParallelIterator, F: Fn(I::Item) -> SI, SI: IntoIterator> ParallelIterator for FlatMapIter<I, F> {
    type Item = SI::Item;
    forward_len!();
    fn m_each(&self, lo: usize, hi: usize, sink: Sink<'_, SI::Item>) {
        self.base.m_each(lo, hi, &mut |x| {
            for y in (self.f)(x) {
                sink(y);
            }
        })
    }
}

pub struct Flatten<I> {
    base: I,
}
impl<I: ParallelIterator> ParallelIterator for Flatten<I>
where
    I::Item: IntoParallelIterator,
{
    type Item = <I::Item as IntoParallelIterator>::Item;
    forward_len!();
    fn m_each(&self, lo: usize, hi: usize, sink: Sink<'_, Self::Item>) {
        self.base.m_each(lo, hi, &mut |x| {
            let inner = x.into_par_iter();
            let n = inner.m_len();
            inner.m_each(0, n, &mut |y| sink(y));
        })
    }
}

pub struct FlattenIter<I> {
    base: I,
}
impl<I: ParallelIterator> ParallelIterator for FlattenIter<I>
where
    I::Item: IntoIterator,
{
    type Item = <I::Item as IntoIterator>::Item;
    forward_len!();
    fn m_each(&self, lo: usize, hi: usize, sink: Sink<'_, Self::Item>) {
        self.base.m_each(lo, hi, &mut |x| {
            for y in x {
                sink(y);
            }
        })
    }
}

pub struct Cloned<I> {
    base: I,
}
impl<'x, T: 'x + Clone, I: ParallelIterator<Item = &'x T>> ParallelIterator for Cloned<I> {
    type Item = T;
    forward_len!();
    fn m_each(&self, lo: usize, hi: usize, sink: Sink<'_, T>) {
        self.base.m_each(lo, hi, &mut |x| sink(x.clone()))
    }
}
impl<'x, T: 'x + Clone, I: IndexedParallelIterator<Item = &'x T>> IndexedParallelIterator for Cloned<I> {}

pub struct Copied<I> {
    base: I,
}
impl<'x, T: 'x + Copy, I: ParallelIterator<Item = &'x T>> ParallelIterator for Copied<I> {
    type Item = T;
    forward_len!();
    fn m_each(&self, lo: usize, hi: usize, sink: Sink<'_, T>) {
        self.base.m_each(lo, hi, &mut |x| sink(*x))
    }
}
impl<'x, T: 'x + Copy, I: IndexedParallelIterator<Item = &'x T>> IndexedParallelIterator for Copied<I> {}

pub struct Fold<I, ID, F> {
    base: I,
    identity: ID,
    f: F,
}
impl<I: ParallelIterator, T, ID: Fn() -> T, F: Fn(T, I::Item) -> T> ParallelIterator for Fold<I, ID, F> {
    type Item = T;
    forward_len!();
    fn m_each(&self, lo: usize, hi: usize, sink: Sink<'_, T>) {
        let mut acc = Some((self.identity)());
        self.base.m_each(lo, hi, &mut |x| acc = Some((self.f)(acc.take().unwrap(), x)));
        sink(acc.unwrap())
    }
}

pub struct FoldWith<I, T, F> {
    base: I,
    init: T,
    f: F,
}
impl<I: ParallelIterator, T: Clone, F: Fn(T, I::Item) -> T> ParallelIterator for FoldWith<I, T, F> {
    type Item = T;
    forward_len!();
    fn m_each(&self, lo: usize, hi: usize, sink: Sink<'_, T>) {
        let mut acc = Some(self.init.clone());
        self.base.m_each(lo, hi, &mut |x| acc = Some((self.f)(acc.take().unwrap(), x)));
        sink(acc.unwrap())
    }
}

pub struct Chain<A, B> {
    a: A,
    b: B,
}
impl<A: ParallelIterator, B: ParallelIterator<Item = A::Item>> ParallelIterator for Chain<A, B> {
    type Item = A::Item;
    fn m_len(&self) -> usize {
        self.a.m_len() + self.b.m_len()
    }
    fn m_each(&self, lo: usize, hi: usize, sink: Sink<'_, A::Item>) {
        let na = self.a.m_len();
        let (alo, ahi) = (lo.min(na), hi.min(na));
        let (blo, bhi) = (lo.max(na) - na, hi.max(na) - na);
        self.a.m_each(alo, ahi, &mut |x| sink(x));
        self.b.m_each(blo, bhi, &mut |x| sink(x));
    }
}
impl<A: IndexedParallelIterator, B: IndexedParallelIterator<Item = A::Item>> IndexedParallelIterator for Chain<A, B> {}

pub struct Zip<A, B> {
    a: A,
    b: B,
}
impl<A: IndexedParallelIterator, B: IndexedParallelIterator> ParallelIterator for Zip<A, B> {
    type Item = (A::Item, B::Item);
    fn m_len(&self) -> usize {
        self.a.m_len().min(self.b.m_len())
    }
    fn m_each(&self, lo: usize, hi: usize, sink: Sink<'_, Self::Item>) {
        zip_each(&self.a, &self.b, lo, hi, sink)
    }
    fn m_min_len(&self) -> usize {
        self.a.m_min_len().max(self.b.m_min_len())
    }
    fn m_max_len(&self) -> usize {
        self.a.m_max_len().min(self.b.m_max_len())
    }
}
impl<A: IndexedParallelIterator, B: IndexedParallelIterator> IndexedParallelIterator for Zip<A, B> {}

pub struct Enumerate<I> {
    base: I,
}
impl<I: IndexedParallelIterator> ParallelIterator for Enumerate<I> {
    type Item = (usize, I::Item);
    forward_len!();
    fn m_each(&self, lo: usize, hi: usize, sink: Sink<'_, Self::Item>) {
        let mut i = lo;
        self.base.m_each(lo, hi, &mut |x| {
            sink((i, x));
            i += 1;
        })
    }
}
impl<I: IndexedParallelIterator> IndexedParallelIterator for Enumerate<I> {}

pub struct MinLen<I> {
    base: I,
    min: usize,
}
impl<I: IndexedParallelIterator> ParallelIterator for MinLen<I> {
    type Item = I::Item;
    fn m_len(&self) -> usize {
        self.base.m_len()
    }
    fn m_each(&self, lo: usize, hi: usize, sink: Sink<'_, I::Item>) {
        self.base.m_each(lo, hi, sink)
    }
    fn m_min_len(&self) -> usize {
        self.min.max(self.base.m_min_len())
    }
    fn m_max_len(&self) -> usize {
        self.base.m_max_len()
    }
}
impl<I: IndexedParallelIterator> IndexedParallelIterator for MinLen<I> {}

pub struct MaxLen<I> {
    base: I,
    max: usize,
}
impl<I: IndexedParallelIterator> ParallelIterator for MaxLen<I> {
    type Item = I::Item;
    fn m_len(&self) -> usize {
        self.base.m_len()
    }
    fn m_each(&self, lo: usize, hi: usize, sink: Sink<'_, I::Item>) {
        self.base.m_each(lo, hi, sink)
    }
    fn m_min_len(&self) -> usize {
        self.base.m_min_len()
    }
    fn m_max_len(&self) -> usize {
        self.max.min(self.base.m_max_len())
    }
}
impl<I: IndexedParallelIterator> IndexedParallelIterator for MaxLen<I> {}

pub struct Rev<I> {
    base: I,
}
impl<I: IndexedParallelIterator> ParallelIterator for Rev<I> {
    type Item = I::Item;
    forward_len!();
    fn m_each(&self, lo: usize, hi: usize, sink: Sink<'_, I::Item>) {
        let n = self.base.m_len();
        for x in leaf_vec(&self.base, n - hi, n - lo).into_iter().rev() {
            sink(x);
        }
    }
}
impl<I: IndexedParallelIterator> IndexedParallelIterator for Rev<I> {}

pub struct Window<I> {
    base: I,
    off: usize,
    len: usize,
}
impl<I: IndexedParallelIterator> ParallelIterator for Window<I> {
    type Item = I::Item;
    fn m_len(&self) -> usize {
        self.len
    }
    fn m_each(&self, lo: usize, hi: usize, sink: Sink<'_, I::Item>) {
        self.base.m_each(self.off + lo, self.off + hi, sink)
    }
    fn m_min_len(&self) -> usize {
        self.base.m_min_len()
    }
    fn m_max_len(&self) -> usize {
        self.base.m_max_len()
    }
}
impl<I: IndexedParallelIterator> IndexedParallelIterator for Window<I> {}

pub struct ChunksOf<I> {
    base: I,
    size: usize,
}
impl<I: IndexedParallelIterator> ParallelIterator for ChunksOf<I> {
    type Item = Vec<I::Item>;
    fn m_len(&self) -> usize {
        (self.base.m_len() + self.size - 1) / self.size
    }
    fn m_each(&self, lo: usize, hi: usize, sink: Sink<'_, Vec<I::Item>>) {
        let n = self.base.m_len();
        for c in lo..hi {
            sink(leaf_vec(&self.base, c * self.size, ((c + 1) * self.size).min(n)));
        }
    }
}
impl<I: IndexedParallelIterator> IndexedParallelIterator for ChunksOf<I> {}

pub struct MapInit<I, INIT, F> {
    base: I,
    init: INIT,
    f: F,
}
impl<I: ParallelIterator, INIT: Fn() -> T, T, F: Fn(&mut T, I::Item) -> R, R> ParallelIterator for MapInit<I, INIT, F> {
    type Item = R;
    forward_len!();
    fn m_each(&self, lo: usize, hi: usize, sink: Sink<'_, R>) {
        let mut t = (self.init)();
        self.base.m_each(lo, hi, &mut |x| sink((self.f)(&mut t, x)))
    }
}
impl<I: IndexedParallelIterator, INIT: Fn() -> T, T, F: Fn(&mut T, I::Item) -> R, R> IndexedParallelIterator for MapInit<I, INIT, F> {}

pub struct Update<I, F> {
    base: I,
    f: F,
}
impl<I: ParallelIterator, F: Fn(&mut I::Item)> ParallelIterator for Update<I, F> {
    type Item = I::Item;
    forward_len!();
    fn m_each(&self, lo: usize, hi: usize, sink: Sink<'_, I::Item>) {
        self.base.m_each(lo, hi, &mut |mut x| {
            (self.f)(&mut x);
            sink(x)
        })
    }
}
impl<I: IndexedParallelIterator, F: Fn(&mut I::Item)> IndexedParallelIterator for Update<I, F> {}

pub struct StepBy<I> {
    base: I,
    step: usize,
}
impl<I: IndexedParallelIterator> ParallelIterator for StepBy<I> {
    type Item = I::Item;
    fn m_len(&self) -> usize {
        (self.base.m_len() + self.step - 1) / self.step
    }
    fn m_each(&self, lo: usize, hi: usize, sink: Sink<'_, I::Item>) {
        for i in lo..hi {
            self.base.m_each(i * self.step, i * self.step + 1, sink);
        }
    }
}
impl<I: IndexedParallelIterator> IndexedParallelIterator for StepBy<I> {}

/// `iter.par_bridge()`: the sequential iterator is drained by the workers one item at a time; every item is its own leaf
pub trait ParallelBridge: Sized {
    fn par_bridge(self) -> MaxLen<VecIter<Self::Item>>
    where
        Self: Iterator;
}
impl<T: Iterator> ParallelBridge for T {
    fn par_bridge(self) -> MaxLen<VecIter<T::Item>> {
        self.collect::<Vec<_>>().into_par_iter().with_max_len(1)
    }
}

