//! The controlled scheduler: choice points, split trees, leaf orders, exploration loop.
use std::cell::RefCell;

#[derive(Clone, Debug, PartialEq)]
pub struct Choice {
    /// index of the top-level parallel region (in execution order) this choice belongs to
    pub region: usize,
    pub n: usize,
    pub pick: usize,
    pub kind: &'static str,
}

#[derive(Default)]
struct State {
    active: bool,
    threads: usize,
    /// picks to replay (only for choice points of free regions)
    prefix: Vec<usize>,
    /// n recorded for the replayed positions by the previous execution (divergence detection)
    expect_n: Vec<usize>,
    pos: usize,
    trace: Vec<Choice>,
    /// regions whose choices are free; all other regions follow the canonical schedule
    free: Vec<usize>,
    all_free: bool,
    depth: usize,
    in_pool: usize,
    next_region: usize,
    cur_region: usize,
    /// shapes of the regions seen (for reporting): (region, n items, leaves)
    log: Vec<(usize, usize, usize)>,
    divergence: Option<String>,
    /// per active region: (symbolic worker -> concrete thread index, symbolic worker of the running leaf)
    workers: Vec<(Vec<Option<usize>>, usize)>,
}

thread_local! {
    static ST: RefCell<State> = RefCell::new(State::default());
}

/// threads of the pool the model pretends to run on
pub fn current_num_threads() -> usize {
    ST.with(|s| {
        let s = s.borrow();
        if s.active {
            s.threads.max(1)
        } else {
            1
        }
    })
}

/// A scheduling decision with `n` alternatives; 0 is the canonical one.
pub fn choose(n: usize, kind: &'static str) -> usize {
    if n <= 1 {
        return 0;
    }
    ST.with(|s| {
        let mut s = s.borrow_mut();
        if !s.active {
            return 0;
        }
        let region = s.cur_region;
        if !(s.all_free || s.free.contains(&region)) {
            return 0;
        }
        let pos = s.pos;
        s.pos += 1;
        let pick = if pos < s.prefix.len() {
            if pos < s.expect_n.len() && s.expect_n[pos] != n && s.divergence.is_none() {
                s.divergence = Some(format!(
                    "choice point {} ({}) offers {} alternatives, the previous execution of the same prefix offered {}",
                    pos, kind, n, s.expect_n[pos]
                ));
            }
            s.prefix[pos].min(n - 1)
        } else {
            0
        };
        s.trace.push(Choice { region, n, pick, kind });
        pick
    })
}

fn enter_region() -> (usize, bool) {
    ST.with(|s| {
        let mut s = s.borrow_mut();
        let top = s.depth == 0;
        if top {
            s.cur_region = s.next_region;
            s.next_region += 1;
        }
        s.depth += 1;
        (s.cur_region, top)
    })
}

fn leave_region() {
    ST.with(|s| {
        let mut s = s.borrow_mut();
        s.depth -= 1;
    })
}

fn in_pool() -> bool {
    ST.with(|s| s.borrow().in_pool > 0)
}

// ---------------------------------------------------------------------------------------------
// split trees (rayon 1.10 bridge_producer_consumer / LengthSplitter / Splitter)
// ---------------------------------------------------------------------------------------------
#[derive(Clone, Copy)]
struct Splitter {
    splits: usize,
    min: usize,
}

impl Splitter {
    fn new(min: usize, max: usize, len: usize, threads: usize) -> Splitter {
        let mut sp = Splitter { splits: threads, min: min.max(1) };
        let min_splits = len / max.max(1);
        if min_splits > sp.splits {
            sp.splits = min_splits;
        }
        sp
    }
    fn try_split(&mut self, len: usize, stolen: bool, threads: usize) -> bool {
        if len / 2 < self.min {
            return false;
        }
        if stolen {
            self.splits = threads.max(self.splits / 2);
            true
        } else if self.splits > 0 {
            self.splits /= 2;
            true
        } else {
            false
        }
    }
}

#[derive(Debug, Clone)]
pub enum Tree {
    Leaf(usize),
    Node(Box<Tree>, Box<Tree>, bool),
}

pub struct Plan {
    /// (lo, hi) of every leaf, in index order
    pub leaves: Vec<(usize, usize)>,
    pub tree: Tree,
    /// leaf indices in execution order
    pub order: Vec<usize>,
    /// symbolic worker that runs each leaf: a stolen half runs on a worker of its own
    pub workers: Vec<usize>,
}

fn build(
    lo: usize,
    len: usize,
    migrated: bool,
    mut sp: Splitter,
    threads: usize,
    injected_join: bool,
    leaves: &mut Vec<(usize, usize)>,
    worker: usize,
    workers: &mut Vec<usize>,
    next_worker: &mut usize,
) -> Tree {
    if sp.try_split(len, migrated, threads) {
        let mid = len / 2;
        // is the right half stolen by another worker? (nobody to steal it in a pool of one)
        let stolen = threads > 1 && choose(2, "steal") == 1;
        let thief = if stolen {
            *next_worker += 1;
            *next_worker
        } else {
            worker
        };
        let left = build(lo, mid, injected_join, sp, threads, false, leaves, worker, workers, next_worker);
        let right = build(lo + mid, len - mid, stolen || injected_join, sp, threads, false, leaves, thief, workers, next_worker);
        Tree::Node(Box::new(left), Box::new(right), stolen)
    } else {
        leaves.push((lo, lo + len));
        workers.push(worker);
        Tree::Leaf(leaves.len() - 1)
    }
}

fn order_of(t: &Tree) -> Vec<usize> {
    match t {
        Tree::Leaf(i) => vec![*i],
        Tree::Node(a, b, stolen) => {
            let oa = order_of(a);
            let ob = order_of(b);
            if !*stolen {
                let mut o = oa;
                o.extend(ob);
                o
            } else {
                // the stolen half runs on another worker: any interleaving of the two streams
                let (mut i, mut j) = (0, 0);
                let mut o = Vec::with_capacity(oa.len() + ob.len());
                while i < oa.len() && j < ob.len() {
                    if choose(2, "interleave") == 0 {
                        o.push(oa[i]);
                        i += 1;
                    } else {
                        o.push(ob[j]);
                        j += 1;
                    }
                }
                o.extend_from_slice(&oa[i..]);
                o.extend_from_slice(&ob[j..]);
                o
            }
        }
    }
}

/// Plan one parallel region over `n` base items.
pub fn plan(n: usize, min_len: usize, max_len: usize) -> Plan {
    let threads = current_num_threads();
    let (region, top) = enter_region();
    // entered from a thread outside the pool: the whole region is an injected job, both halves of the
    // top-level join see `migrated = true`
    let injected = top && !in_pool() && choose(2, "injected") == 1;
    let mut leaves = Vec::new();
    let sp = Splitter::new(min_len, max_len, n, threads);
    let mut workers = Vec::new();
    let mut next_worker = 0usize;
    let tree = build(0, n, false, sp, threads, injected, &mut leaves, 0, &mut workers, &mut next_worker);
    let order = order_of(&tree);
    ST.with(|s| {
        let mut s = s.borrow_mut();
        s.log.push((region, n, leaves.len()));
        // a nested region starts on the worker that runs the enclosing leaf
        let inherited = match s.workers.last() {
            Some((map, cur)) => map.get(*cur).copied().flatten(),
            None => None,
        };
        let mut map = vec![None; next_worker + 1];
        map[0] = inherited;
        s.workers.push((map, 0));
    });
    Plan { leaves, tree, order, workers }
}

pub fn end_region() {
    ST.with(|s| {
        s.borrow_mut().workers.pop();
    });
    leave_region();
}

/// the leaf with this symbolic worker is about to run
pub fn set_running_worker(symbolic: usize) {
    ST.with(|s| {
        if let Some(w) = s.borrow_mut().workers.last_mut() {
            w.1 = symbolic;
        }
    });
}

/// Index of the pool thread running the current leaf (None outside any pool / region). Which concrete
/// thread a symbolic worker is gets decided lazily, the first time somebody asks: any assignment of distinct
/// threads to distinct workers is possible, so it is a choice.
pub fn current_thread_index() -> Option<usize> {
    let (active, threads, have) = ST.with(|s| {
        let s = s.borrow();
        (s.active, s.threads.max(1), s.workers.last().map(|(m, c)| (m[*c], *c, m.iter().flatten().copied().collect::<Vec<_>>())))
    });
    if !active {
        return None;
    }
    match have {
        None => {
            if in_pool() {
                Some(0)
            } else {
                None
            }
        }
        Some((Some(t), _, _)) => Some(t),
        Some((None, cur, used)) => {
            let free: Vec<usize> = (0..threads).filter(|t| !used.contains(t)).collect();
            let t = if free.is_empty() { cur % threads } else { free[choose(free.len(), "thread-id")] };
            ST.with(|s| {
                if let Some(w) = s.borrow_mut().workers.last_mut() {
                    w.0[cur] = Some(t);
                }
            });
            Some(t)
        }
    }
}

// ---------------------------------------------------------------------------------------------
// join / scope / pools
// ---------------------------------------------------------------------------------------------
pub fn join<A, B, RA, RB>(oper_a: A, oper_b: B) -> (RA, RB)
where
    A: FnOnce() -> RA,
    B: FnOnce() -> RB,
{
    let threads = current_num_threads();
    let _ = enter_region();
    let swapped = threads > 1 && choose(2, "join-order") == 1;
    let r = if swapped {
        let rb = oper_b();
        let ra = oper_a();
        (ra, rb)
    } else {
        let ra = oper_a();
        let rb = oper_b();
        (ra, rb)
    };
    leave_region();
    r
}

pub struct Scope<'scope> {
    tasks: RefCell<Vec<Box<dyn FnOnce(&Scope<'scope>) + 'scope>>>,
}

impl<'scope> Scope<'scope> {
    pub fn spawn<BODY>(&self, body: BODY)
    where
        BODY: FnOnce(&Scope<'scope>) + 'scope,
    {
        self.tasks.borrow_mut().push(Box::new(body));
    }
}

pub fn scope<'scope, OP, R>(op: OP) -> R
where
    OP: FnOnce(&Scope<'scope>) -> R,
{
    let _ = enter_region();
    let sc = Scope { tasks: RefCell::new(Vec::new()) };
    let r = op(&sc);
    loop {
        let n = sc.tasks.borrow().len();
        if n == 0 {
            break;
        }
        // a pool of one pops its own deque (last spawned first); otherwise any pending task may run next
        let k = if current_num_threads() > 1 { n - 1 - choose(n, "scope-task") } else { n - 1 };
        let task = sc.tasks.borrow_mut().remove(k);
        task(&sc);
    }
    leave_region();
    r
}

#[derive(Debug)]
pub struct ThreadPoolBuildError;
impl std::fmt::Display for ThreadPoolBuildError {
    fn fmt(&self, f: &mut std::fmt::Formatter) -> std::fmt::Result {
        write!(f, "thread pool build error (model)")
    }
}
impl std::error::Error for ThreadPoolBuildError {}

#[derive(Default)]
pub struct ThreadPoolBuilder {
    threads: usize,
}
impl ThreadPoolBuilder {
    pub fn new() -> Self {
        ThreadPoolBuilder { threads: 0 }
    }
    pub fn num_threads(mut self, n: usize) -> Self {
        self.threads = n;
        self
    }
    pub fn build(self) -> Result<ThreadPool, ThreadPoolBuildError> {
        Ok(ThreadPool { threads: self.threads })
    }
    pub fn build_global(self) -> Result<(), ThreadPoolBuildError> {
        if self.threads > 0 {
            ST.with(|s| s.borrow_mut().threads = self.threads);
        }
        Ok(())
    }
}

pub struct ThreadPool {
    threads: usize,
}
impl ThreadPool {
    pub fn install<OP, R>(&self, op: OP) -> R
    where
        OP: FnOnce() -> R,
    {
        let old = ST.with(|s| {
            let mut s = s.borrow_mut();
            let old = s.threads;
            if self.threads > 0 {
                s.threads = self.threads;
            }
            s.in_pool += 1;
            old
        });
        let r = op();
        ST.with(|s| {
            let mut s = s.borrow_mut();
            s.threads = old;
            s.in_pool -= 1;
        });
        r
    }
    pub fn current_num_threads(&self) -> usize {
        if self.threads > 0 {
            self.threads
        } else {
            current_num_threads()
        }
    }
}

// ---------------------------------------------------------------------------------------------
// exploration (stateless DFS by re-execution)
// ---------------------------------------------------------------------------------------------
pub struct RunTrace {
    pub choices: Vec<Choice>,
    pub regions: usize,
    /// (region, items, leaves) per planned region, nested ones included
    pub log: Vec<(usize, usize, usize)>,
}

/// Execute `body` once under the model with `threads` workers, replaying `prefix` at the free choice
/// points (free = regions listed in `free`, or every region when `free` is None) and taking the
/// canonical alternative everywhere else.
pub fn run_once<R>(threads: usize, free: Option<&[usize]>, prefix: &[usize], expect_n: &[usize], body: impl FnOnce() -> R) -> Result<(R, RunTrace), String> {
    ST.with(|s| {
        let mut s = s.borrow_mut();
        *s = State::default();
        s.active = true;
        s.threads = threads;
        s.prefix = prefix.to_vec();
        s.expect_n = expect_n.to_vec();
        match free {
            Some(f) => s.free = f.to_vec(),
            None => s.all_free = true,
        }
    });
    let r = body();
    let (trace, regions, log, div) = ST.with(|s| {
        let mut s = s.borrow_mut();
        s.active = false;
        (std::mem::take(&mut s.trace), s.next_region, std::mem::take(&mut s.log), s.divergence.take())
    });
    if let Some(d) = div {
        return Err(format!("uncontrolled nondeterminism: {}", d));
    }
    if trace.len() < prefix.len() {
        return Err(format!("uncontrolled nondeterminism: replayed prefix has {} choices but the execution met only {}", prefix.len(), trace.len()));
    }
    Ok((r, RunTrace { choices: trace, regions, log }))
}

pub struct ExploreStats {
    pub schedules: u64,
    pub choice_points: u64,
    pub capped: bool,
}

/// All schedules whose non-canonical choices lie in the `free` regions (every region if None).
/// `visit` gets every execution's result and trace; returning false stops the search.
pub fn explore<R>(
    threads: usize,
    free: Option<&[usize]>,
    max_schedules: u64,
    picks_cap: Option<usize>,
    mut body: impl FnMut() -> R,
    mut visit: impl FnMut(R, &RunTrace) -> bool,
) -> Result<ExploreStats, String> {
    let mut prefix: Vec<usize> = Vec::new();
    let mut expect_n: Vec<usize> = Vec::new();
    let mut stats = ExploreStats { schedules: 0, choice_points: 0, capped: false };
    loop {
        let (r, trace) = run_once(threads, free, &prefix, &expect_n, &mut body)?;
        stats.schedules += 1;
        stats.choice_points += trace.choices.len() as u64;
        if !visit(r, &trace) {
            break;
        }
        if stats.schedules >= max_schedules {
            stats.capped = true;
            break;
        }
        // backtrack: last choice point with an untried alternative
        let picks: Vec<(usize, usize)> = trace.choices.iter().map(|c| (c.pick, c.n)).collect();
        let mut i = picks.len();
        let mut next = None;
        while i > 0 {
            i -= 1;
            if picks[i].0 + 1 < picks[i].1 {
                if let Some(cap) = picks_cap {
                    // non-canonical picks already made in this region before position i
                    let region = trace.choices[i].region;
                    let used = trace.choices[..i].iter().filter(|c| c.region == region && c.pick != 0).count();
                    if used >= cap && picks[i].0 == 0 {
                        continue;
                    }
                }
                next = Some(i);
                break;
            }
        }
        match next {
            None => break,
            Some(i) => {
                prefix = picks[..i].iter().map(|p| p.0).collect();
                prefix.push(picks[i].0 + 1);
                expect_n = picks[..=i].iter().map(|p| p.1).collect();
            }
        }
    }
    Ok(stats)
}

// ---------------------------------------------------------------------------------------------
// enumeration of leaf partitions (model-fidelity probe): every steal pattern, no interleavings
// ---------------------------------------------------------------------------------------------
fn parts(len: usize, migrated: bool, mut sp: Splitter, threads: usize, injected_join: bool) -> Vec<Vec<usize>> {
    if sp.try_split(len, migrated, threads) {
        let mid = len / 2;
        let lefts = parts(mid, injected_join, sp, threads, false);
        let mut out = Vec::new();
        let steals: &[bool] = if threads > 1 { &[false, true] } else { &[false] };
        for &stolen in steals {
            let rights = parts(len - mid, stolen || injected_join, sp, threads, false);
            for l in &lefts {
                for r in &rights {
                    let mut v = l.clone();
                    v.extend(r.iter().copied());
                    out.push(v);
                }
            }
        }
        out.sort();
        out.dedup();
        out
    } else {
        vec![vec![len]]
    }
}

/// all leaf-size sequences the model can produce for `n` items on `threads` workers
pub fn partitions(n: usize, threads: usize, injected: bool) -> Vec<Vec<usize>> {
    parts(n, false, Splitter::new(1, usize::MAX, n, threads), threads, injected)
}
