//! Slice extension traits of the model.
use crate::iter::{IndexedParallelIterator, IntoParallelIterator, ParallelIterator, Sink, SliceIter, SliceIterMut};

pub struct Chunks<'data, T> {
    slice: &'data [T],
    size: usize,
    exact: bool,
}
impl<'data, T: 'data> ParallelIterator for Chunks<'data, T> {
    type Item = &'data [T];
    fn m_len(&self) -> usize {
        if self.exact {
            self.slice.len() / self.size
        } else {
            (self.slice.len() + self.size - 1) / self.size
        }
    }
    fn m_each(&self, lo: usize, hi: usize, sink: Sink<'_, &'data [T]>) {
        let s: &'data [T] = self.slice;
        for c in lo..hi {
            sink(&s[c * self.size..((c + 1) * self.size).min(s.len())]);
        }
    }
}
impl<'data, T: 'data> IndexedParallelIterator for Chunks<'data, T> {}

pub struct Windows<'data, T> {
    slice: &'data [T],
    size: usize,
}
impl<'data, T: 'data> ParallelIterator for Windows<'data, T> {
    type Item = &'data [T];
    fn m_len(&self) -> usize {
        (self.slice.len() + 1).saturating_sub(self.size)
    }
    fn m_each(&self, lo: usize, hi: usize, sink: Sink<'_, &'data [T]>) {
        let s: &'data [T] = self.slice;
        for i in lo..hi {
            sink(&s[i..i + self.size]);
        }
    }
}
impl<'data, T: 'data> IndexedParallelIterator for Windows<'data, T> {}

pub trait ParallelSlice<T> {
    fn as_parallel_slice(&self) -> &[T];
    fn par_chunks(&self, chunk_size: usize) -> Chunks<'_, T> {
        assert!(chunk_size != 0, "chunk_size must not be zero");
        Chunks { slice: self.as_parallel_slice(), size: chunk_size, exact: false }
    }
    fn par_chunks_exact(&self, chunk_size: usize) -> Chunks<'_, T> {
        assert!(chunk_size != 0, "chunk_size must not be zero");
        Chunks { slice: self.as_parallel_slice(), size: chunk_size, exact: true }
    }
    fn par_windows(&self, window_size: usize) -> Windows<'_, T> {
        Windows { slice: self.as_parallel_slice(), size: window_size }
    }
}
impl<T> ParallelSlice<T> for [T] {
    fn as_parallel_slice(&self) -> &[T] {
        self
    }
}

pub struct ChunksMut<'data, T> {
    ptr: *mut T,
    len: usize,
    size: usize,
    exact: bool,
    _m: std::marker::PhantomData<&'data mut [T]>,
}
impl<'data, T: 'data> ParallelIterator for ChunksMut<'data, T> {
    type Item = &'data mut [T];
    fn m_len(&self) -> usize {
        if self.exact {
            self.len / self.size
        } else {
            (self.len + self.size - 1) / self.size
        }
    }
    fn m_each(&self, lo: usize, hi: usize, sink: Sink<'_, &'data mut [T]>) {
        for c in lo..hi {
            let start = c * self.size;
            let end = ((c + 1) * self.size).min(self.len);
            // disjoint chunks, each handed out once per drive
            sink(unsafe { std::slice::from_raw_parts_mut(self.ptr.add(start), end - start) });
        }
    }
}
impl<'data, T: 'data> IndexedParallelIterator for ChunksMut<'data, T> {}

pub trait ParallelSliceMut<T> {
    fn as_parallel_slice_mut(&mut self) -> &mut [T];
    fn par_chunks_mut(&mut self, chunk_size: usize) -> ChunksMut<'_, T> {
        assert!(chunk_size != 0, "chunk_size must not be zero");
        let s = self.as_parallel_slice_mut();
        ChunksMut { ptr: s.as_mut_ptr(), len: s.len(), size: chunk_size, exact: false, _m: std::marker::PhantomData }
    }
    fn par_chunks_exact_mut(&mut self, chunk_size: usize) -> ChunksMut<'_, T> {
        assert!(chunk_size != 0, "chunk_size must not be zero");
        let s = self.as_parallel_slice_mut();
        ChunksMut { ptr: s.as_mut_ptr(), len: s.len(), size: chunk_size, exact: true, _m: std::marker::PhantomData }
    }
    // sorting has a schedule-independent result; the sequential algorithms are equivalent
    fn par_sort(&mut self)
    where
        T: Ord,
    {
        self.as_parallel_slice_mut().sort()
    }
    fn par_sort_by<F>(&mut self, compare: F)
    where
        F: Fn(&T, &T) -> std::cmp::Ordering,
    {
        self.as_parallel_slice_mut().sort_by(|a, b| compare(a, b))
    }
    fn par_sort_by_key<K: Ord, F: Fn(&T) -> K>(&mut self, f: F) {
        self.as_parallel_slice_mut().sort_by_key(|a| f(a))
    }
    fn par_sort_unstable(&mut self)
    where
        T: Ord,
    {
        self.as_parallel_slice_mut().sort_unstable()
    }
    fn par_sort_unstable_by<F>(&mut self, compare: F)
    where
        F: Fn(&T, &T) -> std::cmp::Ordering,
    {
        self.as_parallel_slice_mut().sort_unstable_by(|a, b| compare(a, b))
    }
    fn par_sort_unstable_by_key<K: Ord, F: Fn(&T) -> K>(&mut self, f: F) {
        self.as_parallel_slice_mut().sort_unstable_by_key(|a| f(a))
    }
}
impl<T> ParallelSliceMut<T> for [T] {
    fn as_parallel_slice_mut(&mut self) -> &mut [T] {
        self
    }
}

#[allow(dead_code)]
fn _uses<'a, T>(_: SliceIter<'a, T>, _: SliceIterMut<'a, T>)
where
    &'a [T]: IntoParallelIterator,
{
}
