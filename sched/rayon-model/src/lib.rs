//! A *model* of rayon 1.10's data-parallel API, executed on one OS thread under a controlled
//! scheduler. Every decision the real work-stealing pool takes that can influence an observable
//! result is a `choose()` call answered by the explorer:
//!
//! * whether a parallel region is entered from outside the pool (`injected`, which marks the
//!   top-level halves as migrated),
//! * for every split of `bridge_producer_consumer` whether the right half is stolen (a stolen half
//!   is `migrated`: it resets the split budget as in `Splitter::try_split`, and it may run
//!   interleaved with the left half),
//! * the interleaving of the leaves of a stolen half with those of its sibling,
//! * the order of `join` arms and of `scope` tasks.
//!
//! Leaves (the sequential `fold_with` of a producer piece) are atomic. Results are assembled the
//! way the real consumers do: per-leaf folds from the identity, combined along the split tree.
pub mod iter;
pub mod model;
pub mod slice;

pub mod prelude {
    pub use crate::iter::{
        FromParallelIterator, IndexedParallelIterator, IntoParallelIterator, IntoParallelRefIterator,
        IntoParallelRefMutIterator, ParallelBridge, ParallelExtend, ParallelIterator,
    };
    pub use crate::slice::{ParallelSlice, ParallelSliceMut};
}

pub use model::{current_num_threads, current_thread_index, join, scope, Scope, ThreadPool, ThreadPoolBuildError, ThreadPoolBuilder};

/// upper bound rayon documents for the pool size
pub fn max_num_threads() -> usize {
    1 << 16
}
