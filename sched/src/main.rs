//! nv-sched — C05: results are independent of thread count and scheduling.
//! The unchanged `neurons` crate is compiled against the scheduler MODEL of rayon (crate patched in
//! through [patch.crates-io]) and every schedule of the bounded space is executed:
//!   thread counts x split trees (steal patterns) x leaf interleavings, bounded by the number of
//!   parallel regions per run that deviate from the canonical schedule.
//! usage: nv-sched <quick|thorough> [conformance.json]   |   nv-sched --replay <file>
#![allow(dead_code)]
#[path = "../../harness/src/json.rs"]
mod json;
#[path = "../../harness/src/report.rs"]
mod report;
#[macro_use]
#[path = "../../harness/src/util.rs"]
mod util;
#[path = "../../shared/c05_driver.rs"]
mod driver;

use json::Json;
use report::{Ctx, Meta, Report, Tier};
use std::collections::BTreeSet;
use util::Kv;

fn threads_for(tier: Tier) -> Vec<usize> {
    if tier.thorough() {
        vec![1, 2, 3, 4, 8, 16, 64]
    } else {
        vec![1, 2, 3, 4, 8]
    }
}

fn canonical(seg: &str, threads: usize) -> Result<(Vec<u32>, usize, Vec<(usize, usize, usize)>), String> {
    let (bits, trace) = rayon::model::run_once(threads, Some(&[]), &[], &[], || driver::run_segment(seg))?;
    Ok((bits, trace.regions, trace.log))
}

fn first_diff(a: &[u32], b: &[u32]) -> String {
    if a.len() != b.len() {
        return format!("result has {} words, canonical {}", a.len(), b.len());
    }
    match (0..a.len()).find(|&i| a[i] != b[i]) {
        Some(i) => format!("word {} of {}: {:#010x} ({:e}) vs canonical {:#010x} ({:e})", i, a.len(), a[i], f32::from_bits(a[i]), b[i], f32::from_bits(b[i])),
        None => "equal".into(),
    }
}

struct Unit {
    seg: &'static str,
    threads: usize,
    free: Vec<usize>,
    cap: Option<usize>,
}

fn explore_unit(u: &Unit, want: &[u32], max: u64) -> Report {
    let mut rep = Report::new();
    let mut distinct: BTreeSet<u64> = BTreeSet::new();
    let res = rayon::model::explore(
        u.threads,
        Some(&u.free),
        max,
        u.cap,
        || util::guard(|| driver::run_segment(u.seg)),
        |r, trace| {
            rep.states += 1;
            rep.transitions += trace.log.len() as u64;
            rep.evaluations += 1;
            let picks: Vec<usize> = trace.choices.iter().map(|c| c.pick).collect();
            if picks.iter().any(|p| *p != 0) {
                rep.nontrivial += 1;
            }
            let case = || {
                Kv::new()
                    .put("segment", u.seg)
                    .put("threads", u.threads)
                    .put("free", u.free.iter().map(|x| x.to_string()).collect::<Vec<_>>().join(","))
                    .put("picks", picks.iter().map(|x| x.to_string()).collect::<Vec<_>>().join(","))
                    .put("kinds", trace.choices.iter().map(|c| c.kind).collect::<Vec<_>>().join(","))
            };
            match r {
                Ok(bits) => {
                    distinct.insert(driver::digest(&bits));
                    if bits != want {
                        // replay the same schedule once more: a verdict is only trusted if it is reproducible
                        match rayon::model::run_once(u.threads, Some(&u.free), &picks, &[], || driver::run_segment(u.seg)) {
                            Ok((again, _)) if again == bits => (),
                            _ => {
                                // the same schedule gave two different results: the run depends on something that is
                                // neither its inputs nor the schedule - that is the "repeated runs" clause itself
                                rep.violate(
                                    "C05 repeated runs from the same weights and data differ",
                                    format!("segment {} with {} workers: replaying schedule {:?} gave different bits ({})", u.seg, u.threads, picks, first_diff(&bits, want)),
                                    &case(),
                                );
                                return false;
                            }
                        }
                        let what = if u.seg.starts_with("learn") {
                            "training result (losses / validation metrics / final weights)"
                        } else if u.seg == "validate" {
                            "validate() result"
                        } else {
                            "predict_batch() output"
                        };
                        rep.violate(
                            format!("C05 {} depends on the schedule", what),
                            format!("segment {} with {} threads, schedule {:?}: {}", u.seg, u.threads, picks, first_diff(&bits, want)),
                            &case(),
                        );
                    }
                }
                Err(e) => rep.violate("C05 panic under a non-canonical schedule", format!("segment {} threads {}: {}", u.seg, u.threads, util::first_line(&e)), &case()),
            }
            true
        },
    );
    match res {
        Ok(st) => {
            if st.capped {
                rep.caps.push(format!("schedule cap {} hit in {} T={} regions {:?}", max, u.seg, u.threads, u.free));
            }
            rep.count("choice_points", st.choice_points);
        }
        Err(e) => {
            eprintln!("machinery error: {}", e);
            std::process::exit(3);
        }
    }
    rep.count("distinct_results", distinct.len() as u64);
    rep
}

fn scan_repo() -> (u64, Vec<String>) {
    let mut hits = Vec::new();
    let mut files = 0;
    if let Ok(rd) = std::fs::read_dir("/repo/src") {
        for e in rd.flatten() {
            let p = e.path();
            if p.extension().map(|x| x == "rs").unwrap_or(false) {
                files += 1;
                if let Ok(text) = std::fs::read_to_string(&p) {
                    for (i, line) in text.lines().enumerate() {
                        let t = line.trim_start();
                        if t.starts_with("//") {
                            continue;
                        }
                        for tok in ["Mutex", "RwLock", "Atomic", "RefCell", "Cell<", "static mut", "unsafe ", "thread_local", "UnsafeCell", "OnceLock", "lazy_static"] {
                            if line.contains(tok) {
                                hits.push(format!("{}:{}: {}", p.file_name().unwrap().to_string_lossy(), i + 1, tok));
                            }
                        }
                    }
                }
            }
        }
    }
    (files, hits)
}

/// iterations over a std HashMap / HashSet in the library outside its unit tests: their order differs between instances
/// (RandomState), so each one is a potential source of run-to-run differences. For every site the scan records whether
/// the next 14 lines sort what was collected (`sort`), which is how the library makes the order irrelevant.
fn scan_hash_iteration() -> Vec<String> {
    let mut out = Vec::new();
    if let Ok(rd) = std::fs::read_dir("/repo/src") {
        let mut paths: Vec<_> = rd.flatten().map(|e| e.path()).filter(|p| p.extension().map(|x| x == "rs").unwrap_or(false)).collect();
        paths.sort();
        for p in paths {
            let Ok(text) = std::fs::read_to_string(&p) else { continue };
            let lines: Vec<&str> = text.lines().collect();
            // names declared as HashMap / HashSet in this file
            let mut names: Vec<String> = Vec::new();
            for l in &lines {
                if let Some(pos) = l.find(": HashMap<").or_else(|| l.find(": HashSet<")) {
                    let head = l[..pos].trim_end();
                    let name: String = head.chars().rev().take_while(|c| c.is_alphanumeric() || *c == '_').collect::<String>().chars().rev().collect();
                    if !name.is_empty() && !names.contains(&name) {
                        names.push(name);
                    }
                }
            }
            let test_start = lines.iter().position(|l| l.trim() == "#[cfg(test)]").unwrap_or(lines.len());
            for (i, l) in lines.iter().enumerate().take(test_start) {
                if l.trim_start().starts_with("//") {
                    continue;
                }
                for n in &names {
                    let pats = [format!("{}.iter()", n), format!("{}.keys()", n), format!("{}.values()", n), format!("{}.values_mut()", n), format!("in &{}", n), format!("in {} ", n), format!("{}.into_iter()", n)];
                    if pats.iter().any(|pt| l.contains(pt.as_str())) {
                        let sorted = lines[i..(i + 15).min(lines.len())].iter().any(|x| x.contains("sort"));
                        out.push(format!("{}:{}: iterates `{}`{}", p.file_name().unwrap().to_string_lossy(), i + 1, n, if sorted { " (sorted afterwards)" } else { " (NOT sorted)" }));
                    }
                }
            }
        }
    }
    out
}

fn main() {
    let args: Vec<String> = std::env::args().collect();
    let root = std::env::var("VERIF_ROOT").unwrap_or_else(|_| "/verif".to_string());
    let seed: u64 = std::env::var("VERIF_SEED").ok().and_then(|s| s.parse::<i64>().ok()).map(|x| x as u64).unwrap_or(0);
    if args.len() < 2 {
        eprintln!("usage: nv-sched <quick|thorough> [conformance.json] | nv-sched --replay <file>");
        std::process::exit(2);
    }
    util::silence_panics();
    util::divert_stdout();

    if args[1] == "--replay" {
        let text = std::fs::read_to_string(&args[2]).unwrap_or_else(|e| {
            eprintln!("machinery error: {}", e);
            std::process::exit(2)
        });
        let j = Json::parse(&text).expect("replay json");
        let case = Kv::from_json(j.get("case").unwrap());
        let seg = driver::SEGMENTS.iter().find(|s| **s == case.get("segment")).copied().unwrap_or("canary");
        let threads = case.usize("threads");
        let free: Vec<usize> = case.list("free").iter().map(|s| s.parse().unwrap()).collect();
        let picks: Vec<usize> = case.list("picks").iter().map(|s| s.parse().unwrap()).collect();
        say!("replaying C05 schedule: segment {} threads {} free regions {:?} picks {:?}", seg, threads, free, picks);
        let want = canonical(seg, 1).expect("canonical").0;
        // a recorded hash salt: the canonical result above is that of salt 0, the replay runs under the recorded one
        if let Some(salt) = case.opt("salt").and_then(|x| x.parse::<u64>().ok()) {
            say!("replaying under hash salt {}", salt);
            neurons::verif::set_hash_salt(salt);
        }
        let a = rayon::model::run_once(threads, Some(&free), &picks, &[], || driver::run_segment(seg)).expect("replay");
        let b = rayon::model::run_once(threads, Some(&free), &picks, &[], || driver::run_segment(seg)).expect("replay");
        if a.0 != b.0 {
            say!("machinery error: the same schedule gave two different results");
            std::process::exit(3);
        }
        if a.0 == want {
            say!("replay: the schedule gives the canonical result on the current tree");
            std::process::exit(0);
        }
        say!("replay: VIOLATION property=C05 {}-dependent result: {}", if case.opt("salt").is_some() { "hash-order" } else { "schedule" }, first_diff(&a.0, &want));
        std::process::exit(1);
    }

    let tier = if args[1] == "thorough" { Tier::Thorough } else { Tier::Quick };
    let ctx = Ctx { prop: "C05".into(), tier, seed, root: root.clone(), verbose: false };
    let t0 = std::time::Instant::now();
    let mut rep = Report::new();
    let ts = threads_for(tier);

    // 1. canonical runs: determinism, and equality across thread counts
    let mut want: Vec<(&'static str, Vec<u32>)> = Vec::new();
    let mut regions: Vec<(&'static str, usize, usize)> = Vec::new(); // (segment, threads, #regions)
    let mut unstable: Vec<&'static str> = Vec::new();
    for seg in driver::SEGMENTS {
        let (b1, _, _) = canonical(seg, 1).unwrap_or_else(|e| {
            eprintln!("machinery error: {}", e);
            std::process::exit(3)
        });
        // repetitions from freshly built networks (same weights, same data). What can differ between two instances in one
        // process is per-instance state the library did not derive from its inputs - the iteration order of its hash maps.
        // The maps of feedback blocks are under the harness's control (hook: verif::set_hash_salt): every salt below is one
        // assignment of iteration orders; the remaining maps (Network::connect / loopbacks, std RandomState) are covered by
        // plain repetition and by the static scan, which shows that what is collected from them is sorted.
        let salts: u64 = if tier.thorough() { 1024 } else { 96 };
        let mut stable = true;
        for salt in 1..=salts {
            neurons::verif::set_hash_salt(salt);
            let (b2, _, _) = canonical(seg, 1).unwrap();
            rep.states += 1;
            if b1 != b2 {
                rep.violate(
                    "C05 repeated runs from the same weights and data differ",
                    format!("segment {} with hash salt {} (iteration order of a 5-key map {:?}) against salt 0: {}", seg, salt, neurons::verif::hash_order_probe(&[0, 1, 2, 3, 4]), first_diff(&b2, &b1)),
                    &Kv::new().put("segment", seg).put("threads", 1).put("free", "").put("picks", "").put("kinds", "").put("salt", salt),
                );
                stable = false;
                break;
            }
        }
        neurons::verif::set_hash_salt(0);
        if !stable {
            // nothing else can be attributed on a segment that does not even reproduce itself
            unstable.push(seg);
            continue;
        }
        for &t in &ts {
            let (bt, r, log) = canonical(seg, t).unwrap();
            rep.states += 1;
            rep.transitions += log.len() as u64;
            regions.push((seg, t, r));
            if bt != b1 {
                rep.violate(
                    "C05 result depends on the number of worker threads",
                    format!("segment {}: {} threads vs 1 thread: {}", seg, t, first_diff(&bt, &b1)),
                    &Kv::new().put("segment", seg).put("threads", t).put("free", "").put("picks", "").put("kinds", ""),
                );
            }
        }
        want.push((seg, b1));
    }

    // 2. schedule exploration, deviation bound on regions
    let mut units: Vec<Unit> = Vec::new();
    for &(seg, t, r) in &regions {
        let large = seg.ends_with("b17") || seg.ends_with("b32") || seg.ends_with("-large") || seg.ends_with("-wide");
        for a in 0..r {
            // regions of 17 / 32 items have astronomically many schedules: at most 1 (thorough 2) non-canonical choices
            units.push(Unit { seg, threads: t, free: vec![a], cap: if large { Some(if tier.thorough() { 2 } else { 1 }) } else { None } });
        }
        if tier.thorough() && !large {
            for a in 0..r {
                for b in a + 1..r {
                    units.push(Unit { seg, threads: t, free: vec![a, b], cap: Some(2) });
                }
            }
        }
    }
    let max_per_unit: u64 = if tier.thorough() { 200_000 } else { 20_000 };
    let parts = util::par_map(&units, |_, u| {
        let w = &want.iter().find(|(s, _)| *s == u.seg).unwrap().1;
        explore_unit(u, w, max_per_unit)
    });
    rep.merge_all(parts);
    rep.count("work_units", units.len() as u64);

    // 3. canary: the model really re-associates
    let mut canary: BTreeSet<u32> = BTreeSet::new();
    for t in [1usize, 2, 4] {
        let _ = rayon::model::explore(t, None, 5000, None, || driver::seg_canary()[0], |r, _| {
            canary.insert(r);
            true
        });
    }
    rep.count("canary_distinct_sums", canary.len() as u64);
    if canary.len() < 2 {
        eprintln!("machinery error: the canary reduction did not change under any explored schedule (vacuous exploration)");
        std::process::exit(3);
    }

    // 4. conformance with the real rayon (file written by `nv C05conf`)
    let mut conf_runs = 0u64;
    let mut conf_note = "conformance file missing: model-only verdict".to_string();
    if let Some(path) = args.get(2) {
        if let Ok(text) = std::fs::read_to_string(path) {
            let j = Json::parse(&text).expect("conformance json");
            conf_note = format!("real-rayon conformance from {}", path);
            if let Some(runs) = j.get("runs").and_then(|x| x.as_arr()) {
                for r in runs {
                    let seg = r.get("segment").and_then(|x| x.as_str()).unwrap_or("");
                    let t = r.get("threads").and_then(|x| x.as_i64()).unwrap_or(0);
                    let ctxs = r.get("context").and_then(|x| x.as_str()).unwrap_or("");
                    let dg = r.get("digest").and_then(|x| x.as_str()).unwrap_or("");
                    conf_runs += r.get("repetitions").and_then(|x| x.as_i64()).unwrap_or(1) as u64;
                    if unstable.iter().any(|u| *u == seg) {
                        continue;
                    }
                    if let Some((_, w)) = want.iter().find(|(s, _)| *s == seg) {
                        let wd = format!("{:016x}", driver::digest(w));
                        if dg != wd {
                            rep.violate(
                                "C05 real rayon pool gives a result different from the canonical one",
                                format!("segment {} on a real pool of {} threads ({}): digest {} vs canonical {}", seg, t, ctxs, dg, wd),
                                &Kv::new().put("segment", seg).put("threads", t).put("free", "").put("picks", "").put("kinds", "real-rayon"),
                            );
                        }
                    }
                }
            }
            // model fidelity: every partition observed under real rayon is one the model generates
            if let Some(ps) = j.get("partitions").and_then(|x| x.as_arr()) {
                let mut checked = 0u64;
                for p in ps {
                    let n = p.get("n").and_then(|x| x.as_i64()).unwrap_or(0) as usize;
                    let t = p.get("threads").and_then(|x| x.as_i64()).unwrap_or(1) as usize;
                    let injected = p.get("context").and_then(|x| x.as_str()) == Some("external");
                    let model: BTreeSet<Vec<usize>> = rayon::model::partitions(n, t, injected).into_iter().collect();
                    for obs in p.get("observed").and_then(|x| x.as_arr()).unwrap_or(&Vec::new()) {
                        let sizes: Vec<usize> = obs.as_arr().unwrap().iter().map(|x| x.as_i64().unwrap() as usize).collect();
                        checked += 1;
                        if !model.contains(&sizes) {
                            eprintln!(
                                "machinery error: real rayon produced leaf partition {:?} for n={} T={} ({}) which the scheduler model does not generate",
                                sizes,
                                n,
                                t,
                                if injected { "external" } else { "in-pool" }
                            );
                            std::process::exit(3);
                        }
                    }
                }
                rep.count("real_partitions_in_model", checked);
            }
        }
    }
    rep.traces_validated = conf_runs;

    // 5. interior mutability scan (leaf granularity is complete only without shared mutable state)
    let (files, hits) = scan_repo();
    // shared mutable state in the library itself (outside the hook module) makes leaf granularity unsound: say so
    let foreign: Vec<&String> = hits.iter().filter(|h| !h.starts_with("verif.rs:")).collect();
    if !foreign.is_empty() {
        rep.caps.push(format!(
            "interior mutability in the library ({}): leaves are no longer atomic with respect to it, so the exploration at leaf granularity is NOT exhaustive for races on that state; only the real-rayon runs exercise it",
            foreign.iter().map(|h| h.as_str()).collect::<Vec<_>>().join("; ")
        ));
        say!("note: C05 found shared mutable state in /repo/src outside the hook module ({} site(s)); the schedule exploration is not exhaustive for it (see evidence)", foreign.len());
    }
    let leaf_sound = foreign.is_empty();
    rep.notes.insert("interior_mutability_scan".into(), Json::obj().with("files", Json::i(files as i64)).with("hits", Json::Arr(hits.iter().map(|h| Json::s(h.clone())).collect())));
    {
        let salts: u64 = if tier.thorough() { 1024 } else { 96 };
        let mut orders4: BTreeSet<Vec<usize>> = BTreeSet::new();
        let mut orders5: BTreeSet<Vec<usize>> = BTreeSet::new();
        for salt in 0..=salts {
            neurons::verif::set_hash_salt(salt);
            orders4.insert(neurons::verif::hash_order_probe(&[1, 2, 3, 4]));
            orders5.insert(neurons::verif::hash_order_probe(&[1, 2, 3, 4, 5]));
        }
        neurons::verif::set_hash_salt(0);
        rep.notes.insert(
            "hash_salts".into(),
            Json::obj().with("salts", Json::i(salts as i64 + 1)).with("distinct_orders_of_a_4_key_map", Json::i(orders4.len() as i64)).with("of", Json::i(24)).with("distinct_orders_of_a_5_key_map", Json::i(orders5.len() as i64)).with("of_", Json::i(120)),
        );
    }
    rep.notes.insert("hash_iteration_scan".into(), Json::Arr(scan_hash_iteration().iter().map(|h| Json::s(h.clone())).collect()));
    rep.notes.insert("conformance".into(), Json::s(conf_note));
    rep.notes.insert("threads".into(), Json::Arr(ts.iter().map(|t| Json::i(*t as i64)).collect()));
    rep.notes.insert(
        "regions_per_segment".into(),
        Json::Arr(regions.iter().filter(|(_, t, _)| *t == ts[0]).map(|(s, _, r)| Json::s(format!("{}: {}", s, r))).collect()),
    );
    rep.sample(Kv::new().put("segment", "learn-adam-b5").put("threads", 4).put("free", "1").put("picks", "0,1,0,1,1").to_json());
    rep.sample(Kv::new().put("segment", "predict_batch").put("threads", 2).put("free", "5").put("picks", "1,1,0").to_json());

    let meta = Meta {
        rule: format!(
            "driver: conv+maxpool+deconv+feedback block+dense(dropout)+dense network; learn() on 5 samples with batch 2/3/5, 2 epochs, Adam and SGDM, 65 validation samples; batch 17 (25 samples) and batch 32 (40 samples) with at most 1 (thorough 2) non-canonical choices per region; validate() on 65 and 130 samples, and on 321 and 641 samples (6 and 11 chunks) with the choice cap; predict_batch() on 0,1,64,65,129,130 inputs; a 96->70->3 dense network (rows of 96 and 70 weights) through learn() with batch 2 and predict_batch(); a feedback block of two dense layers with input skips and 5 repetitions through learn() with batch 3; a dense network with three additive skip connections sharing their source through learn() with batch 2; a conv(2) -> conv(6) -> dense network through learn() with batch 2. Every segment is also run under 96 (thorough 1024) hash salts - assignments of iteration orders to the maps of feedback blocks, through the hook - from freshly built networks (same weights and data) and must reproduce its bits (for the std maps of `Network`, whose hash seeds cannot be steered, these 96 / 1024 fresh instances are a sample). Thread counts {:?}; in every parallel region the choices are: entered from outside the pool or not, every steal pattern of rayon's adaptive splitter (stolen halves are `migrated`), every interleaving of a stolen half's leaves with its sibling's; schedules with <= {} deviating regions per run{}. A state is one complete schedule (executed on the real library code); transitions = parallel regions executed; non-trivial = schedules with at least one non-canonical choice",
            ts,
            if tier.thorough() { 2 } else { 1 },
            if tier.thorough() { " (pairs of regions: <= 2 non-canonical choices per region)" } else { "" }
        ),
        bound: format!("deviating regions <= {}; within one deviating region the enumeration is complete (cap {} schedules per unit)", if tier.thorough() { 2 } else { 1 }, max_per_unit),
        exhaustive: leaf_sound,
        assumptions: vec![
            "scheduler model of rayon 1.10 at leaf granularity (the sequential fold of a producer piece is atomic); sound for closures without interior mutability — see interior_mutability_scan".into(),
            "the inner iterators of flat_map are consumed sequentially inside a leaf".into(),
            "model bound to the implementation by (1) bit-equality of real-rayon results with the canonical result for several pool sizes and calling contexts and (2) inclusion of every leaf partition observed under real rayon in the set the model generates".into(),
        ],
    };
    let code = report::finish(&ctx, &meta, &rep, t0.elapsed().as_secs_f64());
    std::process::exit(code);
}
