//! Enumerators: deviation-bounded configurations, the spatial lattice L, layer-sequence space S(D),
//! data valuations, and the common "build + set parameters + run" helpers on the real library.
use crate::libnet;
use crate::refmodel::net::{make_params, ref_shapes, LShape};
use crate::spec::*;
use crate::util::{fnv, Rng};
use neurons::network::Network;
use neurons::tensor::Tensor;

/// All points with at most `bound` coordinates different from `defaults` (index 0 of each domain is
/// the default); every deviating coordinate takes every non-default value. Order: 0 deviations, 1, 2, ...
pub fn deviations(domains: &[usize], bound: usize) -> Vec<Vec<usize>> {
    let n = domains.len();
    let mut out = vec![vec![0usize; n]];
    // breadth by number of deviations
    for b in 1..=bound {
        let mut tmp = Vec::new();
        rec_exact(domains, 0, b, &mut vec![0usize; n], &mut tmp);
        out.extend(tmp);
    }
    out
}

fn rec_exact(domains: &[usize], start: usize, left: usize, cur: &mut Vec<usize>, out: &mut Vec<Vec<usize>>) {
    if left == 0 {
        out.push(cur.clone());
        return;
    }
    for i in start..domains.len() {
        for v in 1..domains[i] {
            cur[i] = v;
            rec_exact(domains, i + 1, left - 1, cur, out);
            cur[i] = 0;
        }
    }
}

/// full cartesian product of index domains
pub fn product(domains: &[usize]) -> Vec<Vec<usize>> {
    let mut out = vec![Vec::new()];
    for &d in domains {
        let mut next = Vec::with_capacity(out.len() * d);
        for p in &out {
            for v in 0..d {
                let mut q = p.clone();
                q.push(v);
                next.push(q);
            }
        }
        out = next;
    }
    out
}

// ---------------------------------------------------------------------------------------------
// single-layer lattice L(k,s,p,d): default first in every domain
// ---------------------------------------------------------------------------------------------
pub const K: [usize; 3] = [2, 1, 3];
pub const S2: [usize; 2] = [1, 2];
pub const S3: [usize; 3] = [1, 2, 3];
pub const PAD: [usize; 3] = [0, 1, 2];
pub const DIL: [usize; 2] = [1, 2];
pub const CH: [usize; 2] = [1, 2];
pub const FI: [usize; 3] = [1, 2, 3];
pub const HH: [usize; 6] = [4, 3, 5, 6, 1, 2];
pub const WW: [usize; 6] = [5, 3, 4, 7, 1, 2];

#[derive(Clone, Copy, PartialEq, Debug)]
pub enum Kind {
    Conv,
    Deconv,
    Pool,
}

/// domains of the single-layer lattice for a kind: [kh,kw,sh,sw,ph,pw,dh,dw,c,f,h,w]
pub fn lattice_domains(kind: Kind) -> Vec<usize> {
    match kind {
        Kind::Conv => vec![3, 3, 2, 2, 3, 3, 2, 2, 2, 3, 6, 6],
        Kind::Deconv => vec![3, 3, 2, 2, 3, 3, 1, 1, 2, 3, 6, 6],
        Kind::Pool => vec![3, 3, 3, 3, 1, 1, 1, 1, 2, 1, 6, 6],
    }
}

// "large-value" lattice: the same dimensions with a few values far beyond the small bounds (kernel 5 and 7,
// stride 3 and 4, padding 3, dilation 3, 4 and 8 channels, 8 and 16 filters, planes 12x13 and 28x32). It is only
// ever walked with the deviation-bounded enumerator (at most 1-2 dimensions away from the default), never in full.
pub const K_X: [usize; 5] = [2, 1, 3, 5, 7];
pub const S_X: [usize; 4] = [1, 2, 3, 4];
pub const PAD_X: [usize; 4] = [0, 1, 2, 3];
pub const DIL_X: [usize; 3] = [1, 2, 3];
pub const CH_X: [usize; 4] = [1, 2, 4, 8];
pub const FI_X: [usize; 5] = [1, 2, 3, 8, 16];
pub const HH_X: [usize; 8] = [4, 3, 5, 6, 1, 2, 12, 28];
pub const WW_X: [usize; 8] = [5, 3, 4, 7, 1, 2, 13, 32];

pub fn xlattice_domains(kind: Kind) -> Vec<usize> {
    match kind {
        Kind::Conv => vec![5, 5, 4, 4, 4, 4, 3, 3, 4, 5, 8, 8],
        Kind::Deconv => vec![5, 5, 4, 4, 4, 4, 1, 1, 4, 5, 8, 8],
        Kind::Pool => vec![5, 5, 4, 4, 1, 1, 1, 1, 4, 1, 8, 8],
    }
}

/// true if the point uses at least one value that the small lattice does not have
pub fn xlattice_is_new(kind: Kind, ix: &[usize]) -> bool {
    let small = lattice_domains(kind);
    ix.iter().zip(&small).any(|(i, s)| i >= s)
}

pub fn xlattice_point(kind: Kind, ix: &[usize], act: Act) -> Option<(Dims, L)> {
    let k = (K_X[ix[0]], K_X[ix[1]]);
    let p = (PAD_X[ix[4]], PAD_X[ix[5]]);
    let d = (DIL_X[ix[6]], DIL_X[ix[7]]);
    let (c, f, h, w) = (CH_X[ix[8]], FI_X[ix[9]], HH_X[ix[10]], WW_X[ix[11]]);
    let l = match kind {
        Kind::Conv => L::Conv { f, k, s: (S_X[ix[2]], S_X[ix[3]]), p, d, act, drop: None },
        Kind::Deconv => L::Deconv { f, k, s: (S_X[ix[2]], S_X[ix[3]]), p, act, drop: None },
        Kind::Pool => L::Pool { k, s: (S_X[ix[2]], S_X[ix[3]]) },
    };
    let net = Net::new(Dims::Chw(c, h, w), vec![l.clone()]);
    ref_shapes(&net).ok()?;
    Some((Dims::Chw(c, h, w), l))
}

/// "heavy" layers: 3 channels, 8 filters, a 24x30 plane (64k multiply-adds for the default 2x2 kernel - beyond any
/// size threshold a blocked / parallel fast path would plausibly use), walked with the deviation-bounded enumerator
/// over the 8 geometry dimensions [kh,kw,sh,sw,ph,pw,dh,dw] of the large-value lattice
pub fn heavy_domains(kind: Kind) -> Vec<usize> {
    xlattice_domains(kind)[..8].to_vec()
}
pub fn heavy_point(kind: Kind, ix: &[usize], act: Act) -> Option<(Dims, L)> {
    let k = (K_X[ix[0]], K_X[ix[1]]);
    let p = (PAD_X[ix[4]], PAD_X[ix[5]]);
    let d = (DIL_X[ix[6]], DIL_X[ix[7]]);
    let (c, f, h, w) = (3, 8, 24, 30);
    let l = match kind {
        Kind::Conv => L::Conv { f, k, s: (S_X[ix[2]], S_X[ix[3]]), p, d, act, drop: None },
        Kind::Deconv => L::Deconv { f, k, s: (S_X[ix[2]], S_X[ix[3]]), p, act, drop: None },
        Kind::Pool => L::Pool { k, s: (S_X[ix[2]], S_X[ix[3]]) },
    };
    let net = Net::new(Dims::Chw(c, h, w), vec![l.clone()]);
    ref_shapes(&net).ok()?;
    Some((Dims::Chw(c, h, w), l))
}

/// lattice point -> (input dims, layer); None when the point is not a valid configuration
pub fn lattice_point(kind: Kind, ix: &[usize], act: Act) -> Option<(Dims, L)> {
    let k = (K[ix[0]], K[ix[1]]);
    let p = (PAD[ix[4]], PAD[ix[5]]);
    let d = (DIL[ix[6]], DIL[ix[7]]);
    let (c, f, h, w) = (CH[ix[8]], FI[ix[9]], HH[ix[10]], WW[ix[11]]);
    let l = match kind {
        Kind::Conv => L::Conv { f, k, s: (S2[ix[2]], S2[ix[3]]), p, d, act, drop: None },
        Kind::Deconv => L::Deconv { f, k, s: (S2[ix[2]], S2[ix[3]]), p, act, drop: None },
        Kind::Pool => L::Pool { k, s: (S3[ix[2]], S3[ix[3]]) },
    };
    let net = Net::new(Dims::Chw(c, h, w), vec![l.clone()]);
    ref_shapes(&net).ok()?;
    Some((Dims::Chw(c, h, w), l))
}

// ---------------------------------------------------------------------------------------------
// layer-sequence space S(D)
// ---------------------------------------------------------------------------------------------
pub const INPUTS: [Dims; 5] = [Dims::Flat(4), Dims::Flat(9), Dims::Chw(1, 3, 3), Dims::Chw(1, 4, 5), Dims::Chw(2, 4, 4)];

#[derive(Clone, Copy, PartialEq, Debug)]
pub enum Tok {
    Dense,
    Conv,
    Deconv,
    Pool,
    Fb,
}
pub const TOKS: [Tok; 5] = [Tok::Dense, Tok::Conv, Tok::Deconv, Tok::Pool, Tok::Fb];

const DENSE_N: [usize; 6] = [9, 4, 1, 2, 16, 3];
const ACTS: [Act; 5] = E5;

/// per-token configuration domains (index 0 = default)
pub fn tok_domains(t: Tok) -> Vec<usize> {
    match t {
        Tok::Dense => vec![6, 5, 2],                      // n, act, bias
        Tok::Conv => vec![3, 3, 3, 2, 2, 3, 3, 2, 2, 5],   // f,kh,kw,sh,sw,ph,pw,dh,dw,act
        Tok::Deconv => vec![3, 3, 3, 2, 2, 2, 2, 5],       // f,kh,kw,sh,sw,ph,pw,act
        Tok::Pool => vec![3, 3, 3, 3],                     // kh,kw,sh,sw
        Tok::Fb => vec![4, 3, 5, 2],                       // inner list, loops, act, bias(dense)
    }
}

/// token + configuration -> layer; the feedback block needs the shape it will see
pub fn tok_layer(t: Tok, ix: &[usize], cur: Dims) -> L {
    match t {
        Tok::Dense => L::Dense { n: DENSE_N[ix[0]], act: ACTS[ix[1]], bias: ix[2] == 0, drop: None },
        Tok::Conv => L::Conv {
            f: FI[ix[0]],
            k: (K[ix[1]], K[ix[2]]),
            s: (S2[ix[3]], S2[ix[4]]),
            p: (PAD[ix[5]], PAD[ix[6]]),
            d: (DIL[ix[7]], DIL[ix[8]]),
            act: ACTS[ix[9]],
            drop: None,
        },
        Tok::Deconv => L::Deconv {
            f: FI[ix[0]],
            k: (K[ix[1]], K[ix[2]]),
            s: (S2[ix[3]], S2[ix[4]]),
            p: ([0, 1][ix[5]], [0, 1][ix[6]]),
            act: ACTS[ix[7]],
            drop: None,
        },
        Tok::Pool => L::Pool { k: (K[ix[0]], K[ix[1]]), s: (S3[ix[2]], S3[ix[3]]) },
        Tok::Fb => {
            let act = ACTS[ix[2]];
            let loops = [2, 1, 3][ix[1]];
            let layers = match cur {
                Dims::Flat(n) if crate::refmodel::layers::isqrt_exact(n).is_none() || ix[0] < 2 => {
                    let d = |m: usize| L::Dense { n: m, act, bias: ix[3] == 0, drop: None };
                    match ix[0] % 2 {
                        0 => vec![d(n)],
                        _ => vec![d(n + 1), d(n)],
                    }
                }
                Dims::Flat(n) => {
                    // flat r*r in front of a block of spatial layers
                    let _ = n;
                    let conv = L::Conv { f: 1, k: (3, 3), s: (1, 1), p: (1, 1), d: (1, 1), act, drop: None };
                    let deconv = L::Deconv { f: 1, k: (3, 3), s: (1, 1), p: (1, 1), act, drop: None };
                    if ix[0] == 2 {
                        vec![conv]
                    } else {
                        vec![deconv]
                    }
                }
                Dims::Chw(c, _, _) => {
                    let conv = |f: usize| L::Conv { f, k: (3, 3), s: (1, 1), p: (1, 1), d: (1, 1), act, drop: None };
                    let deconv = |f: usize| L::Deconv { f, k: (3, 3), s: (1, 1), p: (1, 1), act, drop: None };
                    match ix[0] {
                        0 => vec![conv(c)],
                        1 => vec![conv(c + 1), conv(c)],
                        2 => vec![deconv(c)],
                        _ => vec![conv(c + 1), deconv(c)],
                    }
                }
            };
            L::Fb { layers, loops, inskips: false, outskips: false, acc: Acc::Mean }
        }
    }
}

/// All networks of 1..=depth tokens over `inputs` whose total number of configuration deviations is
/// <= dev_bound and which the reference accepts. `allowed` filters token kinds.
pub fn sequences(inputs: &[Dims], depth: usize, dev_bound: usize, allowed: &[Tok]) -> Vec<Net> {
    let mut out = Vec::new();
    for &input in inputs {
        for len in 1..=depth {
            // token kind sequences
            for code in 0..allowed.len().pow(len as u32) {
                let mut c = code;
                let toks: Vec<Tok> = (0..len)
                    .map(|_| {
                        let t = allowed[c % allowed.len()];
                        c /= allowed.len();
                        t
                    })
                    .collect();
                // concatenated configuration domains
                let doms: Vec<Vec<usize>> = toks.iter().map(|t| tok_domains(*t)).collect();
                let flat: Vec<usize> = doms.iter().flatten().copied().collect();
                for point in deviations(&flat, dev_bound) {
                    let mut layers = Vec::new();
                    let mut off = 0;
                    let mut cur = input;
                    let mut ok = true;
                    for (ti, t) in toks.iter().enumerate() {
                        let n = doms[ti].len();
                        let l = tok_layer(*t, &point[off..off + n], cur);
                        off += n;
                        layers.push(l);
                        // shape after this prefix
                        match ref_shapes(&Net::new(input, layers.clone())) {
                            Ok(sh) => {
                                let last = sh.last().unwrap();
                                cur = last.out;
                            }
                            Err(_) => {
                                ok = false;
                                break;
                            }
                        }
                    }
                    if ok {
                        out.push(Net::new(input, layers));
                    }
                }
            }
        }
    }
    out
}

// ---------------------------------------------------------------------------------------------
// data valuations
// ---------------------------------------------------------------------------------------------
#[derive(Clone, Copy, PartialEq, Debug)]
pub enum Valuation {
    /// pairwise distinct small integers (inputs 1.., parameters from a second set); exact in f32
    Ints,
    /// dyadic values (multiples of 1/4 in [-1,1] for parameters, of 1/2 in [-2,2] for inputs), seeded
    Dyadic,
    /// generic floats in +-[0.25,1.5], seeded (for gradient checks)
    Generic,
    /// the dyadic valuation with inputs scaled by 2^-20 (parameters unchanged)
    Tiny,
    /// inputs and parameters from {-1, 0, 1}: ties, duplicates, exact zeros everywhere
    Dup,
    /// subnormal single-precision data: inputs and biases are small integer multiples of 2^-140, weights multiples of
    /// 1/4 - every product and sum is an exact multiple of 2^-149 (gradual underflow is exact)
    Sub,
}
/// 2^-140
pub const SUB_UNIT: f32 = f32::from_bits(1 << 9);

pub fn input_values(v: Valuation, n: usize, seed: u64, key: &str) -> Vec<f32> {
    let mut r = Rng::new(seed, fnv(key) ^ 0x1111);
    match v {
        Valuation::Ints => (0..n).map(|i| (i + 1) as f32).collect(),
        Valuation::Dyadic => (0..n).map(|_| (r.below(9) as f32 - 4.0) / 2.0).collect(),
        Valuation::Tiny => (0..n).map(|_| (r.below(9) as f32 - 4.0) / 2.0 * 9.536_743e-7).collect(),
        Valuation::Dup => (0..n).map(|_| r.below(3) as f32 - 1.0).collect(),
        Valuation::Sub => (0..n).map(|_| (r.below(9) as f32 - 4.0) * SUB_UNIT).collect(),
        Valuation::Generic => (0..n).map(|_| r.signed(0.25, 1.5)).collect(),
    }
}

pub fn params_for(net: &Net, shapes: &[LShape], v: Valuation, seed: u64, key: &str) -> Vec<P<f32>> {
    let mut r = Rng::new(seed, fnv(key) ^ 0x2222);
    let mut counter = 0i32;
    make_params(net, shapes, &mut |_, kind, n| match v {
        Valuation::Ints => (0..n)
            .map(|_| {
                counter += 1;
                // distinct, alternating sign, magnitudes 1..; biases offset so they are visible
                let m = counter as f32;
                if kind == "b" {
                    100.0 + m
                } else if counter % 2 == 0 {
                    -m
                } else {
                    m
                }
            })
            .collect(),
        Valuation::Dyadic | Valuation::Tiny => (0..n).map(|_| (r.below(9) as f32 - 4.0) / 4.0).collect(),
        Valuation::Dup => (0..n).map(|_| r.below(3) as f32 - 1.0).collect(),
        Valuation::Sub => (0..n).map(|_| if kind == "b" { (r.below(9) as f32 - 4.0) * SUB_UNIT } else { (r.below(9) as f32 - 4.0) / 4.0 }).collect(),
        Valuation::Generic => (0..n).map(|_| r.signed(0.25, 1.5)).collect(),
    })
}

// ---------------------------------------------------------------------------------------------
// running the real library
// ---------------------------------------------------------------------------------------------
pub struct LibRun {
    /// per layer: pre-activation tensor (dims + flat data)
    pub pre: Vec<(Dims, Vec<f32>)>,
    /// [0] = input as given; [i+1] = post-activation of layer i as handed on
    pub post: Vec<(Dims, Vec<f32>)>,
    pub raw: (Vec<Tensor>, Vec<Tensor>, Vec<Option<Tensor>>, Vec<Vec<Tensor>>),
}

pub fn lib_forward(net: &Network, x: &Tensor) -> Result<LibRun, String> {
    let raw = crate::util::guard(|| net.forward(x))?;
    let mut pre = Vec::new();
    for t in &raw.0 {
        pre.push(libnet::flat_dims(t)?);
    }
    let mut post = Vec::new();
    for t in &raw.1 {
        post.push(libnet::flat_dims(t)?);
    }
    Ok(LibRun { pre, post, raw })
}

/// build the network and install the parameters; Err(panic message) if the builder rejects it
thread_local! {
    /// when set, build_with() constructs networks through placeholder activations + set_activation
    pub static VIA_SET_ACTIVATION: std::cell::Cell<bool> = std::cell::Cell::new(false);
}

pub fn build_with(spec: &Net, shapes: &[LShape], params: &[P<f32>]) -> Result<Network, String> {
    let via = VIA_SET_ACTIVATION.with(|v| v.get());
    let mut net = crate::util::guard(|| if via { libnet::build_via_set_activation(spec) } else { libnet::build(spec) })?;
    crate::util::guard(|| libnet::set_params(&mut net, spec, shapes, params))?;
    Ok(net)
}

// ---------------------------------------------------------------------------------------------
// prediction vs reference interpreter (used by the structural properties C11, C16, C17)
// ---------------------------------------------------------------------------------------------
pub enum Mismatch {
    Rejected(String),
    Panics(String),
    Shape(String),
    Value(String),
}

pub struct PredictOk {
    pub exact: bool,
    pub nontrivial: bool,
    pub lib_out: Vec<f32>,
    /// some intermediate of the exact reference leaves the single-precision range: nothing was compared
    pub overflow: bool,
}

fn trace_max(tr: &crate::refmodel::net::Trace<f64>) -> f64 {
    fn lt(t: &crate::refmodel::net::LTrace<f64>) -> f64 {
        let mut m = 0.0f64;
        for v in t.x.iter().chain(t.pre.iter()).chain(t.post.iter()) {
            m = m.max(if v.is_finite() { v.abs() } else { f64::INFINITY });
        }
        for i in &t.inner {
            m = m.max(lt(i));
        }
        m
    }
    let mut m = 0.0f64;
    for l in &tr.layers {
        m = m.max(lt(l));
    }
    for a in &tr.activated {
        for v in a {
            m = m.max(if v.is_finite() { v.abs() } else { f64::INFINITY });
        }
    }
    m
}

/// exact-arithmetic data for structural checks: weights in {-1,0,1,2}, inputs small integers scaled by `unit`
pub fn structural_params(net: &Net, shapes: &[LShape], seed: u64, key: &str) -> Vec<P<f32>> {
    let mut r = Rng::new(seed, fnv(key) ^ 0x5555);
    make_params(net, shapes, &mut |_, kind, n| {
        (0..n).map(|_| if kind == "b" { [0.0, 1.0, -1.0][r.below(3)] } else { [-1.0, 0.0, 1.0, 2.0, 1.0][r.below(5)] }).collect()
    })
}

pub fn structural_input(n: usize, unit: f32, seed: u64, key: &str) -> Vec<f32> {
    let mut r = Rng::new(seed, fnv(key) ^ 0x6666);
    (0..n).map(|_| unit * (r.below(7) as f32 - 3.0)).collect()
}

/// `extra` is an absolute allowance on top of tol * max(max|reference|, floor) (conditioning of the computation);
/// `floor` (at most 1) is the largest magnitude among the operands and intermediates of the exact computation, so that
/// data of scale 1e-6 is judged at its own scale and an output that cancels to near zero at the scale of its operands
pub fn compare_out_abs(lib: &[f32], reff: &[f64], tol: f64, extra: f64, floor: f64) -> Result<bool, String> {
    if lib.len() != reff.len() {
        return Err(format!("{} elements, reference has {}", lib.len(), reff.len()));
    }
    let scale = reff.iter().fold(floor.min(1.0), |m, v| m.max(v.abs()));
    // 64 quanta of gradual underflow: below 2^-126 rounding is absolute
    let extra = extra + 64.0 * 1.401298464324817e-45;
    let mut exact = true;
    for i in 0..lib.len() {
        if !lib[i].is_finite() {
            return Err(format!("element {} is {}", i, lib[i]));
        }
        if lib[i] as f64 != reff[i] {
            exact = false;
            if (lib[i] as f64 - reff[i]).abs() > tol * scale + extra {
                return Err(format!("element {}: {:e}, reference {:e}; library {:?} reference {:?}", i, lib[i], reff[i], &lib[..lib.len().min(6)], &reff[..reff.len().min(6)]));
            }
        }
    }
    Ok(exact)
}

/// the exact computation with every datum moved by one single-precision rounding (alternating sign): how far its
/// results move is the conditioning of the computation, which no implementation in f32 can beat
pub fn perturbed_trace(net: &Net, shapes: &[crate::refmodel::net::LShape], p64: &[P<f64>], x64: &[f64]) -> crate::refmodel::net::Trace<f64> {
    let mut k = 0u32;
    let mut bump = |v: f64| -> f64 {
        k = k.wrapping_add(1);
        v * (1.0 + if k % 2 == 0 { 1.2e-7 } else { -1.2e-7 })
    };
    let pp: Vec<P<f64>> = p64.iter().map(|p| P { w: p.w.iter().map(|b| b.iter().map(|v| bump(*v)).collect()).collect(), b: p.b.as_ref().map(|b| b.iter().map(|v| bump(*v)).collect()), inner: p.inner.clone() }).collect();
    let xp: Vec<f64> = x64.iter().map(|v| bump(*v)).collect();
    crate::refmodel::net::forward(net, shapes, &pp, &xp, false)
}

/// build, install parameters, predict; compare with the reference interpreter (either reading of
/// "the input fed to layer a" when a skip source is itself a target)
pub fn predict_vs_ref(net: &Net, params: &[P<f32>], x: &[f32], tol: f64) -> Result<PredictOk, Mismatch> {
    predict_vs_ref_limit(net, params, x, tol, 1.0e30)
}

/// `limit`: a case is skipped (counted as overflow) when any intermediate of the exact computation exceeds it. The default
/// 1e30 leaves room for the partial sums of dot products; identity-like networks without partial sums can go to f32::MAX.
/// number of layer applications in the unrolled network (feedback repetitions and loop iterations written out)
pub fn unrolled_depth(net: &Net) -> usize {
    let mut d = 0usize;
    for l in &net.layers {
        d += match l {
            L::Fb { layers, loops, .. } => layers.len() * loops + loops,
            _ => 1,
        };
    }
    for (o, i, k, _) in &net.loopbacks {
        d += (o - i + 1) * k + k;
    }
    d
}

thread_local! {
    /// when set, predict_vs_ref() first TRAINS the network it built (one epoch of learn() on two samples, MSE, SGD with a
    /// small step), reads the parameters back through the hook and compares predict() with the reference on THOSE
    /// parameters: whatever a layer cached, copied or left switched on during training shows in the prediction
    pub static PRETRAIN: std::cell::Cell<bool> = const { std::cell::Cell::new(false) };
}

pub fn predict_vs_ref_limit(net: &Net, params: &[P<f32>], x: &[f32], tol: f64, limit: f64) -> Result<PredictOk, Mismatch> {
    let pretrain = PRETRAIN.with(|p| p.get());
    let tol = if pretrain { tol.max(1e-4) } else { tol };
    // single-precision rounding accumulates with the length of the chain: the relative tolerance is the given one for
    // chains of up to 4 layer applications and grows linearly beyond (a 17-application chain gets 4.25 x)
    let tol = tol * (unrolled_depth(net) as f64 / 4.0).max(1.0);
    let shapes = ref_shapes(net).expect("predict_vs_ref: reference must accept the case");
    let mut lib = build_with(net, &shapes, params).map_err(Mismatch::Rejected)?;
    let xt = libnet::tensor(net.input, x);
    let mut trained: Option<Vec<P<f32>>> = None;
    if pretrain {
        let first = crate::util::guard(|| lib.predict(&xt)).map_err(Mismatch::Panics)?;
        let (d0, v0) = libnet::flat_dims(&first).map_err(Mismatch::Shape)?;
        let target = libnet::tensor(d0, &vec![0.5; v0.len()]);
        let xr: Vec<f32> = x.iter().rev().cloned().collect();
        let xt2 = libnet::tensor(net.input, &xr);
        lib.set_objective(neurons::objective::Objective::MSE, None);
        lib.set_optimizer(neurons::optimizer::SGD::create(0.000244140625, None));
        crate::util::guard(|| {
            lib.learn(&vec![&xt, &xt2], &vec![&target, &target], None, 1, 1, None);
        })
        .map_err(|e| Mismatch::Panics(format!("learn(): {}", e)))?;
        trained = Some(libnet::get_params(&lib).map_err(Mismatch::Shape)?);
    }
    let params: &[P<f32>] = trained.as_deref().unwrap_or(params);
    let out = crate::util::guard(|| lib.predict(&xt)).map_err(Mismatch::Panics)?;
    let (d, v) = libnet::flat_dims(&out).map_err(Mismatch::Shape)?;
    let last = shapes.last().unwrap();
    if d != last.out && d != last.out.flat() {
        return Err(Mismatch::Shape(format!("prediction has shape {}, announced {}", d.name(), last.out.name())));
    }
    let x64: Vec<f64> = x.iter().map(|v| *v as f64).collect();
    let p64 = crate::refmodel::net::to_f64(params);
    let tr = crate::refmodel::net::forward(net, &shapes, &p64, &x64, false);
    let want = tr.activated.last().unwrap();
    let floor = trace_max(&tr);
    // a training step on integer data can send a network off towards 1e20: only trained states of ordinary magnitude
    // are judged (as in C01); the others are counted with the out-of-range cases
    let limit = if pretrain { limit.min(1.0e3) } else { limit };
    // ... "ordinary magnitude" as in C01: parameters and pre-activations below 1e3 as well (multiplicative coupling can
    // leave a trained block with huge weights; an unsaturated output is then the difference of huge terms)
    let wild = pretrain
        && (p64.iter().flat_map(|p| p.flat()).any(|v| !v.is_finite() || v.abs() >= 1.0e3)
            || tr.layers.iter().any(|l| l.pre.iter().chain(l.inner.iter().flat_map(|i| i.pre.iter())).any(|v| !v.is_finite() || v.abs() >= 1.0e3)));
    if floor > limit || wild {
        // repeated multiplication / many repetitions: the exact value is outside what f32 can hold
        return Ok(PredictOk { exact: false, nontrivial: false, lib_out: v, overflow: true });
    }
    let nontrivial = {
        let mut dd: Vec<u64> = want.iter().filter(|v| **v != 0.0).map(|v| v.to_bits()).collect();
        dd.sort_unstable();
        dd.dedup();
        dd.len() >= 2
    };
    // conditioning: how far does the exact result move when every datum is perturbed by one single-precision rounding?
    // Deep chains of saturating activations with gains above one amplify rounding exponentially; 64 times that movement
    // is allowed on top of the relative tolerance.
    let extra = {
        let tp = perturbed_trace(net, &shapes, &p64, &x64);
        let moved = tp.activated.last().unwrap().iter().zip(want.iter()).fold(0.0f64, |m, (a, b)| m.max((a - b).abs()));
        if moved.is_finite() {
            64.0 * moved
        } else {
            f64::INFINITY
        }
    };
    // rounding of the INTERMEDIATES: every operation rounds at the scale of its own result, so an output that is the
    // difference of intermediates of size M carries an absolute error of a few ulp(M) whatever the data perturbation says
    // (a structurally cancelling last layer hides that from the perturbation estimate above)
    let extra = extra + 16.0 * f32::EPSILON as f64 * floor;
    if std::env::var("NV_DEBUG").is_ok() {
        eprintln!("debug predict_vs_ref: floor(trace max) {:e} extra {:e} want {:?} lib {:?}", floor, extra, &want[..want.len().min(4)], &v[..v.len().min(4)]);
    }
    match compare_out_abs(&v, want, tol, extra, floor) {
        Ok(exact) => Ok(PredictOk { exact, nontrivial, lib_out: v, overflow: false }),
        Err(e) => {
            let chained = net.connects.iter().any(|(a, _)| net.connects.iter().any(|(_, b)| b == a));
            if chained {
                let tr2 = crate::refmodel::net::forward(net, &shapes, &p64, &x64, true);
                if let Ok(exact) = compare_out_abs(&v, tr2.activated.last().unwrap(), tol, extra, floor) {
                    return Ok(PredictOk { exact, nontrivial, lib_out: v, overflow: false });
                }
            }
            Err(Mismatch::Value(e))
        }
    }
}
