//! Bridge to the real library: build `neurons::network::Network` from a `Net` description, move
//! parameters in and out through the `verif` hooks, convert tensors to flat row-major vectors while
//! checking that the recorded shape matches the actual nesting.
use crate::spec::*;
use neurons::activation::Activation;
use neurons::feedback;
use neurons::network::Network;
use neurons::tensor::{Data, Shape, Tensor};
use neurons::verif::LayerParams;
use std::sync::Arc;

pub fn lib_act(a: Act) -> Activation {
    match a {
        Act::Linear => Activation::Linear,
        Act::Relu => Activation::ReLU,
        Act::Leaky => Activation::LeakyReLU,
        Act::Sigmoid => Activation::Sigmoid,
        Act::Tanh => Activation::Tanh,
        Act::Softmax => Activation::Softmax,
    }
}
pub fn lib_acc(a: Acc) -> feedback::Accumulation {
    match a {
        Acc::Add => feedback::Accumulation::Add,
        Acc::Sub => feedback::Accumulation::Subtract,
        Acc::Mul => feedback::Accumulation::Multiply,
        Acc::Mean => feedback::Accumulation::Mean,
        Acc::Over => feedback::Accumulation::Overwrite,
    }
}
pub fn lib_shape(d: Dims) -> Shape {
    match d {
        Dims::Flat(n) => Shape::Single(n),
        Dims::Chw(c, h, w) => Shape::Triple(c, h, w),
    }
}
pub fn dims_of(s: &Shape) -> Option<Dims> {
    match s {
        Shape::Single(n) => Some(Dims::Flat(*n)),
        Shape::Triple(c, h, w) => Some(Dims::Chw(*c, *h, *w)),
        _ => None,
    }
}

fn fb_layer(l: &L) -> feedback::Layer {
    match l {
        L::Dense { n, act, bias, drop } => feedback::Layer::Dense(*n, lib_act(*act), *bias, *drop),
        L::Conv { f, k, s, p, d, act, drop } => feedback::Layer::Convolution(*f, lib_act(*act), *k, *s, *p, *d, *drop),
        L::Deconv { f, k, s, p, act, drop } => feedback::Layer::Deconvolution(*f, lib_act(*act), *k, *s, *p, *drop),
        L::Pool { k, s } => feedback::Layer::Maxpool(*k, *s),
        L::Fb { .. } => panic!("nested feedback block in description"),
    }
}

/// Add one layer through the public builder API (may panic = rejection).
pub fn add_layer(net: &mut Network, l: &L) {
    match l {
        L::Dense { n, act, bias, drop } => net.dense(*n, lib_act(*act), *bias, *drop),
        L::Conv { f, k, s, p, d, act, drop } => net.convolution(*f, *k, *s, *p, *d, lib_act(*act), *drop),
        L::Deconv { f, k, s, p, act, drop } => net.deconvolution(*f, *k, *s, *p, lib_act(*act), *drop),
        L::Pool { k, s } => net.maxpool(*k, *s),
        L::Fb { layers, loops, inskips, outskips, acc } => {
            net.feedback(layers.iter().map(fb_layer).collect(), *loops, *inskips, *outskips, lib_acc(*acc))
        }
    }
}

/// Build the network with PLACEHOLDER activations on its plain dense / convolution / deconvolution layers and
/// then install the real ones through the public `set_activation` (a second route to the same network).
pub fn build_via_set_activation(spec: &Net) -> Network {
    let mut first = spec.clone();
    for l in first.layers.iter_mut() {
        match l {
            L::Dense { act, .. } => *act = if *act == Act::Softmax { Act::Linear } else { Act::Softmax },
            L::Conv { act, .. } | L::Deconv { act, .. } => *act = if *act == Act::Tanh { Act::Linear } else { Act::Tanh },
            _ => (),
        }
    }
    let mut net = build(&first);
    for (i, l) in spec.layers.iter().enumerate() {
        if let Some(a) = l.act() {
            net.set_activation(i, lib_act(a));
        }
    }
    net
}

thread_local! {
    /// build order: false = all layers, then the accumulations, then the connections; true = the accumulations first and
    /// every connect / loopback call issued as soon as the layers it names exist, BEFORE the remaining layers are added
    /// (the calls keep their relative order). Both orders describe the same network.
    static EAGER: std::cell::Cell<bool> = const { std::cell::Cell::new(false) };
}
pub fn set_eager(on: bool) {
    EAGER.with(|e| e.set(on));
}

/// Build the whole network (panics propagate: wrap in util::guard).
pub fn build(spec: &Net) -> Network {
    if EAGER.with(|e| e.get()) {
        let mut net = Network::new(lib_shape(spec.input));
        net.set_accumulation(lib_acc(spec.skipacc), lib_acc(spec.loopacc));
        let (mut ci, mut li) = (0usize, 0usize);
        for (n, l) in spec.layers.iter().enumerate() {
            add_layer(&mut net, l);
            while ci < spec.connects.len() && spec.connects[ci].0.max(spec.connects[ci].1) <= n {
                net.connect(spec.connects[ci].0, spec.connects[ci].1);
                ci += 1;
            }
            while li < spec.loopbacks.len() && spec.loopbacks[li].0.max(spec.loopbacks[li].1) <= n {
                let (o, i, k, sk) = spec.loopbacks[li];
                net.loopback(o, i, k, Arc::new(|_x| 1.0), sk);
                li += 1;
            }
        }
        for (a, b) in &spec.connects[ci..] {
            net.connect(*a, *b);
        }
        for (o, i, k, sk) in &spec.loopbacks[li..] {
            net.loopback(*o, *i, *k, Arc::new(|_x| 1.0), *sk);
        }
        return net;
    }
    let mut net = Network::new(lib_shape(spec.input));
    for l in &spec.layers {
        add_layer(&mut net, l);
    }
    net.set_accumulation(lib_acc(spec.skipacc), lib_acc(spec.loopacc));
    for (a, b) in &spec.connects {
        net.connect(*a, *b);
    }
    for (o, i, k, sk) in &spec.loopbacks {
        net.loopback(*o, *i, *k, Arc::new(|_x| 1.0), *sk);
    }
    net
}

// ---------------------------------------------------------------------------------------------
// tensors
// ---------------------------------------------------------------------------------------------
pub fn tensor(d: Dims, v: &[f32]) -> Tensor {
    assert_eq!(d.count(), v.len(), "tensor(): data length");
    match d {
        Dims::Flat(_) => Tensor::single(v.to_vec()),
        Dims::Chw(c, h, w) => {
            let mut it = v.iter();
            let data: Vec<Vec<Vec<f32>>> =
                (0..c).map(|_| (0..h).map(|_| (0..w).map(|_| *it.next().unwrap()).collect()).collect()).collect();
            Tensor { shape: Shape::Triple(c, h, w), data: Data::Triple(data) }
        }
    }
}
pub fn matrix(rows: usize, cols: usize, v: &[f32]) -> Tensor {
    assert_eq!(rows * cols, v.len());
    Tensor {
        shape: Shape::Double(rows, cols),
        data: Data::Double((0..rows).map(|r| v[r * cols..(r + 1) * cols].to_vec()).collect()),
    }
}

/// Flat row-major contents; Err if the recorded shape disagrees with the actual nesting.
pub fn flat(t: &Tensor) -> Result<(Shape, Vec<f32>), String> {
    let bad = |what: &str| Err(format!("tensor shape {:?} does not match its data ({})", t.shape, what));
    match (&t.shape, &t.data) {
        (Shape::Single(n), Data::Single(v)) => {
            if v.len() != *n {
                return bad("vector length");
            }
            Ok((t.shape.clone(), v.clone()))
        }
        (Shape::Double(r, c), Data::Double(m)) => {
            if m.len() != *r || m.iter().any(|row| row.len() != *c) {
                return bad("matrix extents");
            }
            Ok((t.shape.clone(), m.iter().flatten().copied().collect()))
        }
        (Shape::Triple(c, h, w), Data::Triple(d)) => {
            if d.len() != *c || d.iter().any(|ch| ch.len() != *h || ch.iter().any(|row| row.len() != *w)) {
                return bad("CxHxW extents");
            }
            Ok((t.shape.clone(), d.iter().flatten().flatten().copied().collect()))
        }
        (Shape::Quadruple(a, b, c, e), Data::Quadruple(d)) => {
            if d.len() != *a
                || d.iter().any(|x| {
                    x.len() != *b || x.iter().any(|y| y.len() != *c || y.iter().any(|z| z.len() != *e))
                })
            {
                return bad("4-D extents");
            }
            Ok((t.shape.clone(), d.iter().flatten().flatten().flatten().copied().collect()))
        }
        _ => bad("rank"),
    }
}

/// flat contents of a Single / Triple tensor plus its Dims
pub fn flat_dims(t: &Tensor) -> Result<(Dims, Vec<f32>), String> {
    let (s, v) = flat(t)?;
    match dims_of(&s) {
        Some(d) => Ok((d, v)),
        None => Err(format!("expected a vector or CxHxW tensor, got {:?}", s)),
    }
}

// ---------------------------------------------------------------------------------------------
// parameters
// ---------------------------------------------------------------------------------------------
/// P<f32> -> LayerParams following the description (kernel/matrix extents from the shapes)
pub fn to_lib(l: &L, sh: &crate::refmodel::net::LShape, p: &P<f32>) -> LayerParams {
    match l {
        L::Dense { n, .. } => LayerParams {
            weights: vec![matrix(*n, sh.inp.count(), &p.w[0])],
            bias: p.b.as_ref().map(|b| Tensor::single(b.clone())),
            inner: vec![],
        },
        L::Conv { k, .. } | L::Deconv { k, .. } => {
            let c = match sh.inp {
                Dims::Chw(c, _, _) => c,
                _ => unreachable!(),
            };
            LayerParams { weights: p.w.iter().map(|kv| tensor(Dims::Chw(c, k.0, k.1), kv)).collect(), bias: None, inner: vec![] }
        }
        L::Pool { .. } => LayerParams { weights: vec![], bias: None, inner: vec![] },
        L::Fb { layers, .. } => LayerParams {
            weights: vec![],
            bias: None,
            inner: p.inner.iter().enumerate().map(|(i, q)| to_lib(&layers[i % layers.len()], &sh.inner[i], q)).collect(),
        },
    }
}

pub fn set_params(net: &mut Network, spec: &Net, shapes: &[crate::refmodel::net::LShape], params: &[P<f32>]) {
    let lp: Vec<LayerParams> =
        spec.layers.iter().zip(shapes).zip(params).map(|((l, sh), p)| to_lib(l, sh, p)).collect();
    neurons::verif::set_params(net, &lp);
}

/// LayerParams -> P<f32> (Err on inconsistent tensors)
pub fn from_lib(lp: &LayerParams) -> Result<P<f32>, String> {
    let mut w = Vec::new();
    for t in &lp.weights {
        w.push(flat(t)?.1);
    }
    let b = match &lp.bias {
        Some(t) => Some(flat(t)?.1),
        None => None,
    };
    let mut inner = Vec::new();
    for i in &lp.inner {
        inner.push(from_lib(i)?);
    }
    Ok(P { w, b, inner })
}

pub fn get_params(net: &Network) -> Result<Vec<P<f32>>, String> {
    neurons::verif::params(net).iter().map(from_lib).collect()
}

/// Gradients returned by Network::backward (last layer first) -> per-layer P<f32> in layer order.
/// Dense: weight gradient Double + optional bias; (de)conv: Quadruple (filters, channels, kh, kw);
/// maxpool: empty; feedback: Nested (last unrolled layer first) + NestedOptional biases.
pub fn grads_from_lib(wg: &[Tensor], bg: &[Option<Tensor>], spec: &Net) -> Result<Vec<P<f32>>, String> {
    fn one(l: &L, w: &Tensor, b: &Option<Tensor>) -> Result<P<f32>, String> {
        match l {
            L::Dense { .. } => Ok(P {
                w: vec![flat(w)?.1],
                b: match b {
                    Some(t) => Some(flat(t)?.1),
                    None => None,
                },
                inner: vec![],
            }),
            L::Conv { f, .. } | L::Deconv { f, .. } => {
                let (s, v) = flat(w)?;
                match s {
                    Shape::Quadruple(ff, c, kh, kw) if ff == *f => {
                        let n = c * kh * kw;
                        Ok(P { w: (0..ff).map(|i| v[i * n..(i + 1) * n].to_vec()).collect(), b: None, inner: vec![] })
                    }
                    other => Err(format!("kernel gradient has shape {:?}, expected {} filters", other, f)),
                }
            }
            L::Pool { .. } => Ok(P::empty()),
            L::Fb { layers, loops, .. } => {
                let ws = match &w.data {
                    Data::Nested(v) => v.clone(),
                    _ => return Err("feedback weight gradient is not nested".into()),
                };
                let bs = match b.as_ref().map(|t| &t.data) {
                    Some(Data::NestedOptional(v)) => v.clone(),
                    _ => return Err("feedback bias gradient is not nested".into()),
                };
                let total = layers.len() * loops;
                if ws.len() != total || bs.len() != total {
                    return Err(format!("feedback gradients: {} / {} entries for {} unrolled layers", ws.len(), bs.len(), total));
                }
                let mut inner = Vec::new();
                for i in 0..total {
                    // reversed order
                    let r = total - 1 - i;
                    inner.push(one(&layers[i % layers.len()], &ws[r], &bs[r])?);
                }
                Ok(P { w: vec![], b: None, inner })
            }
        }
    }
    let n = spec.layers.len();
    if wg.len() != n || bg.len() != n {
        return Err(format!("backward returned {} / {} gradients for {} layers", wg.len(), bg.len(), n));
    }
    (0..n).map(|i| one(&spec.layers[i], &wg[n - 1 - i], &bg[n - 1 - i])).collect()
}

/// build + install parameters without going through gen.rs
pub fn build_with_simple(spec: &Net, params: &[P<f32>]) -> Result<Network, String> {
    let shapes = crate::refmodel::net::ref_shapes(spec)?;
    let mut net = crate::util::guard(|| build(spec))?;
    crate::util::guard(|| set_params(&mut net, spec, &shapes, params))?;
    Ok(net)
}
