//! The five documented optimizer recurrences on one scalar parameter (generic over the scalar).
use super::num::Num;

#[derive(Clone, Copy, Debug, PartialEq)]
pub enum OptSpec {
    Sgd { lr: f32, decay: Option<f32> },
    Sgdm { lr: f32, momentum: f32, dampening: f32, decay: Option<f32> },
    Adam { lr: f32, b1: f32, b2: f32, eps: f32, decay: Option<f32> },
    AdamW { lr: f32, b1: f32, b2: f32, eps: f32, decay: f32 },
    Rms { lr: f32, alpha: f32, eps: f32, decay: Option<f32>, momentum: Option<f32>, centered: bool },
}

fn o(x: Option<f32>) -> String {
    match x {
        None => "none".into(),
        Some(v) => format!("{}", v),
    }
}
fn po(s: &str) -> Option<f32> {
    if s == "none" {
        None
    } else {
        Some(s.parse().unwrap())
    }
}

impl OptSpec {
    pub fn name(&self) -> String {
        match self {
            OptSpec::Sgd { lr, decay } => format!("sgd/{}/{}", lr, o(*decay)),
            OptSpec::Sgdm { lr, momentum, dampening, decay } => format!("sgdm/{}/{}/{}/{}", lr, momentum, dampening, o(*decay)),
            OptSpec::Adam { lr, b1, b2, eps, decay } => format!("adam/{}/{}/{}/{}/{}", lr, b1, b2, eps, o(*decay)),
            OptSpec::AdamW { lr, b1, b2, eps, decay } => format!("adamw/{}/{}/{}/{}/{}", lr, b1, b2, eps, decay),
            OptSpec::Rms { lr, alpha, eps, decay, momentum, centered } => {
                format!("rmsprop/{}/{}/{}/{}/{}/{}", lr, alpha, eps, o(*decay), o(*momentum), *centered as u8)
            }
        }
    }
    pub fn parse(s: &str) -> OptSpec {
        let t: Vec<&str> = s.split('/').collect();
        let f = |i: usize| -> f32 { t[i].parse().unwrap() };
        match t[0] {
            "sgd" => OptSpec::Sgd { lr: f(1), decay: po(t[2]) },
            "sgdm" => OptSpec::Sgdm { lr: f(1), momentum: f(2), dampening: f(3), decay: po(t[4]) },
            "adam" => OptSpec::Adam { lr: f(1), b1: f(2), b2: f(3), eps: f(4), decay: po(t[5]) },
            "adamw" => OptSpec::AdamW { lr: f(1), b1: f(2), b2: f(3), eps: f(4), decay: f(5) },
            "rmsprop" => OptSpec::Rms { lr: f(1), alpha: f(2), eps: f(3), decay: po(t[4]), momentum: po(t[5]), centered: t[6] == "1" },
            _ => panic!("unknown optimizer {:?}", s),
        }
    }
    pub fn kind(&self) -> &'static str {
        match self {
            OptSpec::Sgd { .. } => "SGD",
            OptSpec::Sgdm { .. } => "SGDM",
            OptSpec::Adam { .. } => "Adam",
            OptSpec::AdamW { .. } => "AdamW",
            OptSpec::Rms { .. } => "RMSprop",
        }
    }
    pub fn lib(&self) -> neurons::optimizer::Optimizer {
        use neurons::optimizer as op;
        match *self {
            OptSpec::Sgd { lr, decay } => op::SGD::create(lr, decay),
            OptSpec::Sgdm { lr, momentum, dampening, decay } => op::SGDM::create(lr, momentum, dampening, decay),
            OptSpec::Adam { lr, b1, b2, eps, decay } => op::Adam::create(lr, b1, b2, eps, decay),
            OptSpec::AdamW { lr, b1, b2, eps, decay } => op::AdamW::create(lr, b1, b2, eps, decay),
            OptSpec::Rms { lr, alpha, eps, decay, momentum, centered } => op::RMSprop::create(lr, alpha, eps, decay, momentum, centered),
        }
    }
}

/// running statistics of one scalar slot element, zero-initialised
#[derive(Clone, Copy, Debug)]
pub struct St<N> {
    pub velocity: N,
    pub momentum: N,
    pub gradient: N,
    pub buffer: N,
}
impl<N: Num> St<N> {
    pub fn fresh() -> St<N> {
        St { velocity: N::zero(), momentum: N::zero(), gradient: N::zero(), buffer: N::zero() }
    }
}

fn powi<N: Num>(b: N, n: i32) -> N {
    let mut r = N::one();
    for _ in 0..n {
        r = r * b;
    }
    r
}

/// one documented update of weight `w` with raw gradient `g` at step number `stepnr`; returns the new weight
pub fn step<N: Num>(spec: &OptSpec, st: &mut St<N>, w: N, g: N, stepnr: i32) -> N {
    let c = |x: f32| N::c(x as f64);
    match *spec {
        OptSpec::Sgd { lr, decay } => {
            let g = match decay {
                Some(d) => g + c(d) * w,
                None => g,
            };
            w - c(lr) * g
        }
        OptSpec::Sgdm { lr, momentum, dampening, decay } => {
            let mut g = match decay {
                Some(d) => g + c(d) * w,
                None => g,
            };
            if stepnr > 1 {
                st.velocity = c(momentum) * st.velocity + (N::one() - c(dampening)) * g;
                g = st.velocity;
            } else {
                st.velocity = g;
            }
            w - c(lr) * g
        }
        OptSpec::Adam { lr, b1, b2, eps, decay } => {
            let g = match decay {
                Some(d) => g + c(d) * w,
                None => g,
            };
            st.momentum = c(b1) * st.momentum + (N::one() - c(b1)) * g;
            st.velocity = c(b2) * st.velocity + (N::one() - c(b2)) * g * g;
            let m = st.momentum / (N::one() - powi(c(b1), stepnr));
            let v = st.velocity / (N::one() - powi(c(b2), stepnr));
            w - c(lr) * m / (v.sqrt() + c(eps))
        }
        OptSpec::AdamW { lr, b1, b2, eps, decay } => {
            let w = w - c(lr) * c(decay) * w;
            st.momentum = c(b1) * st.momentum + (N::one() - c(b1)) * g;
            st.velocity = c(b2) * st.velocity + (N::one() - c(b2)) * g * g;
            let m = st.momentum / (N::one() - powi(c(b1), stepnr));
            let v = st.velocity / (N::one() - powi(c(b2), stepnr));
            w - c(lr) * m / (v.sqrt() + c(eps))
        }
        OptSpec::Rms { lr, alpha, eps, decay, momentum, centered } => {
            let g = match decay {
                Some(d) => g + c(d) * w,
                None => g,
            };
            st.velocity = c(alpha) * st.velocity + (N::one() - c(alpha)) * g * g;
            let mut v = st.velocity;
            if centered {
                st.gradient = c(alpha) * st.gradient + (N::one() - c(alpha)) * g;
                v = v - st.gradient * st.gradient;
                // the exact value of E[g^2] - E[g]^2 is never negative
                if v.val() < 0.0 {
                    v = N::zero();
                }
            }
            match momentum {
                Some(mu) => {
                    st.buffer = c(mu) * st.buffer + g / (v.sqrt() + c(eps));
                    w - c(lr) * st.buffer
                }
                None => w - c(lr) * g / (v.sqrt() + c(eps)),
            }
        }
    }
}
