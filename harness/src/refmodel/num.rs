//! Scalars the reference models are generic over: f64, f32 and forward-mode dual numbers.
use std::ops::{Add, Div, Mul, Neg, Sub};

pub trait Num:
    Copy + Add<Output = Self> + Sub<Output = Self> + Mul<Output = Self> + Div<Output = Self> + Neg<Output = Self> + std::fmt::Debug
{
    fn c(x: f64) -> Self;
    fn val(self) -> f64;
    fn exp(self) -> Self;
    fn ln(self) -> Self;
    fn tanh(self) -> Self;
    fn sqrt(self) -> Self;
    fn abs(self) -> Self;
    fn zero() -> Self {
        Self::c(0.0)
    }
    fn one() -> Self {
        Self::c(1.0)
    }
}

impl Num for f64 {
    fn c(x: f64) -> f64 {
        x
    }
    fn val(self) -> f64 {
        self
    }
    fn exp(self) -> f64 {
        f64::exp(self)
    }
    fn ln(self) -> f64 {
        f64::ln(self)
    }
    fn tanh(self) -> f64 {
        f64::tanh(self)
    }
    fn sqrt(self) -> f64 {
        f64::sqrt(self)
    }
    fn abs(self) -> f64 {
        f64::abs(self)
    }
}

impl Num for f32 {
    fn c(x: f64) -> f32 {
        x as f32
    }
    fn val(self) -> f64 {
        self as f64
    }
    fn exp(self) -> f32 {
        f32::exp(self)
    }
    fn ln(self) -> f32 {
        f32::ln(self)
    }
    fn tanh(self) -> f32 {
        f32::tanh(self)
    }
    fn sqrt(self) -> f32 {
        f32::sqrt(self)
    }
    fn abs(self) -> f32 {
        f32::abs(self)
    }
}

/// value + one directional derivative
#[derive(Clone, Copy, Debug)]
pub struct Dual {
    pub v: f64,
    pub d: f64,
}
impl Dual {
    pub fn var(v: f64) -> Dual {
        Dual { v, d: 1.0 }
    }
}
impl Add for Dual {
    type Output = Dual;
    fn add(self, o: Dual) -> Dual {
        Dual { v: self.v + o.v, d: self.d + o.d }
    }
}
impl Sub for Dual {
    type Output = Dual;
    fn sub(self, o: Dual) -> Dual {
        Dual { v: self.v - o.v, d: self.d - o.d }
    }
}
impl Mul for Dual {
    type Output = Dual;
    fn mul(self, o: Dual) -> Dual {
        Dual { v: self.v * o.v, d: self.d * o.v + self.v * o.d }
    }
}
impl Div for Dual {
    type Output = Dual;
    fn div(self, o: Dual) -> Dual {
        Dual { v: self.v / o.v, d: (self.d * o.v - self.v * o.d) / (o.v * o.v) }
    }
}
impl Neg for Dual {
    type Output = Dual;
    fn neg(self) -> Dual {
        Dual { v: -self.v, d: -self.d }
    }
}
impl Num for Dual {
    fn c(x: f64) -> Dual {
        Dual { v: x, d: 0.0 }
    }
    fn val(self) -> f64 {
        self.v
    }
    fn exp(self) -> Dual {
        let e = self.v.exp();
        Dual { v: e, d: self.d * e }
    }
    fn ln(self) -> Dual {
        Dual { v: self.v.ln(), d: self.d / self.v }
    }
    fn tanh(self) -> Dual {
        let t = self.v.tanh();
        Dual { v: t, d: self.d * (1.0 - t * t) }
    }
    fn sqrt(self) -> Dual {
        let s = self.v.sqrt();
        Dual { v: s, d: self.d / (2.0 * s) }
    }
    fn abs(self) -> Dual {
        if self.v >= 0.0 {
            self
        } else {
            -self
        }
    }
}
