//! Definitional reference operators (row-major flat data). Written from the mathematical
//! definitions in the property statements; shares no code with `neurons`.
use super::num::Num;
use crate::spec::{Acc, Act, P2};

/// out = floor((in + 2p - d(k-1) - 1)/s) + 1 ; None if the effective kernel does not fit
pub fn conv_out(i: usize, k: usize, s: usize, p: usize, d: usize) -> Option<usize> {
    let eff = d * (k - 1) + 1;
    if k == 0 || s == 0 || d == 0 || i + 2 * p < eff {
        None
    } else {
        Some((i + 2 * p - eff) / s + 1)
    }
}
/// out = (in-1)s + k - 2p ; None if not positive
pub fn deconv_out(i: usize, k: usize, s: usize, p: usize) -> Option<usize> {
    if i == 0 || k == 0 || s == 0 {
        return None;
    }
    let full = (i - 1) * s + k;
    if full > 2 * p {
        Some(full - 2 * p)
    } else {
        None
    }
}
/// out = floor((in-k)/s) + 1 ; None if the window does not fit
pub fn pool_out(i: usize, k: usize, s: usize) -> Option<usize> {
    if k == 0 || s == 0 || k > i {
        None
    } else {
        Some((i - k) / s + 1)
    }
}

pub fn isqrt_exact(n: usize) -> Option<usize> {
    let mut r = (n as f64).sqrt() as usize;
    while r * r > n {
        r -= 1;
    }
    while (r + 1) * (r + 1) <= n {
        r += 1;
    }
    if r * r == n && n > 0 {
        Some(r)
    } else {
        None
    }
}

pub fn act_fwd<N: Num>(a: Act, v: &[N]) -> Vec<N> {
    match a {
        Act::Linear => v.to_vec(),
        Act::Relu => v.iter().map(|x| if x.val() > 0.0 { *x } else { N::zero() }).collect(),
        Act::Leaky => v.iter().map(|x| if x.val() > 0.0 { *x } else { N::c(0.01f32 as f64) * *x }).collect(),
        Act::Sigmoid => v.iter().map(|x| N::one() / (N::one() + (-*x).exp())).collect(),
        Act::Tanh => v.iter().map(|x| x.tanh()).collect(),
        Act::Softmax => {
            let m = v.iter().map(|x| x.val()).fold(f64::NEG_INFINITY, f64::max);
            let e: Vec<N> = v.iter().map(|x| (*x - N::c(m)).exp()).collect();
            let mut s = N::zero();
            for x in &e {
                s = s + *x;
            }
            e.iter().map(|x| *x / s).collect()
        }
    }
}

/// y = W x + b ; W row-major (n_out x n_in)
pub fn dense<N: Num>(w: &[N], b: Option<&[N]>, x: &[N], n_out: usize) -> Vec<N> {
    let n_in = x.len();
    assert_eq!(w.len(), n_out * n_in, "reference dense: weight size");
    (0..n_out)
        .map(|o| {
            let mut s = N::zero();
            for i in 0..n_in {
                s = s + w[o * n_in + i] * x[i];
            }
            if let Some(b) = b {
                s = s + b[o];
            }
            s
        })
        .collect()
}

/// y[f][oh][ow] = sum_{c,i,j} k[f][c][i][j] * xpad[c][oh*s + i*d][ow*s + j*d]
pub fn conv<N: Num>(
    x: &[N],
    (c, h, w): (usize, usize, usize),
    kernels: &[Vec<N>],
    k: P2,
    s: P2,
    p: P2,
    d: P2,
) -> (Vec<N>, (usize, usize, usize)) {
    let oh = conv_out(h, k.0, s.0, p.0, d.0).expect("reference conv: invalid height config");
    let ow = conv_out(w, k.1, s.1, p.1, d.1).expect("reference conv: invalid width config");
    let f = kernels.len();
    let mut y = vec![N::zero(); f * oh * ow];
    for ff in 0..f {
        assert_eq!(kernels[ff].len(), c * k.0 * k.1, "reference conv: kernel size");
        for a in 0..oh {
            for b in 0..ow {
                let mut sum = N::zero();
                for cc in 0..c {
                    for i in 0..k.0 {
                        for j in 0..k.1 {
                            // coordinates in the padded plane
                            let ph = a * s.0 + i * d.0;
                            let pw = b * s.1 + j * d.1;
                            if ph < p.0 || pw < p.1 {
                                continue;
                            }
                            let (ih, iw) = (ph - p.0, pw - p.1);
                            if ih >= h || iw >= w {
                                continue;
                            }
                            sum = sum + kernels[ff][(cc * k.0 + i) * k.1 + j] * x[(cc * h + ih) * w + iw];
                        }
                    }
                }
                y[(ff * oh + a) * ow + b] = sum;
            }
        }
    }
    (y, (f, oh, ow))
}

/// y[f][i*s + ki - p][j*s + kj - p] += x[c][i][j] * k[f][c][ki][kj]
pub fn deconv<N: Num>(
    x: &[N],
    (c, h, w): (usize, usize, usize),
    kernels: &[Vec<N>],
    k: P2,
    s: P2,
    p: P2,
) -> (Vec<N>, (usize, usize, usize)) {
    let oh = deconv_out(h, k.0, s.0, p.0).expect("reference deconv: invalid height config");
    let ow = deconv_out(w, k.1, s.1, p.1).expect("reference deconv: invalid width config");
    let f = kernels.len();
    let mut y = vec![N::zero(); f * oh * ow];
    for ff in 0..f {
        assert_eq!(kernels[ff].len(), c * k.0 * k.1, "reference deconv: kernel size");
        for cc in 0..c {
            for i in 0..h {
                for j in 0..w {
                    for ki in 0..k.0 {
                        for kj in 0..k.1 {
                            let a = i * s.0 + ki;
                            let b = j * s.1 + kj;
                            if a < p.0 || b < p.1 {
                                continue;
                            }
                            let (a, b) = (a - p.0, b - p.1);
                            if a >= oh || b >= ow {
                                continue;
                            }
                            let idx = (ff * oh + a) * ow + b;
                            y[idx] = y[idx] + x[(cc * h + i) * w + j] * kernels[ff][(cc * k.0 + ki) * k.1 + kj];
                        }
                    }
                }
            }
        }
    }
    (y, (f, oh, ow))
}

/// window maximum; also reports the gap between the largest and second largest entry of every window
pub fn maxpool<N: Num>(x: &[N], (c, h, w): (usize, usize, usize), k: P2, s: P2) -> (Vec<N>, (usize, usize, usize), f64) {
    let oh = pool_out(h, k.0, s.0).expect("reference pool: invalid height config");
    let ow = pool_out(w, k.1, s.1).expect("reference pool: invalid width config");
    let mut y = vec![N::zero(); c * oh * ow];
    let mut min_gap = f64::INFINITY;
    for cc in 0..c {
        for a in 0..oh {
            for b in 0..ow {
                let mut best: Option<N> = None;
                let mut second = f64::NEG_INFINITY;
                for i in 0..k.0 {
                    for j in 0..k.1 {
                        let v = x[(cc * h + a * s.0 + i) * w + b * s.1 + j];
                        match best {
                            None => best = Some(v),
                            Some(bv) => {
                                if v.val() > bv.val() {
                                    second = bv.val();
                                    best = Some(v);
                                } else if v.val() > second {
                                    second = v.val();
                                }
                            }
                        }
                    }
                }
                let bv = best.unwrap();
                if k.0 * k.1 > 1 {
                    min_gap = min_gap.min(bv.val() - second);
                }
                y[(cc * oh + a) * ow + b] = bv;
            }
        }
    }
    (y, (c, oh, ow), min_gap)
}

/// comb(a, S): a+ΣS, a-ΣS, a·ΠS, (a+ΣS)/(|S|+1), last of S (a itself if S is empty)
pub fn comb<N: Num>(acc: Acc, a: &[N], others: &[&[N]]) -> Vec<N> {
    for o in others {
        assert_eq!(o.len(), a.len(), "reference comb: operand sizes");
    }
    match acc {
        Acc::Add => (0..a.len()).map(|i| others.iter().fold(a[i], |s, o| s + o[i])).collect(),
        Acc::Sub => (0..a.len()).map(|i| others.iter().fold(a[i], |s, o| s - o[i])).collect(),
        Acc::Mul => (0..a.len()).map(|i| others.iter().fold(a[i], |s, o| s * o[i])).collect(),
        Acc::Mean => {
            if others.is_empty() {
                a.to_vec()
            } else {
                let n = N::c((others.len() + 1) as f64);
                (0..a.len()).map(|i| others.iter().fold(a[i], |s, o| s + o[i]) / n).collect()
            }
        }
        Acc::Over => match others.last() {
            Some(l) => l.to_vec(),
            None => a.to_vec(),
        },
    }
}
