pub mod layers;
pub mod minstd;
pub mod net;
pub mod num;
pub mod objective;
pub mod optim;
