//! minstd_rand reference: X' = 48271 X mod (2^31 - 1), in u128 so nothing can overflow.
pub const M: u64 = (1u64 << 31) - 1;
pub const A: u64 = 48271;

pub fn next_state(x: u64) -> u64 {
    ((A as u128 * x as u128) % M as u128) as u64
}
