//! The seven documented objective formulas (loss generic over the scalar; documented gradients in f64).
use super::num::Num;

#[derive(Clone, Copy, PartialEq, Eq, Debug, Hash)]
pub enum Obj {
    AE,
    MAE,
    MSE,
    RMSE,
    CE,
    BCE,
    KL,
}
pub const OBJ7: [Obj; 7] = [Obj::AE, Obj::MAE, Obj::MSE, Obj::RMSE, Obj::CE, Obj::BCE, Obj::KL];

/// the epsilon the documentation fixes for log arguments, as the f32 the library can represent
pub const EPS: f32 = 1e-6;

impl Obj {
    pub fn name(&self) -> &'static str {
        match self {
            Obj::AE => "AE",
            Obj::MAE => "MAE",
            Obj::MSE => "MSE",
            Obj::RMSE => "RMSE",
            Obj::CE => "CrossEntropy",
            Obj::BCE => "BinaryCrossEntropy",
            Obj::KL => "KLDivergence",
        }
    }
    pub fn parse(s: &str) -> Obj {
        *OBJ7.iter().find(|o| o.name() == s).unwrap_or_else(|| panic!("unknown objective {:?}", s))
    }
    pub fn lib(&self) -> neurons::objective::Objective {
        use neurons::objective::Objective as O;
        match self {
            Obj::AE => O::AE,
            Obj::MAE => O::MAE,
            Obj::MSE => O::MSE,
            Obj::RMSE => O::RMSE,
            Obj::CE => O::CrossEntropy,
            Obj::BCE => O::BinaryCrossEntropy,
            Obj::KL => O::KLDivergence,
        }
    }
    /// objectives for which the documented gradient is the derivative of the reported loss
    pub fn gradient_is_derivative(&self) -> bool {
        matches!(self, Obj::AE | Obj::MSE | Obj::BCE | Obj::KL)
    }
    pub fn probabilistic(&self) -> bool {
        matches!(self, Obj::CE | Obj::BCE | Obj::KL)
    }
}

fn clamp_eps<N: Num>(p: N) -> N {
    let lo = EPS as f64;
    let hi = (1.0f32 - EPS) as f64;
    if p.val() < lo {
        N::c(lo)
    } else if p.val() > hi {
        N::c(hi)
    } else {
        p
    }
}

/// documented loss; `t` targets (constants), `p` predictions
pub fn loss<N: Num>(o: Obj, p: &[N], t: &[f64]) -> N {
    let n = N::c(t.len() as f64);
    let mut s = N::zero();
    match o {
        Obj::AE | Obj::MAE => {
            for i in 0..t.len() {
                s = s + (N::c(t[i]) - p[i]).abs();
            }
            if o == Obj::MAE {
                s = s / n;
            }
            s
        }
        Obj::MSE | Obj::RMSE => {
            for i in 0..t.len() {
                let d = N::c(t[i]) - p[i];
                s = s + d * d;
            }
            s = s / n;
            if o == Obj::RMSE {
                if s.val() == 0.0 {
                    N::zero()
                } else {
                    s.sqrt()
                }
            } else {
                s
            }
        }
        Obj::CE => {
            for i in 0..t.len() {
                s = s + N::c(t[i]) * clamp_eps(p[i]).ln();
            }
            -s
        }
        Obj::BCE => {
            for i in 0..t.len() {
                let q = clamp_eps(p[i]);
                s = s + N::c(t[i]) * q.ln() + N::c(1.0 - t[i]) * (N::one() - q).ln();
            }
            -s
        }
        Obj::KL => {
            for i in 0..t.len() {
                // a * ln(a / p), with the usual convention 0 * ln 0 = 0
                if t[i] != 0.0 {
                    s = s + N::c(t[i]) * (N::c(t[i]) / clamp_eps(p[i])).ln();
                }
            }
            s
        }
    }
}

/// documented per-element gradient (unclamped)
pub fn gradient(o: Obj, p: &[f64], t: &[f64]) -> Vec<f64> {
    let n = t.len() as f64;
    let ce = |x: f64| x.clamp(EPS as f64, (1.0f32 - EPS) as f64);
    (0..t.len())
        .map(|i| {
            let (a, q) = (t[i], p[i]);
            match o {
                Obj::AE | Obj::MAE => {
                    if a == q {
                        0.0
                    } else if a > q {
                        -1.0
                    } else {
                        1.0
                    }
                }
                Obj::MSE => -2.0 * (a - q) / n,
                Obj::RMSE => {
                    if a == q {
                        0.0
                    } else {
                        -(a - q) / (((a - q) * (a - q)).sqrt() * n)
                    }
                }
                Obj::CE => q - a,
                Obj::BCE => {
                    let c = ce(q);
                    (c - a) / (c * (1.0 - c))
                }
                Obj::KL => -a / ce(q),
            }
        })
        .collect()
}
