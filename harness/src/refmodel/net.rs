//! Reference interpreter for whole networks: announced shapes, acceptance, forward semantics of
//! layers, feedback blocks, skip connections and loop connections; dual-number derivatives.
use super::layers::*;
use super::num::{Dual, Num};
use crate::spec::*;

#[derive(Clone, Debug, PartialEq)]
pub struct LShape {
    /// input as the layer reads it (a flat r*r vector in front of a spatial layer is 1 x r x r)
    pub inp: Dims,
    /// announced output (spatial layers: C x H x W even when flattened for a following dense layer)
    pub out: Dims,
    /// the output is handed on flattened (a dense layer follows a spatial layer / block)
    pub flatten: bool,
    pub inner: Vec<LShape>,
}

fn one_shape(l: &L, cur: Dims, first: bool, _in_block: bool) -> Result<LShape, String> {
    let spatial_in = |cur: Dims| -> Result<(usize, usize, usize), String> {
        match cur {
            Dims::Chw(c, h, w) => Ok((c, h, w)),
            Dims::Flat(n) => {
                if first {
                    return Err("first layer is spatial but the network input is flat".into());
                }
                match isqrt_exact(n) {
                    Some(r) => Ok((1, r, r)),
                    None => Err(format!("flat size {} is not a perfect square", n)),
                }
            }
        }
    };
    match l {
        L::Dense { n, .. } => match cur {
            Dims::Flat(m) => Ok(LShape { inp: Dims::Flat(m), out: Dims::Flat(*n), flatten: false, inner: vec![] }),
            Dims::Chw(..) => Err("dense layer on a spatial shape (first layer or inside a block)".into()),
        },
        L::Conv { f, k, s, p, d, .. } => {
            let (c, h, w) = spatial_in(cur)?;
            let oh = conv_out(h, k.0, s.0, p.0, d.0).ok_or("convolution: effective kernel does not fit (height)")?;
            let ow = conv_out(w, k.1, s.1, p.1, d.1).ok_or("convolution: effective kernel does not fit (width)")?;
            Ok(LShape { inp: Dims::Chw(c, h, w), out: Dims::Chw(*f, oh, ow), flatten: false, inner: vec![] })
        }
        L::Deconv { f, k, s, p, .. } => {
            let (c, h, w) = spatial_in(cur)?;
            let oh = deconv_out(h, k.0, s.0, p.0).ok_or("deconvolution: empty output (height)")?;
            let ow = deconv_out(w, k.1, s.1, p.1).ok_or("deconvolution: empty output (width)")?;
            Ok(LShape { inp: Dims::Chw(c, h, w), out: Dims::Chw(*f, oh, ow), flatten: false, inner: vec![] })
        }
        L::Pool { k, s } => {
            let (c, h, w) = spatial_in(cur)?;
            let oh = pool_out(h, k.0, s.0).ok_or("maxpool: window does not fit (height)")?;
            let ow = pool_out(w, k.1, s.1).ok_or("maxpool: window does not fit (width)")?;
            Ok(LShape { inp: Dims::Chw(c, h, w), out: Dims::Chw(c, oh, ow), flatten: false, inner: vec![] })
        }
        L::Fb { layers, loops, .. } => {
            if layers.is_empty() || *loops == 0 {
                return Err("feedback block needs >=1 layer and >=1 loop".into());
            }
            let mut inner = Vec::new();
            let mut c = cur;
            for (j, il) in layers.iter().enumerate() {
                if matches!(il, L::Fb { .. }) {
                    return Err("nested feedback block".into());
                }
                let sh = one_shape(il, c, first && j == 0, true)?;
                c = sh.out;
                inner.push(sh);
            }
            let inp = inner[0].inp;
            let out = inner.last().unwrap().out;
            if inp != out {
                return Err(format!("feedback block output {} differs from its input {}", out.name(), inp.name()));
            }
            // unrolled copies
            let one = inner.clone();
            for _ in 1..*loops {
                inner.extend(one.clone());
            }
            Ok(LShape { inp, out, flatten: false, inner })
        }
    }
}

/// Announced shapes per the standard size formulas, or Err(reason) when the builder must reject.
pub fn ref_shapes(net: &Net) -> Result<Vec<LShape>, String> {
    let mut cur = net.input;
    let mut out = Vec::new();
    for (i, l) in net.layers.iter().enumerate() {
        // a dense layer after a spatial layer sees the flattened output
        let c = if matches!(l, L::Dense { .. }) && i > 0 { cur.flat() } else { cur };
        let mut sh = one_shape(l, c, i == 0, false).map_err(|e| format!("layer {}: {}", i, e))?;
        let next_dense = matches!(net.layers.get(i + 1), Some(L::Dense { .. }));
        sh.flatten = next_dense && !sh.out.is_flat();
        cur = if sh.flatten { sh.out.flat() } else { sh.out };
        out.push(sh);
    }
    Ok(out)
}

pub fn param_shape(l: &L, sh: &LShape) -> P<usize> {
    // sizes only: w blocks lengths, bias length
    match l {
        L::Dense { n, bias, .. } => P {
            w: vec![vec![sh.inp.count() * n]],
            b: if *bias { Some(vec![*n]) } else { None },
            inner: vec![],
        },
        L::Conv { f, k, .. } | L::Deconv { f, k, .. } => {
            let c = match sh.inp {
                Dims::Chw(c, _, _) => c,
                _ => unreachable!(),
            };
            P { w: (0..*f).map(|_| vec![c * k.0 * k.1]).collect(), b: None, inner: vec![] }
        }
        L::Pool { .. } => P::empty(),
        L::Fb { layers, loops, .. } => P {
            w: vec![],
            b: None,
            inner: (0..*loops)
                .flat_map(|r| layers.iter().enumerate().map(move |(j, il)| (r, j, il)))
                .map(|(r, j, il)| param_shape(il, &sh.inner[r * layers.len() + j]))
                .collect(),
        },
    }
}

/// Build parameters by calling `gen(layer_index, kind, n)`; copies of a feedback layer share values.
pub fn make_params(net: &Net, shapes: &[LShape], gen: &mut dyn FnMut(usize, &str, usize) -> Vec<f32>) -> Vec<P<f32>> {
    fn one(l: &L, sh: &LShape, idx: usize, gen: &mut dyn FnMut(usize, &str, usize) -> Vec<f32>) -> P<f32> {
        match l {
            L::Dense { n, bias, .. } => P {
                w: vec![gen(idx, "w", sh.inp.count() * n)],
                b: if *bias { Some(gen(idx, "b", *n)) } else { None },
                inner: vec![],
            },
            L::Conv { f, k, .. } | L::Deconv { f, k, .. } => {
                let c = match sh.inp {
                    Dims::Chw(c, _, _) => c,
                    _ => unreachable!(),
                };
                P { w: (0..*f).map(|_| gen(idx, "k", c * k.0 * k.1)).collect(), b: None, inner: vec![] }
            }
            L::Pool { .. } => P::empty(),
            L::Fb { layers, loops, .. } => {
                let first: Vec<P<f32>> =
                    layers.iter().enumerate().map(|(j, il)| one(il, &sh.inner[j], idx * 100 + j + 1, gen)).collect();
                let mut inner = Vec::new();
                for _ in 0..*loops {
                    inner.extend(first.clone());
                }
                P { w: vec![], b: None, inner }
            }
        }
    }
    net.layers.iter().zip(shapes).enumerate().map(|(i, (l, sh))| one(l, sh, i, gen)).collect()
}

#[derive(Clone, Debug)]
pub struct LTrace<N> {
    /// input actually processed (after skip accumulation)
    pub x: Vec<N>,
    pub pre: Vec<N>,
    pub post: Vec<N>,
    pub inner: Vec<LTrace<N>>,
}

#[derive(Clone, Debug)]
pub struct Trace<N> {
    pub layers: Vec<LTrace<N>>,
    /// value handed on after each layer (after loop accumulation); [0] is the network input
    pub activated: Vec<Vec<N>>,
    /// smallest |pre-activation| in front of a ReLU / leaky ReLU
    pub min_kink: f64,
    /// smallest gap between the largest and the second largest entry of any pooling window
    pub min_gap: f64,
    /// largest |pre-activation| in front of a sigmoid / tanh / soft-max (saturation)
    pub max_sat: f64,
}

struct Watch {
    min_kink: f64,
    min_gap: f64,
    max_sat: f64,
}

fn apply<N: Num>(l: &L, sh: &LShape, p: &P<N>, x: &[N], w: &mut Watch) -> LTrace<N> {
    assert_eq!(x.len(), sh.inp.count(), "reference: input size of {}", l.name());
    let chw = |d: Dims| match d {
        Dims::Chw(c, h, w) => (c, h, w),
        Dims::Flat(_) => panic!("reference: spatial layer with flat shape"),
    };
    let mut kink = |a: Act, pre: &[N]| {
        if matches!(a, Act::Relu | Act::Leaky) {
            for v in pre {
                w.min_kink = w.min_kink.min(v.val().abs());
            }
        }
        if matches!(a, Act::Sigmoid | Act::Tanh | Act::Softmax) {
            for v in pre {
                w.max_sat = w.max_sat.max(v.val().abs());
            }
        }
    };
    match l {
        L::Dense { n, act, .. } => {
            let pre = dense(&p.w[0], p.b.as_deref(), x, *n);
            kink(*act, &pre);
            let post = act_fwd(*act, &pre);
            LTrace { x: x.to_vec(), pre, post, inner: vec![] }
        }
        L::Conv { k, s, p: pad, d, act, .. } => {
            let (pre, _) = conv(x, chw(sh.inp), &p.w, *k, *s, *pad, *d);
            kink(*act, &pre);
            let post = act_fwd(*act, &pre);
            LTrace { x: x.to_vec(), pre, post, inner: vec![] }
        }
        L::Deconv { k, s, p: pad, act, .. } => {
            let (pre, _) = deconv(x, chw(sh.inp), &p.w, *k, *s, *pad);
            kink(*act, &pre);
            let post = act_fwd(*act, &pre);
            LTrace { x: x.to_vec(), pre, post, inner: vec![] }
        }
        L::Pool { k, s } => {
            let (y, _, gap) = maxpool(x, chw(sh.inp), *k, *s);
            w.min_gap = w.min_gap.min(gap);
            LTrace { x: x.to_vec(), pre: y.clone(), post: y, inner: vec![] }
        }
        L::Fb { layers, loops, inskips, outskips, acc } => {
            let len = layers.len();
            let mut inner = Vec::new();
            let mut outs: Vec<Vec<N>> = Vec::new();
            for r in 0..*loops {
                let mut cur: Vec<N> = if r == 0 {
                    x.to_vec()
                } else if *inskips {
                    comb(*acc, &outs[r - 1], &[x])
                } else {
                    outs[r - 1].clone()
                };
                for (j, il) in layers.iter().enumerate() {
                    let t = apply(il, &sh.inner[r * len + j], &p.inner[r * len + j], &cur, w);
                    cur = t.post.clone();
                    inner.push(t);
                }
                outs.push(cur);
            }
            let last = outs.pop().unwrap();
            let post = if *outskips {
                let refs: Vec<&[N]> = outs.iter().map(|v| v.as_slice()).collect();
                comb(*acc, &last, &refs)
            } else {
                last
            };
            LTrace { x: x.to_vec(), pre: inner[0].pre.clone(), post, inner }
        }
    }
}

/// `src_combined`: when the source layer of a skip connection is itself a target, use its combined
/// (true) or its ordinary (false) input as "the input that was fed to layer a".
pub fn forward<N: Num>(net: &Net, shapes: &[LShape], params: &[P<N>], x: &[N], src_combined: bool) -> Trace<N> {
    let mut w = Watch { min_kink: f64::INFINITY, min_gap: f64::INFINITY, max_sat: 0.0 };
    let mut activated: Vec<Vec<N>> = vec![x.to_vec()];
    let mut fed: Vec<Vec<N>> = Vec::new();
    let mut layers = Vec::new();
    for (i, l) in net.layers.iter().enumerate() {
        let mut cur = activated[i].clone();
        let sources: Vec<usize> = net.connects.iter().filter(|(_, to)| *to == i).map(|(a, _)| *a).collect();
        if !sources.is_empty() {
            let vals: Vec<Vec<N>> = sources
                .iter()
                .map(|a| if src_combined && *a < fed.len() { fed[*a].clone() } else { activated[*a].clone() })
                .collect();
            let refs: Vec<&[N]> = vals.iter().map(|v| v.as_slice()).collect();
            cur = comb(net.skipacc, &cur, &refs);
        }
        fed.push(cur.clone());
        let t = apply(l, &shapes[i], &params[i], &cur, &mut w);
        let mut handed = t.post.clone();
        layers.push(t);
        if let Some((_, into, iters, inskips)) = net.loopbacks.iter().find(|(o, _, _, _)| *o == i) {
            let mut ys: Vec<Vec<N>> = vec![handed.clone()];
            for _ in 0..*iters {
                let mut c = ys.last().unwrap().clone();
                if *inskips {
                    c = comb(Acc::Add, &c, &[&activated[*into]]);
                }
                for j in *into..=i {
                    let t = apply(&net.layers[j], &shapes[j], &params[j], &c, &mut w);
                    c = t.post;
                }
                ys.push(c);
            }
            let refs: Vec<&[N]> = ys[1..].iter().map(|v| v.as_slice()).collect();
            handed = comb(net.loopacc, &ys[0], &refs);
        }
        activated.push(handed);
    }
    Trace { layers, activated, min_kink: w.min_kink, min_gap: w.min_gap, max_sat: w.max_sat }
}

/// The other reading of a loop connection when two of them overlap: an iteration of the outer loop re-applies layers
/// a..b *with* the loop connections that lie inside them (the `forward` above re-applies the plain layers, which is
/// what the statement describes for a single loop). Networks without skip connections only; returns the output.
pub fn forward_nested_loops<N: Num>(net: &Net, shapes: &[LShape], params: &[P<N>], x: &[N]) -> Vec<N> {
    assert!(net.connects.is_empty(), "reference (nested loops): no skip connections");
    fn segment<N: Num>(net: &Net, shapes: &[LShape], params: &[P<N>], a: usize, b: usize, input: Vec<N>, current: Option<usize>, main_entry: &mut Vec<Option<Vec<N>>>, top: bool, w: &mut Watch) -> Vec<N> {
        let mut cur = input;
        let mut entry: Vec<Option<Vec<N>>> = vec![None; net.layers.len()];
        for j in a..=b {
            entry[j] = Some(cur.clone());
            if top {
                main_entry[j] = Some(cur.clone());
            }
            cur = apply(&net.layers[j], &shapes[j], &params[j], &cur, w).post;
            if let Some((_, into, iters, inskips)) = net.loopbacks.iter().find(|(o, _, _, _)| *o == j) {
                if current == Some(j) {
                    continue;
                }
                let orig: Vec<N> = entry[*into].clone().or_else(|| main_entry[*into].clone()).expect("reference (nested loops): entry value");
                let mut ys: Vec<Vec<N>> = vec![cur.clone()];
                for _ in 0..*iters {
                    let mut c = ys.last().unwrap().clone();
                    if *inskips {
                        c = comb(Acc::Add, &c, &[&orig]);
                    }
                    c = segment(net, shapes, params, *into, j, c, Some(j), main_entry, false, w);
                    ys.push(c);
                }
                let refs: Vec<&[N]> = ys[1..].iter().map(|v| v.as_slice()).collect();
                cur = comb(net.loopacc, &ys[0], &refs);
            }
        }
        cur
    }
    let mut w = Watch { min_kink: f64::INFINITY, min_gap: f64::INFINITY, max_sat: 0.0 };
    let mut main_entry: Vec<Option<Vec<N>>> = vec![None; net.layers.len()];
    segment(net, shapes, params, 0, net.layers.len() - 1, x.to_vec(), None, &mut main_entry, true, &mut w)
}

pub fn to_f64(p: &[P<f32>]) -> Vec<P<f64>> {
    p.iter().map(|x| x.map(&|v| v as f64)).collect()
}

/// d loss / d parameter for every parameter scalar, and d loss / d input, by forward-mode duals.
pub fn gradients(
    net: &Net,
    shapes: &[LShape],
    params: &[P<f64>],
    x: &[f64],
    loss: &dyn Fn(&[Dual]) -> Dual,
) -> (Vec<P<f64>>, Vec<f64>) {
    let dp: Vec<P<Dual>> = params.iter().map(|p| p.map(&|v| Dual::c(v))).collect();
    let dx: Vec<Dual> = x.iter().map(|v| Dual::c(*v)).collect();
    let mut grads: Vec<P<f64>> = params.iter().map(|p| p.map(&|_| 0.0)).collect();
    for li in 0..params.len() {
        let n = params[li].len();
        for i in 0..n {
            let mut q = dp.clone();
            q[li].at_mut(i).d = 1.0;
            let t = forward(net, shapes, &q, &dx, false);
            *grads[li].at_mut(i) = loss(t.activated.last().unwrap()).d;
        }
    }
    let mut gx = vec![0.0; x.len()];
    for i in 0..x.len() {
        let mut xx = dx.clone();
        xx[i].d = 1.0;
        let t = forward(net, shapes, &dp, &xx, false);
        gx[i] = loss(t.activated.last().unwrap()).d;
    }
    (grads, gx)
}
