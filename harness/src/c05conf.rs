//! C05 conformance side: the same driver on the REAL rayon. `nv C05conf <tier> <out.json>` runs every
//! segment inside pools of several sizes (in-pool context) and — through child processes started with
//! RAYON_NUM_THREADS — on the global pool entered from the main thread (external / injected context),
//! records result digests, and records the leaf partitions rayon actually produces for small n.
#[path = "../../shared/c05_driver.rs"]
pub mod driver;

use crate::json::Json;
use std::collections::BTreeSet;

fn obs_json(n: usize, threads: usize, context: &str, set: &BTreeSet<Vec<usize>>) -> Json {
    Json::obj()
        .with("n", Json::i(n as i64))
        .with("threads", Json::i(threads as i64))
        .with("context", Json::s(context))
        .with("observed", Json::Arr(set.iter().map(|p| Json::Arr(p.iter().map(|x| Json::i(*x as i64)).collect())).collect()))
}

const PROBE_N: [usize; 10] = [1, 2, 3, 4, 5, 6, 7, 8, 9, 12];

/// child mode: global pool (size from RAYON_NUM_THREADS), called from the main thread
pub fn external(reps: usize, part_reps: usize) -> Json {
    let threads = rayon::current_num_threads();
    let mut runs = Vec::new();
    for seg in driver::SEGMENTS {
        let mut digests = BTreeSet::new();
        for _ in 0..reps {
            digests.insert(driver::digest(&driver::run_segment(seg)));
        }
        for d in &digests {
            runs.push(
                Json::obj()
                    .with("segment", Json::s(seg))
                    .with("threads", Json::i(threads as i64))
                    .with("context", Json::s("external"))
                    .with("digest", Json::s(format!("{:016x}", d)))
                    .with("repetitions", Json::i((reps / digests.len()) as i64)),
            );
        }
    }
    let mut parts = Vec::new();
    for n in PROBE_N {
        let mut set = BTreeSet::new();
        for _ in 0..part_reps {
            set.insert(driver::partition(n).iter().map(|l| l.len()).collect::<Vec<_>>());
        }
        parts.push(obs_json(n, threads, "external", &set));
    }
    Json::obj().with("runs", Json::Arr(runs)).with("partitions", Json::Arr(parts))
}

pub fn conformance(thorough: bool, out: &str) -> i32 {
    let ts: Vec<usize> = if thorough { vec![1, 2, 3, 4, 8, 16, 64] } else { vec![1, 2, 3, 4, 8] };
    let reps = if thorough { 10 } else { 2 };
    let part_reps = if thorough { 2000 } else { 300 };
    let mut runs = Vec::new();
    let mut parts = Vec::new();
    for &t in &ts {
        let pool = rayon::ThreadPoolBuilder::new().num_threads(t).build().expect("pool");
        for seg in driver::SEGMENTS {
            let mut digests = BTreeSet::new();
            for _ in 0..reps {
                digests.insert(pool.install(|| driver::digest(&driver::run_segment(seg))));
            }
            for d in &digests {
                runs.push(
                    Json::obj()
                        .with("segment", Json::s(seg))
                        .with("threads", Json::i(t as i64))
                        .with("context", Json::s("in-pool"))
                        .with("digest", Json::s(format!("{:016x}", d)))
                        .with("repetitions", Json::i((reps / digests.len()) as i64)),
                );
            }
        }
        for n in PROBE_N {
            let mut set = BTreeSet::new();
            for _ in 0..part_reps {
                set.insert(pool.install(|| driver::partition(n)).iter().map(|l| l.len()).collect::<Vec<_>>());
            }
            parts.push(obs_json(n, t, "in-pool", &set));
        }
        // external context: child process with a global pool of t threads
        let exe = std::env::current_exe().expect("exe");
        let child = std::process::Command::new(exe)
            .arg("C05ext")
            .arg(reps.to_string())
            .arg(part_reps.to_string())
            .env("RAYON_NUM_THREADS", t.to_string())
            .output();
        match child {
            Ok(o) if o.status.success() => {
                let text = String::from_utf8_lossy(&o.stdout);
                match Json::parse(text.trim()) {
                    Ok(j) => {
                        if let Some(a) = j.get("runs").and_then(|x| x.as_arr()) {
                            runs.extend(a.iter().cloned());
                        }
                        if let Some(a) = j.get("partitions").and_then(|x| x.as_arr()) {
                            parts.extend(a.iter().cloned());
                        }
                    }
                    Err(e) => {
                        eprintln!("machinery error: cannot parse child output: {}", e);
                        return 3;
                    }
                }
            }
            other => {
                eprintln!("machinery error: external-context child failed: {:?}", other.map(|o| String::from_utf8_lossy(&o.stderr).to_string()));
                return 3;
            }
        }
    }
    let j = Json::obj().with("runs", Json::Arr(runs)).with("partitions", Json::Arr(parts));
    if let Err(e) = std::fs::write(out, j.pretty()) {
        eprintln!("machinery error: cannot write {}: {}", out, e);
        return 3;
    }
    0
}

/// Fallback verdict when the library no longer builds against the scheduler model: differential over
/// the real-rayon runs only (all digests of a segment must agree across pool sizes and contexts).
pub fn fallback(thorough: bool, conf: &str, root: &str, seed: u64) -> i32 {
    use crate::report::{finish, Ctx, Meta, Report, Tier};
    use crate::util::Kv;
    let t0 = std::time::Instant::now();
    let text = match std::fs::read_to_string(conf) {
        Ok(t) => t,
        Err(e) => {
            eprintln!("machinery error: {}", e);
            return 3;
        }
    };
    let j = Json::parse(&text).expect("conformance json");
    let mut rep = Report::new();
    let mut by_seg: std::collections::BTreeMap<String, BTreeSet<String>> = Default::default();
    for r in j.get("runs").and_then(|x| x.as_arr()).unwrap_or(&Vec::new()) {
        let seg = r.get("segment").and_then(|x| x.as_str()).unwrap_or("").to_string();
        let dg = r.get("digest").and_then(|x| x.as_str()).unwrap_or("").to_string();
        rep.states += 1;
        rep.transitions += 1;
        rep.evaluations += r.get("repetitions").and_then(|x| x.as_i64()).unwrap_or(1) as u64;
        by_seg.entry(seg).or_default().insert(dg);
    }
    rep.nontrivial = rep.states;
    rep.traces_validated = rep.evaluations;
    for (seg, set) in &by_seg {
        if set.len() > 1 {
            rep.violate(
                "C05 real rayon pools of different sizes / contexts disagree",
                format!("segment {}: digests {:?}", seg, set),
                &Kv::new().put("segment", seg).put("threads", 0).put("free", "").put("picks", "").put("kinds", "real-rayon"),
            );
        }
    }
    rep.caps.push("scheduler model does not build against this tree: real-rayon differential only".into());
    rep.sample(Kv::new().put("segment", "learn-adam-b5").put("context", "in-pool / external").to_json());
    let ctx = Ctx { prop: "C05".into(), tier: if thorough { Tier::Thorough } else { Tier::Quick }, seed, root: root.to_string(), verbose: false };
    let meta = Meta {
        rule: "FALLBACK: the same driver on real rayon pools of several sizes, in-pool and external calling context; all result digests of a segment must agree".into(),
        bound: "sampling of real schedules only".into(),
        exhaustive: false,
        assumptions: vec!["no schedule enumeration in this mode".into()],
    };
    finish(&ctx, &meta, &rep, t0.elapsed().as_secs_f64())
}
