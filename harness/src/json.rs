//! Minimal JSON value, writer and parser (std only).
use std::collections::BTreeMap;
use std::fmt::Write;

#[derive(Clone, Debug, PartialEq)]
pub enum Json {
    Null,
    Bool(bool),
    Int(i64),
    Num(f64),
    Str(String),
    Arr(Vec<Json>),
    Obj(BTreeMap<String, Json>),
}

impl Json {
    pub fn obj() -> Json {
        Json::Obj(BTreeMap::new())
    }
    pub fn set(&mut self, k: &str, v: Json) -> &mut Self {
        if let Json::Obj(m) = self {
            m.insert(k.to_string(), v);
        }
        self
    }
    pub fn with(mut self, k: &str, v: Json) -> Self {
        self.set(k, v);
        self
    }
    pub fn get(&self, k: &str) -> Option<&Json> {
        match self {
            Json::Obj(m) => m.get(k),
            _ => None,
        }
    }
    pub fn as_str(&self) -> Option<&str> {
        match self {
            Json::Str(s) => Some(s),
            _ => None,
        }
    }
    pub fn as_i64(&self) -> Option<i64> {
        match self {
            Json::Int(i) => Some(*i),
            Json::Num(f) => Some(*f as i64),
            _ => None,
        }
    }
    pub fn as_arr(&self) -> Option<&Vec<Json>> {
        match self {
            Json::Arr(a) => Some(a),
            _ => None,
        }
    }
    pub fn s(x: impl Into<String>) -> Json {
        Json::Str(x.into())
    }
    pub fn i(x: impl TryInto<i64>) -> Json {
        Json::Int(x.try_into().ok().unwrap_or(i64::MAX))
    }
    pub fn f(x: f64) -> Json {
        if x.is_finite() {
            Json::Num(x)
        } else {
            Json::Str(format!("{}", x))
        }
    }
    pub fn arr<T: Into<Json>>(v: impl IntoIterator<Item = T>) -> Json {
        Json::Arr(v.into_iter().map(|x| x.into()).collect())
    }

    pub fn dump(&self) -> String {
        let mut s = String::new();
        self.write(&mut s, 0, false);
        s
    }
    pub fn pretty(&self) -> String {
        let mut s = String::new();
        self.write(&mut s, 0, true);
        s
    }
    fn write(&self, out: &mut String, ind: usize, pretty: bool) {
        match self {
            Json::Null => out.push_str("null"),
            Json::Bool(b) => out.push_str(if *b { "true" } else { "false" }),
            Json::Int(i) => {
                let _ = write!(out, "{}", i);
            }
            Json::Num(f) => {
                if f.fract() == 0.0 && f.abs() < 1e15 {
                    let _ = write!(out, "{:.1}", f);
                } else {
                    let _ = write!(out, "{:e}", f);
                }
            }
            Json::Str(s) => {
                out.push('"');
                for c in s.chars() {
                    match c {
                        '"' => out.push_str("\\\""),
                        '\\' => out.push_str("\\\\"),
                        '\n' => out.push_str("\\n"),
                        '\t' => out.push_str("\\t"),
                        '\r' => out.push_str("\\r"),
                        c if (c as u32) < 0x20 => {
                            let _ = write!(out, "\\u{:04x}", c as u32);
                        }
                        c => out.push(c),
                    }
                }
                out.push('"');
            }
            Json::Arr(a) => {
                out.push('[');
                let simple = a.iter().all(|x| !matches!(x, Json::Arr(_) | Json::Obj(_)));
                for (i, x) in a.iter().enumerate() {
                    if i > 0 {
                        out.push(',');
                    }
                    if pretty && !simple {
                        out.push('\n');
                        out.push_str(&" ".repeat(ind + 1));
                    } else if i > 0 {
                        out.push(' ');
                    }
                    x.write(out, ind + 1, pretty);
                }
                if pretty && !simple && !a.is_empty() {
                    out.push('\n');
                    out.push_str(&" ".repeat(ind));
                }
                out.push(']');
            }
            Json::Obj(m) => {
                out.push('{');
                for (i, (k, v)) in m.iter().enumerate() {
                    if i > 0 {
                        out.push(',');
                    }
                    if pretty {
                        out.push('\n');
                        out.push_str(&" ".repeat(ind + 1));
                    } else if i > 0 {
                        out.push(' ');
                    }
                    Json::Str(k.clone()).write(out, ind + 1, pretty);
                    out.push_str(": ");
                    v.write(out, ind + 1, pretty);
                }
                if pretty && !m.is_empty() {
                    out.push('\n');
                    out.push_str(&" ".repeat(ind));
                }
                out.push('}');
            }
        }
    }

    pub fn parse(text: &str) -> Result<Json, String> {
        let mut p = Parser {
            b: text.as_bytes(),
            i: 0,
        };
        let v = p.value()?;
        p.ws();
        if p.i != p.b.len() {
            return Err(format!("trailing data at {}", p.i));
        }
        Ok(v)
    }
}

impl From<&str> for Json {
    fn from(s: &str) -> Json {
        Json::Str(s.to_string())
    }
}
impl From<String> for Json {
    fn from(s: String) -> Json {
        Json::Str(s)
    }
}
impl From<i64> for Json {
    fn from(s: i64) -> Json {
        Json::Int(s)
    }
}
impl From<u64> for Json {
    fn from(s: u64) -> Json {
        Json::i(s)
    }
}
impl From<usize> for Json {
    fn from(s: usize) -> Json {
        Json::i(s)
    }
}
impl From<f64> for Json {
    fn from(s: f64) -> Json {
        Json::f(s)
    }
}
impl From<f32> for Json {
    fn from(s: f32) -> Json {
        Json::f(s as f64)
    }
}
impl From<bool> for Json {
    fn from(s: bool) -> Json {
        Json::Bool(s)
    }
}

struct Parser<'a> {
    b: &'a [u8],
    i: usize,
}

impl<'a> Parser<'a> {
    fn ws(&mut self) {
        while self.i < self.b.len() && (self.b[self.i] as char).is_whitespace() {
            self.i += 1;
        }
    }
    fn value(&mut self) -> Result<Json, String> {
        self.ws();
        if self.i >= self.b.len() {
            return Err("eof".into());
        }
        match self.b[self.i] {
            b'{' => {
                self.i += 1;
                let mut m = BTreeMap::new();
                loop {
                    self.ws();
                    if self.b.get(self.i) == Some(&b'}') {
                        self.i += 1;
                        break;
                    }
                    let k = match self.value()? {
                        Json::Str(s) => s,
                        _ => return Err("key".into()),
                    };
                    self.ws();
                    if self.b.get(self.i) != Some(&b':') {
                        return Err(format!("expected : at {}", self.i));
                    }
                    self.i += 1;
                    let v = self.value()?;
                    m.insert(k, v);
                    self.ws();
                    match self.b.get(self.i) {
                        Some(b',') => self.i += 1,
                        Some(b'}') => {
                            self.i += 1;
                            break;
                        }
                        _ => return Err(format!("expected , or }} at {}", self.i)),
                    }
                }
                Ok(Json::Obj(m))
            }
            b'[' => {
                self.i += 1;
                let mut a = Vec::new();
                loop {
                    self.ws();
                    if self.b.get(self.i) == Some(&b']') {
                        self.i += 1;
                        break;
                    }
                    a.push(self.value()?);
                    self.ws();
                    match self.b.get(self.i) {
                        Some(b',') => self.i += 1,
                        Some(b']') => {
                            self.i += 1;
                            break;
                        }
                        _ => return Err(format!("expected , or ] at {}", self.i)),
                    }
                }
                Ok(Json::Arr(a))
            }
            b'"' => {
                self.i += 1;
                let mut s = String::new();
                loop {
                    let c = *self.b.get(self.i).ok_or("eof in string")?;
                    self.i += 1;
                    match c {
                        b'"' => break,
                        b'\\' => {
                            let e = *self.b.get(self.i).ok_or("eof in escape")?;
                            self.i += 1;
                            match e {
                                b'n' => s.push('\n'),
                                b't' => s.push('\t'),
                                b'r' => s.push('\r'),
                                b'u' => {
                                    let h = std::str::from_utf8(&self.b[self.i..self.i + 4])
                                        .map_err(|e| e.to_string())?;
                                    let cp = u32::from_str_radix(h, 16).map_err(|e| e.to_string())?;
                                    s.push(char::from_u32(cp).unwrap_or('?'));
                                    self.i += 4;
                                }
                                other => s.push(other as char),
                            }
                        }
                        _ => {
                            // copy a utf-8 sequence verbatim
                            let start = self.i - 1;
                            let mut end = self.i;
                            while end < self.b.len() && (self.b[end] & 0xC0) == 0x80 {
                                end += 1;
                            }
                            s.push_str(std::str::from_utf8(&self.b[start..end]).map_err(|e| e.to_string())?);
                            self.i = end;
                        }
                    }
                }
                Ok(Json::Str(s))
            }
            b't' if self.b[self.i..].starts_with(b"true") => {
                self.i += 4;
                Ok(Json::Bool(true))
            }
            b'f' if self.b[self.i..].starts_with(b"false") => {
                self.i += 5;
                Ok(Json::Bool(false))
            }
            b'n' if self.b[self.i..].starts_with(b"null") => {
                self.i += 4;
                Ok(Json::Null)
            }
            _ => {
                let st = self.i;
                while self.i < self.b.len()
                    && matches!(self.b[self.i], b'0'..=b'9' | b'-' | b'+' | b'.' | b'e' | b'E')
                {
                    self.i += 1;
                }
                let t = std::str::from_utf8(&self.b[st..self.i]).map_err(|e| e.to_string())?;
                if let Ok(i) = t.parse::<i64>() {
                    Ok(Json::Int(i))
                } else {
                    t.parse::<f64>().map(Json::Num).map_err(|e| format!("number {:?}: {}", t, e))
                }
            }
        }
    }
}
