//! nv — bounded-exhaustive checks of the neurons library.  usage: nv <Cnn> <quick|thorough> | nv <Cnn> --replay <file>
#![allow(dead_code)]
mod c05conf;
mod gen;
mod json;
mod libnet;
mod props;
mod refmodel;
mod report;
mod spec;
#[macro_use]
mod util;

use report::{Ctx, Meta, Report, Tier};
use util::Kv;

struct PropDef {
    id: &'static str,
    meta: fn(&Ctx) -> Meta,
    run: fn(&Ctx) -> Report,
    replay: fn(&Ctx, &Kv) -> Report,
}

macro_rules! prop {
    ($id:expr, $m:ident) => {
        PropDef { id: $id, meta: props::$m::meta, run: props::$m::run, replay: props::$m::replay }
    };
}

fn registry() -> Vec<PropDef> {
    vec![prop!("C01", c01), prop!("C02", c02), prop!("C03", c03), prop!("C04", c04), prop!("C06", c06), prop!("C07", c07), prop!("C08", c08), prop!("C09", c09), prop!("C10", c10), prop!("C11", c11), prop!("C12", c12), prop!("C13", c13), prop!("C14", c14), prop!("C15", c15), prop!("C16", c16), prop!("C17", c17), prop!("C18", c18)]
}

fn main() {
    let args: Vec<String> = std::env::args().collect();
    if args.len() < 3 {
        eprintln!("usage: nv <Cnn> <quick|thorough>   |   nv <Cnn> --replay <file>");
        std::process::exit(2);
    }
    let id = args[1].clone();
    if id == "C05conf" {
        util::silence_panics();
        let out = args.get(3).cloned().unwrap_or_else(|| "/verif/target/c05-conf.json".to_string());
        std::process::exit(c05conf::conformance(args[2] == "thorough", &out));
    }
    if id == "C05fallback" {
        util::silence_panics();
        util::divert_stdout();
        let root = std::env::var("VERIF_ROOT").unwrap_or_else(|_| "/verif".to_string());
        let seed: u64 = std::env::var("VERIF_SEED").ok().and_then(|s| s.parse::<i64>().ok()).map(|x| x as u64).unwrap_or(0);
        let conf = args.get(3).cloned().unwrap_or_else(|| "/verif/target/c05-conf.json".to_string());
        std::process::exit(c05conf::fallback(args[2] == "thorough", &conf, &root, seed));
    }
    if id == "C05ext" {
        let reps: usize = args[2].parse().unwrap_or(2);
        let part_reps: usize = args.get(3).and_then(|s| s.parse().ok()).unwrap_or(100);
        // the library prints from learn(): keep our JSON on the real stdout only
        util::silence_panics();
        util::divert_stdout();
        let j = c05conf::external(reps, part_reps);
        say!("{}", j.dump());
        std::process::exit(0);
    }
    let reg = registry();
    let def = match reg.iter().find(|d| d.id == id) {
        Some(d) => d,
        None => {
            eprintln!("machinery error: unknown property {}", id);
            std::process::exit(2);
        }
    };
    let root = std::env::var("VERIF_ROOT").unwrap_or_else(|_| "/verif".to_string());
    let seed: u64 = std::env::var("VERIF_SEED").ok().and_then(|s| s.parse::<i64>().ok()).map(|x| x as u64).unwrap_or(0);
    util::silence_panics();
    util::divert_stdout();

    if args[2] == "--replay" {
        let path = args.get(3).cloned().unwrap_or_default();
        let text = std::fs::read_to_string(&path).unwrap_or_else(|e| {
            eprintln!("machinery error: cannot read {}: {}", path, e);
            std::process::exit(2);
        });
        let j = json::Json::parse(&text).unwrap_or_else(|e| {
            eprintln!("machinery error: cannot parse {}: {}", path, e);
            std::process::exit(2);
        });
        let case = Kv::from_json(j.get("case").unwrap_or(&json::Json::Null));
        let rseed = j.get("seed").and_then(|s| s.as_i64()).map(|x| x as u64).unwrap_or(seed);
        let ctx = Ctx { prop: id.clone(), tier: Tier::Quick, seed: rseed, root, verbose: true };
        say!("replaying {} case: {}", id, case.short());
        let rep = (def.replay)(&ctx, &case);
        if rep.violations.is_empty() {
            say!("replay: the case satisfies the property on the current tree");
            std::process::exit(0);
        }
        for v in &rep.violations {
            say!("replay: VIOLATION property={} key=[{}]\n  {}", id, v.key, v.what);
        }
        std::process::exit(1);
    }

    let tier = match args[2].as_str() {
        "quick" => Tier::Quick,
        "thorough" => Tier::Thorough,
        other => {
            eprintln!("machinery error: unknown tier {}", other);
            std::process::exit(2);
        }
    };
    let ctx = Ctx { prop: id.clone(), tier, seed, root, verbose: false };
    let t0 = std::time::Instant::now();
    let meta = (def.meta)(&ctx);
    let rep = match util::guard(|| (def.run)(&ctx)) {
        Ok(r) => r,
        Err(e) => {
            eprintln!("machinery error: explorer for {} panicked: {}", id, e);
            std::process::exit(3);
        }
    };
    let code = report::finish(&ctx, &meta, &rep, t0.elapsed().as_secs_f64());
    std::process::exit(code);
}
