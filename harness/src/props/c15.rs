//! C15 — element-wise tensor arithmetic is exact, rank-generic and shape-checked.
use crate::json::Json;
use crate::libnet::flat;
use crate::report::{Ctx, Meta, Report};
use crate::util::{guard, par_map, Kv};
use neurons::tensor::{Data, Shape, Tensor};

pub fn meta(_ctx: &Ctx) -> Meta {
    Meta {
        rule: "ops {add,sub,mul,hadamard*scalar,div-by-scalar,mean over k=1..4 (also on operands near +-f32::MAX whose sum leaves the range while their mean does not)} x ranks 1-D..4-D (nested lists for add/div) x all shapes with extents in {1,2,3} x operand valuations covering ALL 169 ordered pairs over V={0,-0,1,-1,0.1,3,-7.5,2^-149,1e-30,1e30,MAX,5,1e-5} (cycled through the elements with every offset), plus operands that are entirely within 1e-5 of 1 or of 0 without being all ones / zeros, x scalars {1,0.5,2,-4,3,7,0.1,1e-39,3e38}; every ordered pair of different shapes of the lattice (and the empty vector against every shape, both ways round) must be refused by add/sub/mul/hadamard/mean, and by add/sub/mul on nested lists holding the two shapes (as the only, the first or the second member); product/dot/transpose on integer data (r,c <= 4, and 1x33, 33x1, 4x40, 64x10, 10x65, 100x100, 3x257); the element-wise operations also on a vector of 1000, 40x40, 3x65, 2x33x5, 3x3x17x2; the free functions hadamard3d and pad3d on all CxHxW with extents <= 3; clamp over V x intervals incl. degenerate. Oracle: the single IEEE f32 operation per element, bit-exact. Non-trivial = case with >=2 elements or a shape-mismatch pair".into(),
        bound: "extents <= 3 per axis, k <= 4, matrices <= 4x4; complete within the bound (thorough: extents <= 5, k <= 8, matrices <= 8x8)".into(),
        exhaustive: true,
        assumptions: vec!["hadamard: any association of a*b*scalar is accepted".into(), "mean: bit-exact on integer operands (exact sum, one rounding of the quotient); on general operands within the any-order summation bound eps*(k+2)*sum|x|/(k+1) of the f64 value".into()],
    }
}

const V: [f32; 13] = [0.0, -0.0, 1.0, -1.0, 0.1, 3.0, -7.5, 1.0e-45, 1.0e-30, 1.0e30, f32::MAX, 5.0, 1.0e-5];

fn shapes(maxext: usize) -> Vec<Vec<usize>> {
    let mut v = Vec::new();
    for rank in 1..=4usize {
        let mut idx = vec![1usize; rank];
        loop {
            v.push(idx.clone());
            let mut i = rank;
            loop {
                if i == 0 {
                    break;
                }
                i -= 1;
                if idx[i] < maxext {
                    idx[i] += 1;
                    for j in i + 1..rank {
                        idx[j] = 1;
                    }
                    break;
                }
                if i == 0 {
                    i = usize::MAX;
                    break;
                }
            }
            if i == usize::MAX {
                break;
            }
        }
    }
    v
}

fn sname(s: &[usize]) -> String {
    s.iter().map(|x| x.to_string()).collect::<Vec<_>>().join("x")
}
fn sparse(s: &str) -> Vec<usize> {
    s.split('x').map(|x| x.parse().unwrap()).collect()
}
fn count(s: &[usize]) -> usize {
    s.iter().product()
}

pub fn mk(s: &[usize], d: &[f32]) -> Tensor {
    assert_eq!(count(s), d.len());
    match s.len() {
        1 => Tensor { shape: Shape::Single(s[0]), data: Data::Single(d.to_vec()) },
        2 => Tensor {
            shape: Shape::Double(s[0], s[1]),
            data: Data::Double((0..s[0]).map(|i| d[i * s[1]..(i + 1) * s[1]].to_vec()).collect()),
        },
        3 => {
            let mut it = d.iter();
            Tensor {
                shape: Shape::Triple(s[0], s[1], s[2]),
                data: Data::Triple(
                    (0..s[0]).map(|_| (0..s[1]).map(|_| (0..s[2]).map(|_| *it.next().unwrap()).collect()).collect()).collect(),
                ),
            }
        }
        4 => {
            let mut it = d.iter();
            Tensor {
                shape: Shape::Quadruple(s[0], s[1], s[2], s[3]),
                data: Data::Quadruple(
                    (0..s[0])
                        .map(|_| {
                            (0..s[1])
                                .map(|_| (0..s[2]).map(|_| (0..s[3]).map(|_| *it.next().unwrap()).collect()).collect())
                                .collect()
                        })
                        .collect(),
                ),
            }
        }
        _ => panic!("rank"),
    }
}

fn expect_shape(s: &[usize]) -> Shape {
    match s.len() {
        1 => Shape::Single(s[0]),
        2 => Shape::Double(s[0], s[1]),
        3 => Shape::Triple(s[0], s[1], s[2]),
        _ => Shape::Quadruple(s[0], s[1], s[2], s[3]),
    }
}

fn same(a: f32, b: f32) -> bool {
    a.to_bits() == b.to_bits() || (a.is_nan() && b.is_nan())
}

const NEAR1: [f32; 6] = [1.000_004, 0.999_996, 1.0, 0.999_999_94, 1.000_000_1, 1.000_009];
const NEAR0: [f32; 6] = [4.0e-6, -4.0e-6, 0.0, 1.0e-7, -0.0, 9.0e-6];
const SCALARS: [f32; 9] = [1.0, 0.5, 2.0, -4.0, 3.0, 7.0, 0.1, 1.0e-39, 3.0e38];

pub fn check(case: &Kv, rep: &mut Report) {
    rep.states += 1;
    rep.evaluations += 1;
    let op = case.get("op").to_string();
    match op.as_str() {
        "add" | "sub" | "mul" | "hadamard" | "div" => {
            let s = sparse(case.get("shape"));
            let n = count(&s);
            let off = case.usize("off");
            let scalar = case.opt("scalar").map(|x| x.parse::<f32>().unwrap()).unwrap_or(1.0);
            let mut a: Vec<f32> = (0..n).map(|e| V[((off + e) % 169) / 13]).collect();
            let mut b: Vec<f32> = (0..n).map(|e| V[((off + e) % 169) % 13]).collect();
            // a whole operand within 1e-5 of a constant (all ones / all zeros) without being that constant
            if let Some(near) = case.opt("near") {
                let set = if near.starts_with("one") { NEAR1 } else { NEAR0 };
                let v: Vec<f32> = (0..n).map(|e| set[(off + e) % 6]).collect();
                if near.ends_with("-b") {
                    b = v;
                } else {
                    a = v;
                }
            }
            if n >= 2 {
                rep.nontrivial += 1;
            }
            let nested = case.opt("nested").is_some();
            let mut t = mk(&s, &a);
            let o = mk(&s, &b);
            rep.transitions += 1;
            let res = guard(|| {
                if nested {
                    // the same operands wrapped in a nested list of two tensors
                    let mut nt = Tensor::nested(vec![t.clone(), t.clone()]);
                    match op.as_str() {
                        "add" => nt.add_inplace(&Tensor::nested(vec![o.clone(), o.clone()])),
                        "div" => nt.div_scalar_inplace(scalar),
                        _ => unreachable!(),
                    }
                    let parts = nt.unnested();
                    assert!(parts.len() == 2, "nested result has {} parts", parts.len());
                    let f0 = flat(&parts[0]).unwrap();
                    let f1 = flat(&parts[1]).unwrap();
                    assert!(f0.1.iter().zip(&f1.1).all(|(x, y)| same(*x, *y)), "nested parts differ");
                    t = parts[0].clone();
                } else {
                    match op.as_str() {
                        "add" => t.add_inplace(&o),
                        "sub" => t.sub_inplace(&o),
                        "mul" => t.mul_inplace(&o),
                        "hadamard" => t.hadamard(&o, scalar),
                        "div" => t.div_scalar_inplace(scalar),
                        _ => unreachable!(),
                    }
                }
                t
            });
            let t = match res {
                Ok(t) => t,
                Err(e) => {
                    rep.violate(format!("C15 {} rank{} panics", op, s.len()), e, case);
                    return;
                }
            };
            let (sh, got) = match flat(&t) {
                Ok(x) => x,
                Err(e) => {
                    rep.violate(format!("C15 {} rank{} shape/data", op, s.len()), e, case);
                    return;
                }
            };
            if sh != expect_shape(&s) || got.len() != n {
                rep.violate(format!("C15 {} rank{} shape changed", op, s.len()), format!("shape {:?}", sh), case);
                return;
            }
            for e in 0..n {
                let ok = match op.as_str() {
                    "add" => same(got[e], a[e] + b[e]),
                    "sub" => same(got[e], a[e] - b[e]),
                    "mul" => same(got[e], a[e] * b[e]),
                    "div" => same(got[e], a[e] / scalar),
                    "hadamard" => {
                        same(got[e], a[e] * b[e] * scalar) || same(got[e], a[e] * (b[e] * scalar)) || same(got[e], (a[e] * scalar) * b[e])
                    }
                    _ => unreachable!(),
                };
                if !ok {
                    rep.violate(
                        format!("C15 {} rank{}{} value", op, s.len(), if nested { " nested" } else { "" }),
                        format!("element {}: a={:e} b={:e} scalar={} -> {:e}", e, a[e], b[e], scalar, got[e]),
                        case,
                    );
                    return;
                }
            }
        }
        "mean" => {
            let s = sparse(case.get("shape"));
            let n = count(&s);
            let k = case.usize("k");
            let off = case.usize("off");
            let exact = case.get("data") == "int";
            let big = case.get("data") == "big";
            if n >= 2 {
                rep.nontrivial += 1;
            }
            let val = |t: usize, e: usize| -> f32 {
                if exact {
                    // small integers, sum exact
                    (((off + 7 * t + 3 * e) % 41) as f32) - 20.0
                } else if big {
                    // operands near the end of the range: their sum leaves it, their mean does not
                    const B: [f32; 8] = [f32::MAX, 3.0e38, -3.0e38, 1.0e38, 2.0e38, -f32::MAX, 1.0, 0.0];
                    B[(off + 3 * t + e) % 8]
                } else {
                    const W: [f32; 9] = [0.0, -0.0, 1.0, -1.0, 0.1, 3.0, -7.5, 1.0e-45, 1.0e-30];
                    W[(off + 5 * t + e) % 9]
                }
            };
            let mut t = mk(&s, &(0..n).map(|e| val(0, e)).collect::<Vec<_>>());
            let others: Vec<Tensor> = (1..=k).map(|j| mk(&s, &(0..n).map(|e| val(j, e)).collect::<Vec<_>>())).collect();
            rep.transitions += 1;
            let res = guard(|| {
                let refs: Vec<&Tensor> = others.iter().collect();
                t.mean_inplace(&refs);
                t
            });
            let t = match res {
                Ok(t) => t,
                Err(e) => {
                    rep.violate(format!("C15 mean rank{} panics", s.len()), e, case);
                    return;
                }
            };
            let (sh, got) = match flat(&t) {
                Ok(x) => x,
                Err(e) => {
                    rep.violate(format!("C15 mean rank{} shape/data", s.len()), e, case);
                    return;
                }
            };
            if sh != expect_shape(&s) {
                rep.violate(format!("C15 mean rank{} shape changed", s.len()), format!("shape {:?}", sh), case);
                return;
            }
            for e in 0..n {
                let sum: f64 = (0..=k).map(|j| val(j, e) as f64).sum();
                let want = sum / (k + 1) as f64;
                let ok = if exact {
                    same(got[e], (sum as f32) / (k + 1) as f32) || got[e] == want as f32
                } else {
                    // standard bound for a sum of k+1 floats in any order, then one division
                    let sum_abs: f64 = (0..=k).map(|j| (val(j, e) as f64).abs()).sum();
                    let tol = f32::EPSILON as f64 * (k as f64 + 2.0) * sum_abs / (k + 1) as f64 + 2e-45;
                    (got[e] as f64 - want).abs() <= tol
                };
                if !ok {
                    rep.violate(
                        format!("C15 mean rank{} value", s.len()),
                        format!("element {}: operands {:?} -> {:e}, expected {:e}", e, (0..=k).map(|j| val(j, e)).collect::<Vec<_>>(), got[e], want),
                        case,
                    );
                    return;
                }
            }
        }
        "mismatch" => {
            let sa = sparse(case.get("a"));
            let sb = sparse(case.get("b"));
            rep.nontrivial += 1;
            let a: Vec<f32> = (0..count(&sa)).map(|i| i as f32 + 1.0).collect();
            let b: Vec<f32> = (0..count(&sb)).map(|i| i as f32 + 2.0).collect();
            for o in ["add", "sub", "mul", "hadamard", "mean"] {
                let mut t = mk(&sa, &a);
                let u = mk(&sb, &b);
                rep.transitions += 1;
                let r = guard(|| {
                    match o {
                        "add" => t.add_inplace(&u),
                        "sub" => t.sub_inplace(&u),
                        "mul" => t.mul_inplace(&u),
                        "hadamard" => t.hadamard(&u, 1.0),
                        _ => t.mean_inplace(&vec![&u]),
                    }
                    t
                });
                if r.is_ok() {
                    rep.violate(format!("C15 {} accepts mismatched shapes", o), format!("{} with {} was not refused", sname(&sa), sname(&sb)), case);
                }
            }
            // the mean over k tensors must refuse a mismatch in ANY operand, not only the first
            for bad_at in 1..3usize {
                let mut t = mk(&sa, &a);
                let ok = mk(&sa, &a);
                let u = mk(&sb, &b);
                rep.transitions += 1;
                let r = guard(|| {
                    let mut others: Vec<&Tensor> = vec![&ok; bad_at];
                    others.push(&u);
                    t.mean_inplace(&others);
                    t
                });
                if r.is_ok() {
                    rep.violate("C15 mean accepts mismatched shapes", format!("{} with a later operand {} (position {}) was not refused", sname(&sa), sname(&sb), bad_at + 1), case);
                }
            }
            // the same mismatch inside nested lists (any rank; in the only, the first or the second member of the list)
            for o in ["add", "sub", "mul"] {
                for place in 0..3usize {
                    let (l1, l2) = match place {
                        0 => (vec![mk(&sa, &a)], vec![mk(&sb, &b)]),
                        1 => (vec![mk(&sa, &a), mk(&sa, &a)], vec![mk(&sb, &b), mk(&sa, &a)]),
                        _ => (vec![mk(&sa, &a), mk(&sa, &a)], vec![mk(&sa, &a), mk(&sb, &b)]),
                    };
                    let mut n1 = Tensor::nested(l1);
                    let n2 = Tensor::nested(l2);
                    rep.transitions += 1;
                    let r = guard(|| match o {
                        "add" => n1.add_inplace(&n2),
                        "sub" => n1.sub_inplace(&n2),
                        _ => n1.mul_inplace(&n2),
                    });
                    if r.is_ok() {
                        rep.violate(format!("C15 {} accepts mismatched shapes", o), format!("nested lists whose members are {} and {} (place {}) were not refused", sname(&sa), sname(&sb), place), case);
                    }
                }
            }
            // nested lists of different length
            if sa.len() == 1 && sb.len() == 1 {
                let mut n1 = Tensor::nested(vec![mk(&sa, &a); 2]);
                let n2 = Tensor::nested(vec![mk(&sb, &b); 2]);
                rep.transitions += 1;
                if guard(|| n1.add_inplace(&n2)).is_ok() {
                    rep.violate("C15 add accepts mismatched shapes", "nested lists with different inner shapes were not refused", case);
                }
                let mut n3 = Tensor::nested(vec![mk(&sa, &a); 2]);
                let n4 = Tensor::nested(vec![mk(&sa, &a); 3]);
                rep.transitions += 1;
                if guard(|| n3.add_inplace(&n4)).is_ok() {
                    rep.violate("C15 add accepts mismatched shapes", "nested lists of different length were not refused", case);
                }
            }
        }
        "linalg" => {
            let r = case.usize("r");
            let c = case.usize("c");
            let off = case.usize("off");
            rep.nontrivial += 1;
            let m: Vec<f32> = (0..r * c).map(|i| ((off + 5 * i) % 13) as f32 - 6.0).collect();
            let v: Vec<f32> = (0..c).map(|i| ((off + 3 * i) % 7) as f32 - 3.0).collect();
            let u: Vec<f32> = (0..r).map(|i| ((off + 2 * i) % 9) as f32 - 4.0).collect();
            let mt = mk(&[r, c], &m);
            let vt = mk(&[c], &v);
            let ut = mk(&[r], &u);
            rep.transitions += 3;
            match guard(|| (mt.dot(&vt), ut.product(&vt), mt.transpose())) {
                Err(e) => rep.violate("C15 linalg panics", e, case),
                Ok((d, p, t)) => {
                    match flat(&d) {
                        Ok((Shape::Single(n), dv)) if n == r => {
                            for i in 0..r {
                                let want: f32 = (0..c).map(|j| m[i * c + j] * v[j]).sum();
                                if dv[i] != want {
                                    rep.violate("C15 dot value", format!("row {}: {} expected {}", i, dv[i], want), case);
                                    break;
                                }
                            }
                        }
                        Ok((s, _)) => rep.violate("C15 dot shape", format!("{:?}", s), case),
                        Err(e) => rep.violate("C15 dot shape/data", e, case),
                    }
                    match flat(&p) {
                        Ok((Shape::Double(a, b), pv)) if a == r && b == c => {
                            for i in 0..r {
                                for j in 0..c {
                                    if pv[i * c + j] != u[i] * v[j] {
                                        rep.violate("C15 product value", format!("[{}][{}] = {} expected {}", i, j, pv[i * c + j], u[i] * v[j]), case);
                                        return;
                                    }
                                }
                            }
                        }
                        Ok((s, _)) => rep.violate("C15 product shape", format!("{:?}", s), case),
                        Err(e) => rep.violate("C15 product shape/data", e, case),
                    }
                    match flat(&t) {
                        Ok((Shape::Double(a, b), tv)) if a == c && b == r => {
                            for i in 0..r {
                                for j in 0..c {
                                    if tv[j * r + i].to_bits() != m[i * c + j].to_bits() {
                                        rep.violate("C15 transpose value", format!("[{}][{}]", j, i), case);
                                        return;
                                    }
                                }
                            }
                        }
                        Ok((s, _)) => rep.violate("C15 transpose shape", format!("{:?}", s), case),
                        Err(e) => rep.violate("C15 transpose shape/data", e, case),
                    }
                }
            }
        }
        "clamp" => {
            let s = sparse(case.get("shape"));
            let n = count(&s);
            let off = case.usize("off");
            let lo = case.f32("lo");
            let hi = case.f32("hi");
            if n >= 2 {
                rep.nontrivial += 1;
            }
            let a: Vec<f32> = (0..n).map(|e| V[(off + e) % 13]).collect();
            rep.transitions += 1;
            match guard(|| mk(&s, &a).clamp(lo, hi)) {
                Err(e) => rep.violate(format!("C15 clamp rank{} panics", s.len()), e, case),
                Ok(t) => match flat(&t) {
                    Ok((sh, got)) => {
                        if sh != expect_shape(&s) {
                            rep.violate(format!("C15 clamp rank{} shape changed", s.len()), format!("{:?}", sh), case);
                            return;
                        }
                        for e in 0..n {
                            let want = if a[e] < lo {
                                lo
                            } else if a[e] > hi {
                                hi
                            } else {
                                a[e]
                            };
                            if !(got[e] >= lo && got[e] <= hi) || got[e] != want {
                                rep.violate(
                                    format!("C15 clamp rank{} value", s.len()),
                                    format!("clamp({:e}, {}, {}) = {:e}", a[e], lo, hi, got[e]),
                                    case,
                                );
                                return;
                            }
                        }
                    }
                    Err(e) => rep.violate(format!("C15 clamp rank{} shape/data", s.len()), e, case),
                },
            }
        }
        "free3d" => {
            // tensor::hadamard3d (scaled element-wise product of nested vectors), pad3d (centred zero padding) and
            // upsample3d (zero stuffing) against their definitions
            let (c, h, w) = (case.usize("c"), case.usize("h"), case.usize("w"));
            let off = case.usize("off");
            rep.nontrivial += 1;
            let n = c * h * w;
            let a: Vec<f32> = (0..n).map(|e| V[((off + e) % 169) / 13]).collect();
            let b: Vec<f32> = (0..n).map(|e| V[((off + e) % 169) % 13]).collect();
            let nest = |v: &[f32]| -> Vec<Vec<Vec<f32>>> { (0..c).map(|i| (0..h).map(|j| v[(i * h + j) * w..(i * h + j + 1) * w].to_vec()).collect()).collect() };
            for sc in [1.0f32, 0.5, 3.0] {
                rep.transitions += 1;
                match guard(|| neurons::tensor::hadamard3d(&nest(&a), &nest(&b), sc)) {
                    Ok(r) => {
                        let ok_shape = r.len() == c && r.iter().all(|x| x.len() == h && x.iter().all(|y| y.len() == w));
                        let fl: Vec<f32> = r.iter().flatten().flatten().copied().collect();
                        if !ok_shape || (0..n).any(|e| !(same(fl[e], a[e] * b[e] * sc) || same(fl[e], a[e] * (b[e] * sc)) || same(fl[e], (a[e] * sc) * b[e]))) {
                            rep.violate("C15 hadamard3d value", format!("{}x{}x{} scalar {}", c, h, w, sc), case);
                        }
                    }
                    Err(e) => rep.violate("C15 hadamard3d panics", e, case),
                }
            }
            let ints: Vec<f32> = (0..n).map(|e| (e + 1) as f32).collect();
            for (ph, pw) in [(0usize, 0usize), (1, 0), (1, 2), (2, 2)] {
                rep.transitions += 1;
                match guard(|| neurons::tensor::pad3d(&nest(&ints), (h + 2 * ph, w + 2 * pw))) {
                    Ok(r) => {
                        let mut ok = r.len() == c && r.iter().all(|x| x.len() == h + 2 * ph && x.iter().all(|y| y.len() == w + 2 * pw));
                        if ok {
                            for i in 0..c {
                                for j in 0..h + 2 * ph {
                                    for k in 0..w + 2 * pw {
                                        let inside = j >= ph && j < ph + h && k >= pw && k < pw + w;
                                        let want = if inside { ints[(i * h + j - ph) * w + k - pw] } else { 0.0 };
                                        ok &= r[i][j][k] == want;
                                    }
                                }
                            }
                        }
                        if !ok {
                            rep.violate("C15 pad3d value", format!("{}x{}x{} padded by ({},{})", c, h, w, ph, pw), case);
                        }
                    }
                    Err(e) => rep.violate("C15 pad3d panics", e, case),
                }
            }
        }
        other => panic!("unknown C15 op {}", other),
    }
}

pub fn cases(thorough: bool) -> Vec<Kv> {
    // deeper bound (thorough): extents <= 5 per axis, means over up to 8 operands, matrices up to 8x8
    let (maxext, kmax, mmax) = if thorough { (5usize, 8usize, 8usize) } else { (3usize, 4usize, 4usize) };
    let sh = shapes(maxext);
    let mut out = Vec::new();
    for s in &sh {
        let n = count(s);
        let offsets: Vec<usize> = (0..169).step_by(n.min(169)).collect();
        for op in ["add", "sub", "mul"] {
            for off in &offsets {
                out.push(Kv::new().put("op", op).put("shape", sname(s)).put("off", off));
            }
        }
        for sc in SCALARS {
            for off in &offsets {
                if sc == 1.0e-39 || sc == 3.0e38 {
                    continue; // the three associations of a*b*s differ by overflow/underflow there
                }
                out.push(Kv::new().put("op", "hadamard").put("shape", sname(s)).put("off", off).put("scalar", sc));
            }
            for off in (0..169).step_by((13 * n).min(169)) {
                out.push(Kv::new().put("op", "div").put("shape", sname(s)).put("off", off).put("scalar", sc));
                out.push(Kv::new().put("op", "div").put("shape", sname(s)).put("off", off).put("scalar", sc).put("nested", 1));
            }
        }
        for off in &offsets {
            out.push(Kv::new().put("op", "add").put("shape", sname(s)).put("off", off).put("nested", 1));
        }
        // operands that are "almost" the all-ones / all-zeros tensor
        for near in ["one", "zero", "one-b", "zero-b"] {
            for off in [0usize, 1, 7] {
                for op in ["add", "sub", "mul"] {
                    out.push(Kv::new().put("op", op).put("shape", sname(s)).put("off", off).put("near", near));
                }
                for sc in [1.0f32, 0.5, 3.0] {
                    out.push(Kv::new().put("op", "hadamard").put("shape", sname(s)).put("off", off).put("scalar", sc).put("near", near));
                }
            }
        }
        for k in 1..=kmax {
            for off in 0..5 {
                out.push(Kv::new().put("op", "mean").put("shape", sname(s)).put("k", k).put("off", off * 9 + k).put("data", "int"));
                out.push(Kv::new().put("op", "mean").put("shape", sname(s)).put("k", k).put("off", off * 2 + k).put("data", "gen"));
                if k > 4 {
                    continue;
                }
                out.push(Kv::new().put("op", "mean").put("shape", sname(s)).put("k", k).put("off", off + k).put("data", "big"));
            }
        }
        for (lo, hi) in [(-1.0f32, 1.0f32), (0.0, 0.5), (0.3, 0.3), (-1e30, 1e30), (-0.0, 0.0), (2.0, 1e38)] {
            for off in (0..13).step_by(n.min(13)) {
                out.push(Kv::new().put("op", "clamp").put("shape", sname(s)).put("off", off).put("lo", lo).put("hi", hi));
            }
        }
    }
    for a in &sh {
        for b in &sh {
            if a != b {
                out.push(Kv::new().put("op", "mismatch").put("a", sname(a)).put("b", sname(b)));
            }
        }
        // the empty vector (the library's own placeholder for "nothing yet") against every shape, both ways round
        let empty = vec![0usize];
        out.push(Kv::new().put("op", "mismatch").put("a", sname(&empty)).put("b", sname(a)));
        out.push(Kv::new().put("op", "mismatch").put("a", sname(a)).put("b", sname(&empty)));
    }
    for c in 1..=maxext {
        for h in 1..=maxext {
            for w in 1..=maxext {
                for off in [0usize, 17, 60, 111] {
                    out.push(Kv::new().put("op", "free3d").put("c", c).put("h", h).put("w", w).put("off", off));
                }
            }
        }
    }
    // beyond the small bound: wide / tall / large matrices for dot, product, transpose; long vectors and large matrices
    // for the element-wise operations
    for (r, c) in [(1usize, 33usize), (33, 1), (4, 40), (64, 10), (10, 65), (100, 100), (3, 257)] {
        out.push(Kv::new().put("op", "linalg").put("r", r).put("c", c).put("off", r + c));
    }
    for sh in [vec![1000usize], vec![33], vec![40, 40], vec![3, 65], vec![2, 33, 5], vec![3, 3, 17, 2]] {
        for op in ["add", "sub", "mul"] {
            out.push(Kv::new().put("op", op).put("shape", sname(&sh)).put("off", 7));
        }
        out.push(Kv::new().put("op", "hadamard").put("shape", sname(&sh)).put("off", 11).put("scalar", 3.0));
        out.push(Kv::new().put("op", "div").put("shape", sname(&sh)).put("off", 13).put("scalar", 7.0));
        out.push(Kv::new().put("op", "mean").put("shape", sname(&sh)).put("k", 3).put("off", 5).put("data", "int"));
        out.push(Kv::new().put("op", "clamp").put("shape", sname(&sh)).put("off", 3).put("lo", -1.0).put("hi", 1.0));
    }
    for r in 1..=mmax {
        for c in 1..=mmax {
            for off in 0..6 {
                out.push(Kv::new().put("op", "linalg").put("r", r).put("c", c).put("off", off));
            }
        }
    }
    out
}

pub fn run(ctx: &Ctx) -> Report {
    let cs = cases(ctx.tier.thorough());
    let parts = par_map(&cs, |_, c| {
        let mut r = Report::new();
        check(c, &mut r);
        r
    });
    let mut rep = Report::new();
    rep.merge_all(parts);
    for i in [0usize, 1000, 9000, 20000, cs.len() - 1] {
        rep.sample(cs[i.min(cs.len() - 1)].to_json());
    }
    rep.notes.insert("cases".into(), Json::i(cs.len() as i64));
    rep.traces_validated = rep.states;
    rep
}

pub fn replay(_ctx: &Ctx, case: &Kv) -> Report {
    let mut r = Report::new();
    check(case, &mut r);
    r
}
