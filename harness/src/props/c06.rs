//! C06 — objective functions return the documented loss and gradient.
use crate::json::Json;
use crate::libnet::{flat_dims, tensor};
use crate::refmodel::num::{Dual, Num};
use crate::refmodel::objective::{self as ro, Obj, EPS, OBJ7};
use crate::report::{Ctx, Meta, Report};
use crate::spec::Dims;
use crate::util::{guard, par_map, Kv};
use neurons::objective::Function;

pub fn meta(_ctx: &Ctx) -> Meta {
    Meta {
        rule: "7 objectives x clamps {none,(-0.2,0.2),(-1,1),(0,0.5),(0.3,0.3),(-inf,0.2),(-0.2,inf),(-inf,inf)} x ranks {vector n<=3; 1x1xn, nx1x1, 1xnx1; 2x2x2; vectors of 9, 10, 17, 40, 100 and tensors 1x3x3, 3x3x3, 2x4x5 with every rotation of the pair list; image-sized outputs 2x32x32, 3x40x30, 1x64x64, 8x16x16, 4x3x300 and vectors of 3600 / 4096 with every third rotation} x ALL tuples of (prediction,target) pairs over the in-domain alphabets incl. boundaries: regression {-2,-0.5,0,0.5,1,3}^2 (plus, in tuples of <= 2 pairs, the near-equal values {0.5, next float after 0.5, 0, -0, +-1e-8, 1e-22, 1e-25, -1e-30} (differences whose square underflows)), probabilistic predictions {0,1e-7,1e-6,0.25,0.5,1-1e-6,1} x targets {0,0.25,0.5,1}. Oracles: documented loss/gradient formulas (f64), gradient shape = prediction shape, clamped gradient = clamp(unclamped) bit-exact, CxHxW result = vector result bit-exact, dual-number derivative of the reference loss for AE/MSE/BCE/KL away from kinks and the eps-clamp, loss finite. Non-trivial = tuple with >=2 distinct pairs or a boundary value".into(),
        bound: "tuples of n <= 3 pairs complete (thorough: n <= 4 on vectors); 2x2x2 and the larger shapes with all 36 / 28 rotations of the pair list".into(),
        exhaustive: true,
        assumptions: vec![
            "RMSE gradient read as -(a-p)/(sqrt((a-p)^2)*n), the grouping the documentation's formula leaves open".into(),
            "0*ln(0) = 0 in KL-divergence (the loss must be finite for targets that are exactly 0)".into(),
            "tolerance 2e-5 relative + 1e-6 absolute on losses and gradients; the loss of n elements additionally gets n*6e-8 relative (a sequential single-precision sum of n same-signed terms is off by up to n-1 roundings)".into(),
        ],
    }
}

const REG: [f32; 6] = [-2.0, -0.5, 0.0, 0.5, 1.0, 3.0];
const NEAR: [f32; 9] = [0.5, 0.500_000_06, 0.0, -0.0, 1.0e-8, -1.0e-8, 1.0e-22, 1.0e-25, -1.0e-30];
const PP: [f32; 7] = [0.0, 1.0e-7, 1.0e-6, 0.25, 0.5, 0.999999, 1.0];
const PT: [f32; 4] = [0.0, 0.25, 0.5, 1.0];
const CLAMPS: [Option<(f32, f32)>; 8] = [
    None,
    Some((-0.2, 0.2)),
    Some((-1.0, 1.0)),
    Some((0.0, 0.5)),
    Some((0.3, 0.3)),
    // one-sided and unbounded intervals
    Some((f32::NEG_INFINITY, 0.2)),
    Some((-0.2, f32::INFINITY)),
    Some((f32::NEG_INFINITY, f32::INFINITY)),
];

fn pairs(o: Obj) -> Vec<(f32, f32)> {
    let mut v = Vec::new();
    if o.probabilistic() {
        for p in PP {
            for t in PT {
                v.push((p, t));
            }
        }
    } else {
        for p in REG {
            for t in REG {
                v.push((p, t));
            }
        }
        // nearly but not exactly equal values (neighbouring floats, differences far below f32::EPSILON)
        for p in NEAR {
            for t in NEAR {
                v.push((p, t));
            }
        }
    }
    v
}

/// number of pairs over which tuples of up to 3 (4) pairs are enumerated completely; the rest only up to pairs of pairs
fn core_len(o: Obj) -> usize {
    if o.probabilistic() {
        PP.len() * PT.len()
    } else {
        REG.len() * REG.len()
    }
}

/// the loss is a sum of n same-signed terms accumulated in single precision: a sequential sum is off by up to
/// (n-1) roundings of 2^-24 relative to the sum itself, which matters from a few hundred terms on
fn close_sum(a: f64, b: f64, n: usize) -> bool {
    (a - b).abs() <= (2e-5 + 6e-8 * n as f64) * b.abs().max(a.abs()) + 1e-6
}

fn close(a: f64, b: f64) -> bool {
    (a - b).abs() <= 2e-5 * b.abs().max(a.abs()) + 1e-6
}

fn shape_of(name: &str, n: usize) -> Dims {
    match name {
        "vec" => Dims::Flat(n),
        "1x1xn" => Dims::Chw(1, 1, n),
        "nx1x1" => Dims::Chw(n, 1, 1),
        "1xnx1" => Dims::Chw(1, n, 1),
        "2x2x2" => Dims::Chw(2, 2, 2),
        "1x3x3" => Dims::Chw(1, 3, 3),
        "3x3x3" => Dims::Chw(3, 3, 3),
        "2x4x5" => Dims::Chw(2, 4, 5),
        _ => {
            // "CxHxW" written out (image-sized outputs)
            let d: Vec<usize> = name.split('x').map(|x| x.parse().unwrap_or_else(|_| panic!("shape {}", name))).collect();
            assert!(d.len() == 3 && d[0] * d[1] * d[2] == n, "shape {} for {} values", name, n);
            Dims::Chw(d[0], d[1], d[2])
        }
    }
}

pub fn check(case: &Kv, rep: &mut Report) {
    let o = Obj::parse(case.get("obj"));
    let ps = pairs(o);
    // "gen" = rot,stride,len: the pair list (rot + e*stride) mod m for e < len, written compactly for long lists
    let idx: Vec<usize> = match case.opt("gen") {
        Some(g) => {
            let q: Vec<usize> = g.split(',').map(|x| x.parse().unwrap()).collect();
            (0..q[2]).map(|e| (q[0] + e * q[1]) % ps.len()).collect()
        }
        None => case.list("pairs").iter().map(|s| s.parse().unwrap()).collect(),
    };
    let n = idx.len();
    let p: Vec<f32> = idx.iter().map(|i| ps[*i].0).collect();
    let t: Vec<f32> = idx.iter().map(|i| ps[*i].1).collect();
    let dims = shape_of(case.get("shape"), n);
    rep.states += 1;
    rep.evaluations += 1;
    {
        let mut d = idx.clone();
        d.sort_unstable();
        d.dedup();
        if d.len() >= 2 || p.iter().any(|v| *v == 0.0 || *v == 1.0) || t.iter().any(|v| *v == 0.0 || *v == 1.0) {
            rep.nontrivial += 1;
        }
    }
    let key = |what: &str| format!("C06 {} {} {}", o.name(), if dims.is_flat() { "vector" } else { "3-D" }, what);
    let tp = tensor(dims, &p);
    let tt = tensor(dims, &t);
    // unclamped
    rep.transitions += 1;
    let f = Function::create(o.lib(), None);
    let (loss, grad) = match guard(|| f.loss(&tp, &tt)) {
        Ok(x) => x,
        Err(e) => {
            rep.violate(key("panics"), e, case);
            return;
        }
    };
    let (gd, gv) = match flat_dims(&grad) {
        Ok(x) => x,
        Err(e) => {
            rep.violate(key("gradient shape"), e, case);
            return;
        }
    };
    if gd != dims {
        rep.violate(key("gradient shape"), format!("prediction {} but gradient {}", dims.name(), gd.name()), case);
        return;
    }
    let p64: Vec<f64> = p.iter().map(|v| *v as f64).collect();
    let t64: Vec<f64> = t.iter().map(|v| *v as f64).collect();
    let rl: f64 = ro::loss(o, &p64, &t64);
    if !loss.is_finite() {
        let zero_target = o == Obj::KL && t.iter().any(|v| *v == 0.0);
        rep.violate(
            if zero_target { key("loss not finite for a zero target") } else { key("loss not finite") },
            format!("loss({:?}, {:?}) = {}", p, t, loss),
            case,
        );
    } else if !close_sum(loss as f64, rl, n) {
        rep.violate(key("loss value"), format!("loss({:?}, {:?}) = {:e}, documented formula gives {:e}", p, t, loss, rl), case);
    }
    let rg = ro::gradient(o, &p64, &t64);
    for i in 0..n {
        if !gv[i].is_finite() || !close(gv[i] as f64, rg[i]) {
            rep.violate(key("gradient value"), format!("gradient({:?}, {:?})[{}] = {:e}, documented formula gives {:e}", p, t, i, gv[i], rg[i]), case);
            break;
        }
    }
    // gradient is the derivative of the reported loss (AE, MSE, BCE, KL), away from kinks / the eps-clamp
    if o.gradient_is_derivative() {
        for i in 0..n {
            let away_kink = (p[i] - t[i]).abs() >= 0.05 || !matches!(o, Obj::AE);
            let inside = !o.probabilistic() || (p[i] > 2.0 * EPS && p[i] < 1.0 - 2.0 * EPS);
            if !away_kink || !inside {
                continue;
            }
            let dp: Vec<Dual> = (0..n).map(|j| if j == i { Dual::var(p64[j]) } else { Dual::c(p64[j]) }).collect();
            let d = ro::loss(o, &dp, &t64).d;
            rep.count("derivative_checks", 1);
            if !close(gv[i] as f64, d) {
                rep.violate(key("gradient is not the derivative of the loss"), format!("d loss/d p[{}] = {:e} but gradient = {:e} at p={:?} t={:?}", i, d, gv[i], p, t), case);
                break;
            }
        }
    }
    // vector path == CxHxW path
    if !dims.is_flat() {
        rep.transitions += 1;
        match guard(|| f.loss(&tensor(Dims::Flat(n), &p), &tensor(Dims::Flat(n), &t))) {
            Ok((l2, g2)) => {
                let g2v = flat_dims(&g2).map(|x| x.1).unwrap_or_default();
                let same_loss = l2.to_bits() == loss.to_bits() || (l2.is_nan() && loss.is_nan());
                if !same_loss || g2v.len() != n || (0..n).any(|i| g2v[i].to_bits() != gv[i].to_bits() && !(g2v[i] == 0.0 && gv[i] == 0.0)) {
                    rep.violate(key("differs from the vector path"), format!("3-D: loss {:e} grad {:?}; vector: loss {:e} grad {:?}", loss, gv, l2, g2v), case);
                }
            }
            Err(e) => rep.violate(key("vector path panics"), e, case),
        }
    }
    // clamps
    for c in CLAMPS.iter().flatten() {
        rep.transitions += 1;
        let fc = Function::create(o.lib(), Some(*c));
        match guard(|| fc.loss(&tp, &tt)) {
            Ok((lc, gc)) => {
                let same_loss = lc.to_bits() == loss.to_bits() || (lc.is_nan() && loss.is_nan());
                if !same_loss {
                    rep.violate(key("clamp changes the loss"), format!("clamp {:?}: loss {:e} vs {:e}", c, lc, loss), case);
                }
                match flat_dims(&gc) {
                    Ok((d, v)) => {
                        if d != dims {
                            rep.violate(key("clamped gradient shape"), format!("{}", d.name()), case);
                            continue;
                        }
                        for i in 0..n {
                            let want = if gv[i] < c.0 {
                                c.0
                            } else if gv[i] > c.1 {
                                c.1
                            } else {
                                gv[i]
                            };
                            if !(v[i] == want || (v[i].is_nan() && want.is_nan())) {
                                rep.violate(key("clamped gradient"), format!("clamp {:?}: unclamped {:e} -> {:e}", c, gv[i], v[i]), case);
                                break;
                            }
                        }
                    }
                    Err(e) => rep.violate(key("clamped gradient shape"), e, case),
                }
            }
            Err(e) => rep.violate(key("panics with clamp"), e, case),
        }
    }
}

pub fn cases(thorough: bool) -> Vec<Kv> {
    let mut out = Vec::new();
    for o in OBJ7 {
        let all = pairs(o).len();
        let m = core_len(o);
        // tuples of one and two pairs that involve at least one of the additional (near-equal) pairs
        for n in 1..=2usize {
            for code in 0..all.pow(n as u32) {
                let mut c = code;
                let mut idx = Vec::new();
                for _ in 0..n {
                    idx.push(c % all);
                    c /= all;
                }
                if idx.iter().all(|i| *i < m) {
                    continue;
                }
                let list = idx.iter().map(|i| i.to_string()).collect::<Vec<_>>().join(",");
                for shp in ["vec", "1x1xn", "nx1x1"] {
                    out.push(Kv::new().put("obj", o.name()).put("shape", shp).put("pairs", &list));
                }
            }
        }
        for n in 1..=(if thorough { 4usize } else { 3usize }) {
            let total = m.pow(n as u32);
            for code in 0..total {
                let mut c = code;
                let mut idx = Vec::new();
                for _ in 0..n {
                    idx.push((c % m).to_string());
                    c /= m;
                }
                let list = idx.join(",");
                out.push(Kv::new().put("obj", o.name()).put("shape", "vec").put("pairs", &list));
                if n <= 3 {
                    for s in ["1x1xn", "nx1x1", "1xnx1"] {
                        out.push(Kv::new().put("obj", o.name()).put("shape", s).put("pairs", &list));
                    }
                }
            }
        }
        // image-sized outputs (several channels of planes with >= 1024 elements, and their flat counterparts): sizes at which
        // an implementation might switch to a per-channel, blocked or parallel evaluation
        for rot in (0..m).step_by(3) {
            for (shape, len) in [("2x32x32", 2048usize), ("3x40x30", 3600), ("1x64x64", 4096), ("8x16x16", 2048), ("4x3x300", 3600), ("vec", 4096), ("vec", 3600)] {
                out.push(Kv::new().put("obj", o.name()).put("shape", shape).put("gen", format!("{},{},{}", rot, 7, len)));
            }
        }
        for rot in 0..m {
            for stride in [1usize, 5, 7] {
                let list = (0..8).map(|e| ((rot + e * stride) % m).to_string()).collect::<Vec<_>>().join(",");
                out.push(Kv::new().put("obj", o.name()).put("shape", "2x2x2").put("pairs", &list));
                // longer vectors (a 10-class head, 17, 40, 100) and larger tensors: every rotation of the pair list
                for (shape, len) in [("vec", 9usize), ("vec", 10), ("vec", 17), ("vec", 40), ("vec", 100), ("1x3x3", 9), ("3x3x3", 27), ("2x4x5", 40)] {
                    let list = (0..len).map(|e| ((rot + e * stride) % m).to_string()).collect::<Vec<_>>().join(",");
                    out.push(Kv::new().put("obj", o.name()).put("shape", shape).put("pairs", &list));
                }
            }
        }
    }
    out
}

pub fn run(ctx: &Ctx) -> Report {
    let cs = cases(ctx.tier.thorough());
    let chunks: Vec<&[Kv]> = cs.chunks(2048).collect();
    let parts = par_map(&chunks, |_, c| {
        let mut r = Report::new();
        for k in c.iter() {
            check(k, &mut r);
        }
        r
    });
    let mut rep = Report::new();
    rep.merge_all(parts);
    for i in [3usize, 50_000, 200_000, cs.len() - 1] {
        rep.sample(cs[i.min(cs.len() - 1)].to_json());
    }
    rep.notes.insert("cases".into(), Json::i(cs.len() as i64));
    rep.traces_validated = rep.states;
    rep
}

pub fn replay(_ctx: &Ctx, case: &Kv) -> Report {
    let mut r = Report::new();
    check(case, &mut r);
    r
}
