//! C03 — optimizer steps follow the documented update rules for every history.
//! History explorer: every gradient sequence over G up to the depth bound x every non-decreasing
//! step-number sequence; 18 histories ride in one tensor (the rules are element-wise, so any
//! cross-element leak shows); vector / matrix / kernel slots must agree bit for bit; slot
//! interleavings must not change a slot's trajectory; long run-length histories for slow drift.
use crate::json::Json;
use crate::libnet::flat;
use crate::props::c15::mk;
use crate::refmodel::optim::{step, OptSpec, St};
use crate::report::{Ctx, Meta, Report};
use crate::util::{guard, par_map, ulp32, Kv};
use neurons::optimizer::Optimizer;
use neurons::tensor::Tensor;

const G: [f32; 11] = [0.0, 1.0e-20, -1.0e-20, 1.0e-3, -1.0e-3, 0.5, -0.5, 1.0, -1.0, 1.0e4, -1.0e4];
const STEPS: [i32; 4] = [1, 2, 3, 5];
const LANES: usize = 18;
const W0: [f32; 6] = [0.5, -1.25, 2.0, -0.03125, 0.0, 7.0];

pub fn meta(ctx: &Ctx) -> Meta {
    let d = depth(ctx);
    Meta {
        rule: format!("optimizer kinds x hyper-parameter lattice (SGD 2, SGDM 8, Adam 4, AdamW 2, RMSprop 16 settings around the defaults, plus 13 away from them: beta1 = 1/2 (first moment cancelling exactly), momentum 0 (SGDM's documented default), epsilon 1e-12, epsilon 0.125, betas 0.5/0.9, alpha 0.9, learning rates 0.05..1, momentum 0.99 with dampening 0.5) x ALL gradient sequences over G={{0,+-1e-20,+-1e-3,+-0.5,+-1,+-1e4}} of length {} x ALL non-decreasing step-number sequences over {{1,2,3,5}} x ranks {{vector, matrix, 3-D kernel}} through create->validate->update; 18 element histories per tensor; run-length histories (constant / alternating / one-hot then zeros) to 2048 steps; 24-step varying-gradient histories on wide tensors (vector 70, matrix 2x35, kernel 2x5x7: row lengths that are not multiples of 4 or 8) and 8-step ones on tensors of 4480 elements (vector, matrix 64x70, kernel 4x16x70); re-validation: an optimizer validated two and three times against one validated once, bit-exact; slot-isolation: all 2^d interleavings of a slot-B update stream into slot A's for 4 slot pairs. Oracles: documented recurrences (f64 + f32 transcription, derived tolerance), rank differential bit-exact, isolation differential bit-exact, finiteness. A state is a node of the history tree (gradient prefix x step-number prefix); non-trivial = node whose history has a non-zero gradient", d),
        bound: format!("history depth {} complete for the alphabet; long histories 2048 steps for 33 patterns per setting", d),
        exhaustive: true,
        assumptions: vec![
            "hyper-parameters strictly positive (a literal 0 is replaced by a default in validate, which the statement does not cover)".into(),
            "value tolerance max(4 ulp, 32*|f32 transcription - f64 reference|) + sum over the steps so far of 16*eps*(|update| + |parameter|) + 1e-30 (a parameter that is the difference of two large opposite updates carries their absolute rounding error)".into(),
            "centred RMSprop reference clamps E[g^2]-E[g]^2 at 0 (its exact value is never negative); once that difference falls below 1e-3 of E[g^2] in the exact reference the f32 value of the documented formula is rounding noise, and only finiteness is demanded for the rest of that history".into(),
        ],
    }
}

fn depth(ctx: &Ctx) -> usize {
    if ctx.tier.thorough() {
        6
    } else {
        4
    }
}

pub fn settings() -> Vec<OptSpec> {
    let mut v = Vec::new();
    for decay in [None, Some(0.01f32)] {
        v.push(OptSpec::Sgd { lr: 0.1, decay });
        for momentum in [0.9f32, 0.5] {
            for dampening in [0.0f32, 0.1] {
                v.push(OptSpec::Sgdm { lr: 0.1, momentum, dampening, decay });
            }
        }
        for b2 in [0.999f32, 0.9] {
            v.push(OptSpec::Adam { lr: 0.001, b1: 0.9, b2, eps: 1e-8, decay });
        }
        for alpha in [0.99f32, 0.5] {
            for momentum in [None, Some(0.9f32)] {
                for centered in [false, true] {
                    v.push(OptSpec::Rms { lr: 0.01, alpha, eps: 1e-8, decay, momentum, centered });
                }
            }
        }
    }
    for decay in [0.01f32, 0.1] {
        v.push(OptSpec::AdamW { lr: 0.001, b1: 0.9, b2: 0.999, eps: 1e-8, decay });
    }
    // away from the defaults: a large epsilon (visible against every gradient of the alphabet), small betas / alpha,
    // large learning rates, heavy dampening
    v.push(OptSpec::Sgd { lr: 1.0, decay: Some(0.1) });
    v.push(OptSpec::Sgdm { lr: 0.5, momentum: 0.99, dampening: 0.5, decay: None });
    // beta1 = 1/2 without decay: gradient histories such as 1, -0.5 cancel the first moment EXACTLY while the second stays
    v.push(OptSpec::Adam { lr: 0.01, b1: 0.5, b2: 0.9, eps: 1e-8, decay: None });
    v.push(OptSpec::AdamW { lr: 0.01, b1: 0.5, b2: 0.9, eps: 1e-8, decay: 0.01 });
    // an explicit epsilon far below the default (visible on the tiny gradients of the alphabet)
    v.push(OptSpec::Adam { lr: 0.001, b1: 0.9, b2: 0.999, eps: 1e-12, decay: None });
    v.push(OptSpec::AdamW { lr: 0.001, b1: 0.9, b2: 0.999, eps: 1e-12, decay: 0.01 });
    v.push(OptSpec::Rms { lr: 0.01, alpha: 0.99, eps: 1e-12, decay: None, momentum: None, centered: false });
    // momentum 0 (the documented default of SGDM): the documented equations then reduce to plain (dampened) descent
    v.push(OptSpec::Sgdm { lr: 0.1, momentum: 0.0, dampening: 0.0, decay: None });
    v.push(OptSpec::Sgdm { lr: 0.1, momentum: 0.0, dampening: 0.1, decay: Some(0.01) });
    v.push(OptSpec::Adam { lr: 0.05, b1: 0.5, b2: 0.9, eps: 0.125, decay: Some(0.1) });
    v.push(OptSpec::AdamW { lr: 0.05, b1: 0.5, b2: 0.9, eps: 0.125, decay: 0.01 });
    v.push(OptSpec::Rms { lr: 0.1, alpha: 0.9, eps: 0.125, decay: None, momentum: None, centered: false });
    v.push(OptSpec::Rms { lr: 0.1, alpha: 0.9, eps: 0.125, decay: Some(0.01), momentum: Some(0.5), centered: true });
    v
}

fn rank_shape(rank: usize) -> Vec<usize> {
    match rank {
        1 => vec![LANES],
        2 => vec![3, 6],
        _ => vec![2, 3, 3],
    }
}

/// optimizer with four slots of the given rank: (0,0,w) (0,0,b) (1,0) (1,1)
fn make_opt(spec: &OptSpec, rank: usize) -> Optimizer {
    let z = |n: usize| -> Tensor {
        let _ = n;
        mk(&rank_shape(rank), &vec![0.0; LANES])
    };
    let vectors = vec![vec![vec![z(0), z(1)]], vec![vec![z(2)], vec![z(3)]]];
    let mut o = spec.lib();
    o.validate(vectors);
    o
}

const SLOTS: [(usize, usize, bool); 4] = [(0, 0, false), (0, 0, true), (1, 0, false), (1, 1, false)];

/// apply one update of `slot` on the real optimizer; returns the new flat weights
fn lib_step(o: &mut Optimizer, rank: usize, slot: usize, stepnr: i32, w: &[f32], g: &[f32]) -> Result<Vec<f32>, String> {
    let (l, f, b) = SLOTS[slot];
    let mut wt = mk(&rank_shape(rank), w);
    let mut gt = mk(&rank_shape(rank), g);
    guard(|| o.update(l, f, b, stepnr, &mut wt, &mut gt))?;
    Ok(flat(&wt)?.1)
}

struct RefLane {
    w64: f64,
    s64: St<f64>,
    w32: f32,
    s32: St<f32>,
    /// accumulated |f32 transcription - f64 reference|, the error the formula itself incurs
    drift: f64,
    /// centred RMSprop only: E[g^2]-E[g]^2 has cancelled below 1e-3 of E[g^2] in the exact reference, so
    /// the single-precision value of the documented formula is dominated by rounding noise from here on;
    /// only finiteness is demanded afterwards
    ill: bool,
    /// a violation was already reported for this history; later steps are not judged again
    dead: bool,
    /// rounding budget accumulated along the history: every step may contribute a few ulps of the size of its
    /// update and of the parameter (a parameter that is the difference of two large opposite updates carries
    /// the absolute error of those updates, not a relative error of its own size)
    budget: f64,
}

fn judge(spec: &OptSpec, lane: &mut RefLane, g: f32, stepnr: i32, got: f32) -> Option<String> {
    let before = lane.w64;
    lane.w64 = step(spec, &mut lane.s64, lane.w64, g as f64, stepnr);
    lane.w32 = step(spec, &mut lane.s32, lane.w32, g, stepnr);
    lane.budget += 16.0 * f32::EPSILON as f64 * ((lane.w64 - before).abs() + before.abs().max(lane.w64.abs()));
    let r32_err = if lane.w32.is_finite() { (lane.w32 as f64 - lane.w64).abs() } else { f64::INFINITY };
    lane.drift = lane.drift.max(r32_err);
    if let OptSpec::Rms { centered: true, .. } = spec {
        let var = lane.s64.velocity - lane.s64.gradient * lane.s64.gradient;
        if lane.s64.velocity > 0.0 && var < 1e-3 * lane.s64.velocity {
            lane.ill = true;
        }
    }
    if !got.is_finite() {
        if lane.w64.is_finite() && lane.w64.abs() < 1e30 {
            return Some(format!("parameter became {} (exact value {:e} is finite)", got, lane.w64));
        }
        return None;
    }
    if lane.ill {
        return None;
    }
    let tol = (4.0 * ulp32(lane.w64 as f32) as f64).max(32.0 * lane.drift) + lane.budget + 1e-30;
    if (got as f64 - lane.w64).abs() > tol {
        return Some(format!("parameter {:e}, documented recurrence gives {:e} (tolerance {:e})", got, lane.w64, tol));
    }
    None
}

fn fresh_lanes() -> Vec<RefLane> {
    (0..LANES)
        .map(|e| RefLane { w64: W0[e % 6] as f64, s64: St::fresh(), w32: W0[e % 6], s32: St::fresh(), drift: 0.0, ill: false, dead: false, budget: 0.0 })
        .collect()
}

/// One batch: LANES gradient sequences (one per element) under one step-number sequence, all 3 ranks.
/// seqs[e][t] = index into G.
fn run_batch(spec: &OptSpec, seqs: &[Vec<usize>], stepseq: &[i32], rep: &mut Report, case: &Kv) {
    let d = stepseq.len();
    let mut opts: Vec<Optimizer> = (1..=3).map(|r| make_opt(spec, r)).collect();
    let mut w: Vec<Vec<f32>> = (0..3).map(|_| (0..LANES).map(|e| W0[e % 6]).collect()).collect();
    let mut lanes = fresh_lanes();
    for t in 0..d {
        let g: Vec<f32> = (0..LANES).map(|e| G[seqs[e % seqs.len()][t]]).collect();
        for r in 0..3 {
            rep.transitions += LANES as u64;
            match lib_step(&mut opts[r], r + 1, 0, stepseq[t], &w[r], &g) {
                Ok(nw) => {
                    if nw.len() != LANES {
                        rep.violate(format!("C03 {} rank{} result shape", spec.kind(), r + 1), format!("{} elements", nw.len()), case);
                        return;
                    }
                    w[r] = nw;
                }
                Err(e) => {
                    rep.violate(format!("C03 {} rank{} panics", spec.kind(), r + 1), e, case);
                    return;
                }
            }
        }
        // rank differential, bit-exact (NaN == NaN)
        for r in 1..3 {
            if let Some(e) = (0..LANES).find(|&e| w[r][e].to_bits() != w[0][e].to_bits() && !(w[r][e].is_nan() && w[0][e].is_nan())) {
                rep.violate(
                    format!("C03 {} rank{} differs from vector slot", spec.kind(), r + 1),
                    format!("step {} element {}: vector {:e}, rank{} {:e}; gradient history {:?}", t + 1, e, w[0][e], r + 1, w[r][e], seqs[e % seqs.len()][..=t].iter().map(|i| G[*i]).collect::<Vec<_>>()),
                    case,
                );
                return;
            }
        }
        // documented recurrence per element
        for e in 0..LANES {
            if let Some(why) = judge(spec, &mut lanes[e], g[e], stepseq[t], w[0][e]) {
                let nonfinite = !w[0][e].is_finite();
                rep.violate(
                    format!("C03 {} {}", spec.kind(), if nonfinite { "parameter not finite" } else { "value" }),
                    format!("{}: step {} (stepnr {}), w0={}, gradient history {:?}: {}", spec.name(), t + 1, stepseq[t], W0[e % 6], seqs[e % seqs.len()][..=t].iter().map(|i| G[*i]).collect::<Vec<_>>(), why),
                    case,
                );
                return;
            }
        }
    }
}

fn stepseqs(d: usize) -> Vec<Vec<i32>> {
    fn rec(d: usize, from: usize, cur: &mut Vec<i32>, out: &mut Vec<Vec<i32>>) {
        if cur.len() == d {
            out.push(cur.clone());
            return;
        }
        for i in from..STEPS.len() {
            cur.push(STEPS[i]);
            rec(d, i, cur, out);
            cur.pop();
        }
    }
    let mut out = Vec::new();
    rec(d, 0, &mut Vec::new(), &mut out);
    out
}

fn decode(mut code: usize, d: usize) -> Vec<usize> {
    let mut v = Vec::with_capacity(d);
    for _ in 0..d {
        v.push(code % G.len());
        code /= G.len();
    }
    v
}

/// histories of one setting: all gradient sequences of length d, packed 18 per tensor
fn explore_setting(spec: &OptSpec, d: usize, part: usize, parts: usize) -> Report {
    let mut rep = Report::new();
    let total = G.len().pow(d as u32);
    let sseqs = stepseqs(d);
    let batches = (total + LANES - 1) / LANES;
    for b in (part..batches).step_by(parts) {
        let seqs: Vec<Vec<usize>> = (0..LANES).map(|e| decode((b * LANES + e) % total, d)).collect();
        for ss in &sseqs {
            let case = Kv::new()
                .put("kind", "tree")
                .put("opt", spec.name())
                .put("first", b * LANES)
                .put("depth", d)
                .put("steps", ss.iter().map(|s| s.to_string()).collect::<Vec<_>>().join(","));
            run_batch(spec, &seqs, ss, &mut rep, &case);
        }
    }
    rep
}

/// run-length histories: pattern x base gradient, 2048 steps, stepnr = 1,2,3,...
fn long_histories(spec: &OptSpec, n_steps: usize, rep: &mut Report) {
    // lanes: 11 gradients x {constant, alternating sign, once then zeros} = 33 -> two tensors of 18 (padded)
    let pats: Vec<(usize, usize)> = (0..3).flat_map(|p| (0..G.len()).map(move |g| (p, g))).collect();
    for chunk in pats.chunks(LANES) {
        let case = Kv::new()
            .put("kind", "long")
            .put("opt", spec.name())
            .put("steps", n_steps)
            .put("lanes", chunk.iter().map(|(p, g)| format!("{}:{}", p, g)).collect::<Vec<_>>().join(","));
        let mut opts: Vec<Optimizer> = (1..=3).map(|r| make_opt(spec, r)).collect();
        let mut w: Vec<Vec<f32>> = (0..3).map(|_| (0..LANES).map(|e| W0[e % 6]).collect()).collect();
        let mut lanes = fresh_lanes();
        'steps: for t in 0..n_steps {
            let g: Vec<f32> = (0..LANES)
                .map(|e| {
                    let (p, gi) = chunk[e % chunk.len()];
                    match p {
                        0 => G[gi],
                        1 => {
                            if t % 2 == 0 {
                                G[gi]
                            } else {
                                -G[gi]
                            }
                        }
                        _ => {
                            if t == 0 {
                                G[gi]
                            } else {
                                0.0
                            }
                        }
                    }
                })
                .collect();
            let stepnr = (t + 1) as i32;
            // rank differential at every step would triple the cost; all ranks at powers of two, vector always
            let check_ranks = (t + 1).is_power_of_two() || t + 1 == n_steps;
            for r in 0..3 {
                rep.transitions += LANES as u64;
                match lib_step(&mut opts[r], r + 1, 0, stepnr, &w[r], &g) {
                    Ok(nw) => w[r] = nw,
                    Err(e) => {
                        rep.violate(format!("C03 {} rank{} panics", spec.kind(), r + 1), e, &case);
                        break 'steps;
                    }
                }
            }
            if check_ranks {
                for r in 1..3 {
                    if let Some(e) = (0..LANES).find(|&e| !lanes[e].dead && w[r][e].to_bits() != w[0][e].to_bits() && !(w[r][e].is_nan() && w[0][e].is_nan())) {
                        rep.violate(format!("C03 {} rank{} differs from vector slot", spec.kind(), r + 1), format!("long history step {} element {}", t + 1, e), &case);
                        break 'steps;
                    }
                }
            }
            for e in 0..LANES {
                if lanes[e].dead {
                    continue;
                }
                if let Some(why) = judge(spec, &mut lanes[e], g[e], stepnr, w[0][e]) {
                    let (p, gi) = chunk[e % chunk.len()];
                    let nonfinite = !w[0][e].is_finite();
                    let centred = matches!(spec, OptSpec::Rms { centered: true, .. });
                    rep.violate(
                        if nonfinite && centred {
                            if w[0][e].is_nan() {
                                "C03 RMSprop centred parameter NaN (variance estimate rounds negative)".to_string()
                            } else {
                                "C03 RMSprop centred parameter overflows after the variance estimate cancels to 0".to_string()
                            }
                        } else {
                            format!("C03 {} {}", spec.kind(), if nonfinite { "parameter not finite" } else { "value" })
                        },
                        format!("{}: after {} steps of pattern {} with gradient {:e}, w0={}: {}", spec.name(), t + 1, ["constant", "alternating", "once-then-zero"][p], G[gi], W0[e % 6], why),
                        &case,
                    );
                    lanes[e].dead = true;
                }
            }
        }
        rep.states += (n_steps * chunk.len()) as u64;
    }
}

/// Wide parameter tensors (beyond any small unrolling / blocking factor): vector of 70, matrix 2x35,
/// kernel 2x5x7; 24 steps with a different pseudo-random gradient from G per element and step; documented recurrence
/// per element and rank differential (the same element histories in all three ranks).
fn wide_histories(spec: &OptSpec, rep: &mut Report) {
    wide_histories_of(spec, rep, 70, [vec![70], vec![2, 35], vec![2, 5, 7]], 24, "wide");
    // ... and tensors of several thousand elements (a 64x70 matrix, a 4x16x70 kernel, the vector of 4480): sizes at
    // which an implementation might switch to a row-wise, blocked or parallel update
    wide_histories_of(spec, rep, 4480, [vec![4480], vec![64, 70], vec![4, 16, 70]], 8, "huge");
}

fn wide_histories_of(spec: &OptSpec, rep: &mut Report, n_elems: usize, shapes: [Vec<usize>; 3], steps: usize, kind: &str) {
    #[allow(non_snake_case)]
    let N: usize = n_elems;
    let case = Kv::new().put("kind", kind).put("opt", spec.name());
    let slot_state = |sh: &Vec<usize>| -> Optimizer {
        let z = || mk(sh, &vec![0.0; N]);
        let mut o = spec.lib();
        o.validate(vec![vec![vec![z(), z()]], vec![vec![z()], vec![z()]]]);
        o
    };
    let mut opts: Vec<Optimizer> = shapes.iter().map(slot_state).collect();
    let mut w: Vec<Vec<f32>> = (0..3).map(|_| (0..N).map(|e| W0[e % 6]).collect()).collect();
    let mut lanes: Vec<RefLane> = (0..N)
        .map(|e| RefLane { w64: W0[e % 6] as f64, s64: St::fresh(), w32: W0[e % 6], s32: St::fresh(), drift: 0.0, ill: false, dead: false, budget: 0.0 })
        .collect();
    let mut r = crate::util::Rng::new(0xC03, crate::util::fnv(&spec.name()));
    for t in 0..steps {
        let stepnr = [1, 1, 2, 2, 3, 3, 3, 4, 5, 5, 6, 7, 8, 9, 10, 11, 12, 13, 14, 15, 16, 17, 18, 19][t];
        let g: Vec<f32> = (0..N).map(|_| G[r.below(G.len())]).collect();
        for k in 0..3 {
            rep.transitions += N as u64;
            let (l, f, b) = SLOTS[0];
            let mut wt = mk(&shapes[k], &w[k]);
            let mut gt = mk(&shapes[k], &g);
            match guard(|| opts[k].update(l, f, b, stepnr, &mut wt, &mut gt)).and_then(|_| flat(&wt).map(|x| x.1)) {
                Ok(nw) => w[k] = nw,
                Err(e) => {
                    rep.violate(format!("C03 {} rank{} panics", spec.kind(), k + 1), e, &case);
                    return;
                }
            }
        }
        for k in 1..3 {
            if let Some(e) = (0..N).find(|&e| w[k][e].to_bits() != w[0][e].to_bits() && !(w[k][e].is_nan() && w[0][e].is_nan())) {
                rep.violate(
                    format!("C03 {} rank{} differs from vector slot", spec.kind(), k + 1),
                    format!("wide tensors {:?} vs vector of {}: step {} element {}: {:e} vs {:e}", shapes[k], N, t + 1, e, w[k][e], w[0][e]),
                    &case,
                );
                return;
            }
        }
        for e in 0..N {
            if lanes[e].dead {
                continue;
            }
            if let Some(why) = judge(spec, &mut lanes[e], g[e], stepnr, w[0][e]) {
                rep.violate(format!("C03 {} value", spec.kind()), format!("{}: wide vector of {}, element {}, step {}: {}", spec.name(), N, e, t + 1, why), &case);
                lanes[e].dead = true;
            }
        }
    }
    rep.states += (steps * N) as u64;
}

/// slot isolation: stream A on slot a interleaved with stream B on slot b, all 2^d placements
/// installing the optimizer twice (validate called again on an already validated optimizer, as happens to the copy a
/// feedback block receives) must not change the update rule: bit-exact differential against a once-validated one
fn revalidation(spec: &OptSpec, d: usize, rep: &mut Report) {
    let seq: Vec<Vec<usize>> = (0..LANES).map(|e| decode(e * 7919 + 29, d)).collect();
    for rank in 1..=3 {
        let z = || mk(&rank_shape(rank), &vec![0.0; LANES]);
        let vectors = || vec![vec![vec![z(), z()]], vec![vec![z()], vec![z()]]];
        let mut once = make_opt(spec, rank);
        let mut twice = make_opt(spec, rank);
        twice.validate(vectors());
        let mut thrice = twice.clone();
        thrice.validate(vectors());
        let (mut w1, mut w2, mut w3): (Vec<f32>, Vec<f32>, Vec<f32>) = ((0..LANES).map(|e| W0[e % 6]).collect(), (0..LANES).map(|e| W0[e % 6]).collect(), (0..LANES).map(|e| W0[e % 6]).collect());
        for t in 0..d {
            let g: Vec<f32> = (0..LANES).map(|e| G[seq[e][t]]).collect();
            rep.transitions += 3;
            let r = (lib_step(&mut once, rank, 0, (t + 1) as i32, &w1, &g), lib_step(&mut twice, rank, 0, (t + 1) as i32, &w2, &g), lib_step(&mut thrice, rank, 0, (t + 1) as i32, &w3, &g));
            match r {
                (Ok(a), Ok(b), Ok(c)) => {
                    if !crate::util::bits_eq(&a, &b) || !crate::util::bits_eq(&a, &c) {
                        rep.violate(
                            format!("C03 {} differs when the optimizer is validated again", spec.kind()),
                            format!("{} rank {} step {}: validated once {:?}, twice {:?}, three times {:?}", spec.name(), rank, t + 1, &a[..4], &b[..4], &c[..4]),
                            &Kv::new().put("kind", "revalidate").put("opt", spec.name()).put("depth", d),
                        );
                        return;
                    }
                    w1 = a;
                    w2 = b;
                    w3 = c;
                }
                (Err(e), _, _) | (_, Err(e), _) | (_, _, Err(e)) => {
                    rep.violate(format!("C03 {} update panics", spec.kind()), crate::util::first_line(&e), &Kv::new().put("kind", "revalidate").put("opt", spec.name()).put("depth", d));
                    return;
                }
            }
        }
    }
}

fn isolation(spec: &OptSpec, d: usize, rep: &mut Report) {
    let seq_a: Vec<Vec<usize>> = (0..LANES).map(|e| decode(e * 7919 + 13, d)).collect();
    let seq_b: Vec<Vec<usize>> = (0..LANES).map(|e| decode(e * 104729 + 5, d)).collect();
    for (a, b) in [(0usize, 1usize), (1, 0), (2, 3), (0, 2)] {
        for rank in 1..=3 {
            // A alone
            let alone = {
                let mut o = make_opt(spec, rank);
                let mut w: Vec<f32> = (0..LANES).map(|e| W0[e % 6]).collect();
                let mut traj = Vec::new();
                for t in 0..d {
                    let g: Vec<f32> = (0..LANES).map(|e| G[seq_a[e][t]]).collect();
                    match lib_step(&mut o, rank, a, (t + 1) as i32, &w, &g) {
                        Ok(nw) => w = nw,
                        Err(_) => return,
                    }
                    traj.push(w.clone());
                }
                traj
            };
            for mask in 0u32..(1 << d) {
                rep.states += 1;
                let case = Kv::new().put("kind", "isolation").put("opt", spec.name()).put("a", a).put("b", b).put("rank", rank).put("mask", mask).put("depth", d);
                let mut o = make_opt(spec, rank);
                let mut wa: Vec<f32> = (0..LANES).map(|e| W0[e % 6]).collect();
                let mut wb: Vec<f32> = (0..LANES).map(|e| W0[(e + 3) % 6]).collect();
                for t in 0..d {
                    if mask & (1 << t) != 0 {
                        let g: Vec<f32> = (0..LANES).map(|e| G[seq_b[e][t]]).collect();
                        rep.transitions += LANES as u64;
                        match lib_step(&mut o, rank, b, (t + 1) as i32, &wb, &g) {
                            Ok(nw) => wb = nw,
                            Err(e) => {
                                rep.violate(format!("C03 {} rank{} panics", spec.kind(), rank), e, &case);
                                return;
                            }
                        }
                    }
                    let g: Vec<f32> = (0..LANES).map(|e| G[seq_a[e][t]]).collect();
                    rep.transitions += LANES as u64;
                    match lib_step(&mut o, rank, a, (t + 1) as i32, &wa, &g) {
                        Ok(nw) => wa = nw,
                        Err(e) => {
                            rep.violate(format!("C03 {} rank{} panics", spec.kind(), rank), e, &case);
                            return;
                        }
                    }
                    if let Some(e) = (0..LANES).find(|&e| wa[e].to_bits() != alone[t][e].to_bits() && !(wa[e].is_nan() && alone[t][e].is_nan())) {
                        rep.violate(
                            format!("C03 {} slot state leaks between slots", spec.kind()),
                            format!("slot {:?} step {} element {}: {:e} alone vs {:e} interleaved with updates of slot {:?}", SLOTS[a], t + 1, e, alone[t][e], wa[e], SLOTS[b]),
                            &case,
                        );
                        return;
                    }
                }
            }
        }
    }
}

pub fn run(ctx: &Ctx) -> Report {
    let d = depth(ctx);
    let sets = settings();
    let parts_per = if ctx.tier.thorough() { 64 } else { 4 };
    let work: Vec<(usize, usize)> = (0..sets.len()).flat_map(|s| (0..parts_per).map(move |p| (s, p))).collect();
    let parts = par_map(&work, |_, (s, p)| {
        let mut r = explore_setting(&sets[*s], d, *p, parts_per);
        if *p == 0 {
            long_histories(&sets[*s], 2048, &mut r);
            wide_histories(&sets[*s], &mut r);
            isolation(&sets[*s], d.min(5), &mut r);
            revalidation(&sets[*s], 6, &mut r);
        }
        r
    });
    let mut rep = Report::new();
    rep.merge_all(parts);
    // states: nodes of the history tree per setting (gradient prefix x step-number prefix), counted analytically
    // from the enumeration just performed: sum over levels of |G|^l * (#non-decreasing step prefixes of length l)
    let mut nodes: u64 = 0;
    let mut nontrivial: u64 = 0;
    for l in 1..=d {
        let sp = stepseqs(l).len() as u64;
        nodes += (G.len() as u64).pow(l as u32) * sp;
        nontrivial += ((G.len() as u64).pow(l as u32) - 1) * sp;
    }
    rep.states += nodes * sets.len() as u64;
    rep.nontrivial = nontrivial * sets.len() as u64;
    rep.evaluations = rep.transitions;
    rep.traces_validated = rep.states;
    rep.count("settings", sets.len() as u64);
    rep.count("gradient_sequences_per_setting", (G.len() as u64).pow(d as u32));
    rep.count("step_number_sequences", stepseqs(d).len() as u64);
    rep.sample(Kv::new().put("kind", "tree").put("opt", sets[3].name()).put("first", 0).put("depth", d).put("steps", "1,1,2,5").to_json());
    rep.sample(Kv::new().put("kind", "long").put("opt", sets.last().unwrap().name()).put("steps", 2048).put("lanes", "0:5,1:7,2:9").to_json());
    rep.notes.insert("depth".into(), Json::i(d as i64));
    rep
}

pub fn replay(_ctx: &Ctx, case: &Kv) -> Report {
    let mut rep = Report::new();
    let spec = OptSpec::parse(case.get("opt"));
    match case.get("kind") {
        "tree" => {
            let d = case.usize("depth");
            let first = case.usize("first");
            let total = G.len().pow(d as u32);
            let seqs: Vec<Vec<usize>> = (0..LANES).map(|e| decode((first + e) % total, d)).collect();
            let ss: Vec<i32> = case.list("steps").iter().map(|s| s.parse().unwrap()).collect();
            run_batch(&spec, &seqs, &ss, &mut rep, case);
        }
        "long" => long_histories(&spec, case.usize("steps"), &mut rep),
        "wide" | "huge" => wide_histories(&spec, &mut rep),
        "revalidate" => revalidation(&spec, case.usize("depth"), &mut rep),
        _ => isolation(&spec, case.usize("depth"), &mut rep),
    }
    rep
}
