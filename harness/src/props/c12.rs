//! C12 — validate and predict_batch are faithful aggregations of predict.
use crate::gen::*;
use crate::json::Json;
use crate::libnet::{flat_dims, tensor};
use crate::refmodel::net::ref_shapes;
use crate::refmodel::objective::{Obj, OBJ7};
use crate::report::{Ctx, Meta, Report};
use crate::spec::*;
use crate::util::{fnv, guard, par_map, Kv, Rng};
use neurons::tensor::Tensor;

pub fn meta(_ctx: &Ctx) -> Meta {
    Meta {
        rule: "data-set sizes M in {0 (predict_batch only),1,2,3,63,64,65,127,128,129,130,200} (and 256, 257, 300, 1025 for a thin slice) (below, at, above the internal chunk size 64, not multiples of it) x heads {soft-max(3), linear(1), linear(3), sigmoid(2); soft-max(1) for a slice} x bodies {dense, conv+dense, conv+pool+dense, dense with a multiplicative skip connection, dense with a loop connection, dense with a loop and skip connections out of the looped range} x 7 objectives x tolerances {1e-6,0.1,0.5,10,-0.5 (nothing is within a negative tolerance)}; inputs pairwise distinct; targets placed clearly inside / outside the tolerance per component, arg-max unique; plus soft-max heads whose last two units are copies (tied maxima): the accuracy must be the mean of the single-sample verdicts, each 0 or 1, and lie between the certain and the possible agreements (the statement does not fix which of several maxima counts); for M in {3, 65}, every head, the dense and skip bodies, every objective and tolerance ALSO with the network reached through placeholder activations + set_activation (the output layer crosses the soft-max / non-soft-max boundary on the way). Oracles: predict_batch(xs)[i] bit-equal predict(xs[i]) in input order, length M; predict = last activation of forward; validate loss = mean of objective.loss(predict(x),t); accuracy by the three documented rules; validate and predict_batch repeated inside pools of 1 and 2 workers. A state is one (M, head, body, objective, tolerance) configuration; transitions = predictions made; non-trivial = M >= 2".into(),
        bound: "M <= 200; complete product".into(),
        exhaustive: true,
        assumptions: vec!["the mean is compared with tolerance (M+2)*eps*mean|term| (any summation order)".into()],
    }
}

const SIZES: [usize; 12] = [0, 1, 2, 3, 63, 64, 65, 127, 128, 129, 130, 200];
const TOLS: [f32; 5] = [1e-6, 0.1, 0.5, 10.0, -0.5];

fn net_for(head: &str, body: &str) -> Net {
    let head_layer = match head {
        "softmax3" => L::Dense { n: 3, act: Act::Softmax, bias: true, drop: None },
        "softmax1" => L::Dense { n: 1, act: Act::Softmax, bias: true, drop: None },
        "linear1" => L::Dense { n: 1, act: Act::Linear, bias: true, drop: None },
        "linear3" => L::Dense { n: 3, act: Act::Linear, bias: true, drop: None },
        _ => L::Dense { n: 2, act: Act::Sigmoid, bias: true, drop: None },
    };
    match body {
        "dense" => Net::new(Dims::Flat(4), vec![L::Dense { n: 5, act: Act::Tanh, bias: true, drop: None }, head_layer]),
        "conv" => Net::new(
            Dims::Chw(1, 3, 4),
            vec![L::Conv { f: 2, k: (2, 2), s: (1, 1), p: (0, 0), d: (1, 1), act: Act::Relu, drop: None }, head_layer],
        ),
        "skip" => {
            let mut n = Net::new(
                Dims::Flat(4),
                vec![L::Dense { n: 4, act: Act::Tanh, bias: true, drop: None }, L::Dense { n: 4, act: Act::Tanh, bias: true, drop: None }, head_layer],
            );
            n.connects = vec![(0, 1)];
            n.skipacc = Acc::Mul;
            n
        }
        "loopskip" => {
            // a loop over layers 0..2 and a skip connection from INSIDE the looped range to the layer behind it
            let d = || L::Dense { n: 4, act: Act::Tanh, bias: true, drop: None };
            let mut n = Net::new(Dims::Flat(4), vec![d(), d(), d(), d(), head_layer]);
            n.loopbacks = vec![(2, 0, 2, false)];
            n.loopacc = Acc::Mean;
            n.connects = vec![(2, 3), (1, 4)];
            n.skipacc = Acc::Add;
            n
        }
        "loop" => {
            let mut n = Net::new(
                Dims::Flat(4),
                vec![L::Dense { n: 4, act: Act::Tanh, bias: true, drop: None }, L::Dense { n: 4, act: Act::Tanh, bias: true, drop: None }, head_layer],
            );
            n.loopbacks = vec![(1, 0, 2, true)];
            n.loopacc = Acc::Mean;
            n
        }
        _ => Net::new(
            Dims::Chw(1, 4, 4),
            vec![
                L::Conv { f: 2, k: (2, 2), s: (1, 1), p: (0, 0), d: (1, 1), act: Act::Tanh, drop: None },
                L::Pool { k: (2, 2), s: (1, 1) },
                head_layer,
            ],
        ),
    }
}

pub fn check(seed: u64, case: &Kv, rep: &mut Report) {
    // "via=1": the network is built with placeholder activations and the real ones are installed afterwards through the
    // public set_activation (the output layer crosses the soft-max / non-soft-max boundary on the way)
    let via = case.opt("via").is_some();
    crate::gen::VIA_SET_ACTIVATION.with(|v| v.set(via));
    if via {
        rep.count("cases_built_through_set_activation", 1);
    }
    check_inner(seed, case, rep);
    crate::gen::VIA_SET_ACTIVATION.with(|v| v.set(false));
}

fn check_inner(seed: u64, case: &Kv, rep: &mut Report) {
    let m = case.usize("m");
    let head = case.get("head").to_string();
    let o = Obj::parse(case.get("obj"));
    let tol = case.f32("tol");
    let net = net_for(&head, case.get("body"));
    rep.states += 1;
    rep.evaluations += 1;
    if m >= 2 {
        rep.nontrivial += 1;
    }
    let shapes = ref_shapes(&net).unwrap();
    let key = format!("{}/{}", net.name(), m);
    let mut params: Vec<P<f32>> = params_for(&net, &shapes, Valuation::Generic, seed, &key).iter().map(|p| p.map(&|v| v * 0.5)).collect();
    // "ties": the last two output units are copies of each other, so their outputs are equal bit for bit in every
    // prediction (tied maxima for about a third of the inputs)
    let ties = case.opt("ties").is_some();
    if ties {
        let last = params.len() - 1;
        let n_out = shapes[last].out.count();
        let n_in = params[last].w[0].len() / n_out;
        for i in 0..n_in {
            params[last].w[0][(n_out - 1) * n_in + i] = params[last].w[0][(n_out - 2) * n_in + i];
        }
        if let Some(b) = params[last].b.as_mut() {
            b[n_out - 1] = b[n_out - 2];
        }
    }
    let mut lib = match build_with(&net, &shapes, &params) {
        Ok(l) => l,
        Err(e) => {
            rep.violate("C12 builder rejects", e, case);
            return;
        }
    };
    lib.set_objective(o.lib(), None);
    let n_in = net.input.count();
    let mut r = Rng::new(seed, fnv(&key) ^ 0x7777);
    let xs: Vec<Tensor> = (0..m)
        .map(|i| {
            let v: Vec<f32> = (0..n_in).map(|j| r.signed(0.1, 1.0) + (i as f32) * 0.001 + j as f32 * 0.0001).collect();
            tensor(net.input, &v)
        })
        .collect();
    let refs: Vec<&Tensor> = xs.iter().collect();
    if m == 0 {
        // nothing to aggregate: predict_batch of no inputs is the empty list
        rep.transitions += 1;
        match guard(|| lib.predict_batch(&refs)) {
            Ok(v) => {
                if !v.is_empty() {
                    rep.violate("C12 predict_batch length", format!("{} outputs for 0 inputs", v.len()), case);
                }
            }
            Err(e) => rep.violate("C12 predict_batch panics", e, case),
        }
        return;
    }
    // predict per element
    rep.transitions += m as u64;
    let singles: Vec<Vec<f32>> = match guard(|| xs.iter().map(|x| flat_dims(&lib.predict(x)).map(|d| d.1)).collect::<Result<Vec<_>, _>>()) {
        Ok(Ok(v)) => v,
        Ok(Err(e)) => {
            rep.violate("C12 predict shape", e, case);
            return;
        }
        Err(e) => {
            rep.violate("C12 predict panics", e, case);
            return;
        }
    };
    // predict == last activation of forward (first and last element)
    for &i in &[0usize, m - 1] {
        match guard(|| lib.forward(&xs[i])) {
            Ok((_, post, _, _)) => {
                let last = flat_dims(post.last().unwrap()).map(|d| d.1).unwrap_or_default();
                if !crate::util::bits_eq(&last, &singles[i]) {
                    rep.violate("C12 predict differs from the last activation of forward", format!("element {}", i), case);
                }
            }
            Err(e) => rep.violate("C12 forward panics", e, case),
        }
    }
    // predict_batch
    rep.transitions += m as u64;
    match guard(|| lib.predict_batch(&refs)) {
        Ok(batch) => {
            if batch.len() != m {
                rep.violate("C12 predict_batch length", format!("{} outputs for {} inputs", batch.len(), m), case);
            } else {
                for i in 0..m {
                    let b = flat_dims(&batch[i]).map(|d| d.1).unwrap_or_default();
                    if !crate::util::bits_eq(&b, &singles[i]) {
                        let elsewhere = (0..m).find(|&j| crate::util::bits_eq(&b, &singles[j]));
                        rep.violate(
                            if elsewhere.is_some() { "C12 predict_batch order" } else { "C12 predict_batch value" },
                            format!("output {} of {} is not predict(input {}){}", i, m, i, elsewhere.map(|j| format!(" but predict(input {})", j)).unwrap_or_default()),
                            case,
                        );
                        break;
                    }
                }
            }
        }
        Err(e) => rep.violate("C12 predict_batch panics", e, case),
    }
    // targets: clearly inside / outside the tolerance; soft-max: arg-max agreement or not
    let softmax = head == "softmax3" || head == "softmax1";
    let width = singles[0].len();
    let mut targets: Vec<Tensor> = Vec::new();
    let mut want_acc: Vec<f64> = Vec::new();
    // with tied maxima "the arg-max" is not unique and the statement does not say which one counts: a sample whose
    // target class is one of several maxima may score either way (lo / hi bound the accuracy)
    let (mut lo, mut hi, mut tied) = (0usize, 0usize, 0usize);
    for i in 0..m {
        let p = &singles[i];
        if softmax && ties {
            let top = p.iter().cloned().fold(f32::MIN, f32::max);
            let maxima: Vec<usize> = (0..width).filter(|c| p[*c] == top).collect();
            let idx = r.below(width);
            let mut t = vec![0.0f32; width];
            t[idx] = 1.0;
            targets.push(Tensor::single(t));
            if maxima.len() > 1 {
                tied += 1;
            }
            if maxima == vec![idx] {
                lo += 1;
            }
            if maxima.contains(&idx) {
                hi += 1;
            }
            want_acc.push(0.0);
        } else if softmax && width == 1 {
            // one class: the arg-max of prediction and target is component 0 whatever the label value
            let t = [1.0f32, 0.25, 0.0, 0.75][r.below(4)];
            targets.push(Tensor::single(vec![t]));
            want_acc.push(1.0);
        } else if softmax {
            let am = (0..width).max_by(|a, b| p[*a].partial_cmp(&p[*b]).unwrap()).unwrap();
            let hit = r.below(2) == 0;
            let idx = if hit { am } else { (am + 1 + r.below(width - 1)) % width };
            let mut t = vec![0.0f32; width];
            t[idx] = 1.0;
            targets.push(Tensor::single(t));
            want_acc.push(if hit { 1.0 } else { 0.0 });
        } else {
            let mut t = Vec::new();
            let mut inside = 0usize;
            for c in 0..width {
                let hit = r.below(2) == 0;
                let off = if hit { 0.5 * tol } else { 2.0 * tol + 1e-5 };
                let sign = if r.below(2) == 0 { 1.0 } else { -1.0 };
                let tv = p[c] + sign * off;
                // the library compares |t - p| in f32
                if (tv - p[c]).abs() < tol {
                    inside += 1;
                }
                t.push(tv);
            }
            targets.push(Tensor::single(t));
            want_acc.push(inside as f64 / width as f64);
        }
    }
    let trefs: Vec<&Tensor> = targets.iter().collect();
    // expected loss from the library's own objective on the library's predictions
    let objf = neurons::objective::Function::create(o.lib(), None);
    let losses: Vec<f64> = (0..m).map(|i| objf.loss(&Tensor::single(singles[i].clone()), &targets[i]).0 as f64).collect();
    let want_loss = losses.iter().sum::<f64>() / m as f64;
    let want_a = want_acc.iter().sum::<f64>() / m as f64;
    if ties {
        rep.count("samples_with_tied_maxima", tied as u64);
        rep.transitions += 2 * m as u64;
        // the aggregate must equal the mean of the single-sample verdicts (whatever the tie-break is, it is one rule),
        // and lie between the certain hits and the possible hits
        let r = guard(|| {
            let all = lib.validate(&refs, &trefs, tol);
            let singly: Vec<(f32, f32)> = (0..m).map(|i| lib.validate(&[refs[i]], &[trefs[i]], tol)).collect();
            (all, singly)
        });
        match r {
            Ok(((loss, acc), singly)) => {
                let eps = (m as f64 + 2.0) * f32::EPSILON as f64;
                if singly.iter().any(|s| s.1 != 0.0 && s.1 != 1.0) {
                    rep.violate("C12 validate accuracy of one soft-max sample is neither 0 nor 1", format!("{:?}", singly.iter().map(|s| s.1).collect::<Vec<_>>()), case);
                }
                let mean_single = singly.iter().map(|s| s.1 as f64).sum::<f64>() / m as f64;
                if (acc as f64 - mean_single).abs() > eps {
                    rep.violate("C12 validate accuracy (arg-max rule, tied maxima) is not the mean of the per-sample verdicts", format!("validate = {}, mean of single-sample accuracies = {} (M = {})", acc, mean_single, m), case);
                }
                if (acc as f64) < lo as f64 / m as f64 - eps || (acc as f64) > hi as f64 / m as f64 + eps {
                    rep.violate("C12 validate accuracy (arg-max rule, tied maxima)", format!("validate = {}, but between {} and {} of {} samples agree", acc, lo, hi, m), case);
                }
                let mean_abs = losses.iter().map(|l| l.abs()).sum::<f64>() / m as f64;
                if !((loss as f64 - want_loss).abs() <= eps * mean_abs + 1e-30) {
                    rep.violate("C12 validate loss is not the mean per-sample loss", format!("validate = {:e}, mean of {} per-sample losses = {:e}", loss, m, want_loss), case);
                }
            }
            Err(e) => rep.violate("C12 validate panics", crate::util::first_line(&e), case),
        }
        return;
    }
    // the same aggregation inside pools of one and two workers (chunking must not depend on the pool)
    for t in [1usize, 2] {
        let pool = rayon::ThreadPoolBuilder::new().num_threads(t).build().expect("pool");
        rep.transitions += 2 * m as u64;
        match guard(|| pool.install(|| (lib.validate(&refs, &trefs, tol), lib.predict_batch(&refs)))) {
            Ok(((loss, acc), batch)) => {
                let mean_abs = losses.iter().map(|l| l.abs()).sum::<f64>() / m as f64;
                let tl = (m as f64 + 2.0) * f32::EPSILON as f64 * mean_abs + 1e-30;
                let loss_ok = (loss.is_nan() && want_loss.is_nan()) || (loss as f64 - want_loss).abs() <= tl;
                if !loss_ok || (acc as f64 - want_a).abs() > (m as f64 + 2.0) * f32::EPSILON as f64 {
                    rep.violate(
                        "C12 validate inside a small thread pool is not the mean over all samples",
                        format!("{} worker(s), M = {}: validate = ({:e}, {}), expected ({:e}, {})", t, m, loss, acc, want_loss, want_a),
                        case,
                    );
                }
                if batch.len() != m || (0..m).any(|i| !crate::util::bits_eq(&flat_dims(&batch[i]).map(|d| d.1).unwrap_or_default(), &singles[i])) {
                    rep.violate("C12 predict_batch inside a small thread pool", format!("{} worker(s), M = {}", t, m), case);
                }
            }
            Err(e) => rep.violate("C12 validate/predict_batch panics inside a small thread pool", crate::util::first_line(&e), case),
        }
    }
    rep.transitions += m as u64;
    match guard(|| lib.validate(&refs, &trefs, tol)) {
        Ok((loss, acc)) => {
            let mean_abs = losses.iter().map(|l| l.abs()).sum::<f64>() / m as f64;
            let tl = (m as f64 + 2.0) * f32::EPSILON as f64 * mean_abs + 1e-30;
            let loss_ok = (loss.is_nan() && want_loss.is_nan()) || (loss as f64 - want_loss).abs() <= tl;
            if !loss_ok {
                rep.violate("C12 validate loss is not the mean per-sample loss", format!("validate = {:e}, mean of {} per-sample losses = {:e}", loss, m, want_loss), case);
            }
            if (acc as f64 - want_a).abs() > (m as f64 + 2.0) * f32::EPSILON as f64 {
                rep.violate(
                    format!("C12 validate accuracy ({})", if softmax { "arg-max rule" } else if width == 1 { "single-output tolerance rule" } else { "component-fraction rule" }),
                    format!("validate = {}, expected {} (M = {}, tol = {})", acc, want_a, m, tol),
                    case,
                );
            }
        }
        Err(e) => rep.violate("C12 validate panics", crate::util::first_line(&e), case),
    }
}

pub fn cases(thorough: bool) -> Vec<Kv> {
    let mut out = Vec::new();
    let mut sizes: Vec<usize> = SIZES.to_vec();
    if thorough {
        // every size in windows around the internal chunk boundaries
        sizes.extend((4..=12).chain(58..=70).chain(122..=134).chain(190..=194));
        sizes.sort_unstable();
        sizes.dedup();
    }
    for m in sizes {
        for head in ["softmax3", "linear1", "linear3", "sigmoid2"] {
            for body in ["dense", "conv", "convpool", "skip", "loop", "loopskip"] {
                for o in OBJ7 {
                    for tol in TOLS {
                        out.push(Kv::new().put("m", m).put("head", head).put("body", body).put("obj", o.name()).put("tol", tol));
                    }
                }
            }
        }
    }
    // a soft-max head with a single unit (one class): arg-max agreement is 1 whatever the label and the tolerance
    for m in [1usize, 3, 65, 130] {
        for body in ["dense", "conv"] {
            for o in OBJ7 {
                for tol in [1e-6f32, 0.5] {
                    out.push(Kv::new().put("m", m).put("head", "softmax1").put("body", body).put("obj", o.name()).put("tol", tol));
                }
            }
        }
    }
    // the same network reached through set_activation (placeholder activations first)
    for m in [3usize, 65] {
        for head in ["softmax3", "linear1", "linear3", "sigmoid2", "softmax1"] {
            for body in ["dense", "skip"] {
                for o in OBJ7 {
                    for tol in TOLS {
                        out.push(Kv::new().put("m", m).put("head", head).put("body", body).put("obj", o.name()).put("tol", tol).put("via", 1));
                    }
                }
            }
        }
    }
    // tied maxima in the soft-max head
    for m in [1usize, 2, 3, 63, 65, 130] {
        for body in ["dense", "conv", "skip"] {
            for o in OBJ7 {
                out.push(Kv::new().put("m", m).put("head", "softmax3").put("body", body).put("obj", o.name()).put("tol", 0.1).put("ties", 1));
            }
        }
    }
    // beyond the small bound: 256 / 257 / 300 / 1025 samples for a thin slice of the product
    for m in [256usize, 257, 300, 1025] {
        for head in ["softmax3", "linear3"] {
            for body in ["dense", "conv"] {
                out.push(Kv::new().put("m", m).put("head", head).put("body", body).put("obj", "MSE").put("tol", 0.1));
            }
        }
    }
    out
}

pub fn run(ctx: &Ctx) -> Report {
    let cs = cases(ctx.tier.thorough());
    let seed = ctx.seed;
    let chunks: Vec<&[Kv]> = cs.chunks(16).collect();
    let parts = par_map(&chunks, |_, c| {
        let mut r = Report::new();
        for k in c.iter() {
            check(seed, k, &mut r);
        }
        r
    });
    let mut rep = Report::new();
    rep.merge_all(parts);
    for i in [0usize, cs.len() / 3, cs.len() / 2, cs.len() - 1] {
        rep.sample(cs[i].to_json());
    }
    rep.notes.insert("cases".into(), Json::i(cs.len() as i64));
    rep.traces_validated = rep.states;
    rep
}

pub fn replay(ctx: &Ctx, case: &Kv) -> Report {
    let mut r = Report::new();
    check(ctx.seed, case, &mut r);
    r
}
