//! C13 — early stopping and the returned histories obey their contract.
//! The real learn() is steered black-box through EVERY validation-loss trajectory over
//! {rise, fall, equal}: network Single(K) -> dense(1, linear, no bias), one-hot training samples under the
//! AE objective make every weight a ramp that saturates after a chosen number of epochs, and one
//! validation sample with integer entries turns that into an exact piecewise-linear validation loss.
use crate::json::Json;
use crate::libnet::{build_with_simple, tensor};
use crate::report::{Ctx, Meta, Report};
use crate::spec::*;
use crate::util::{guard, par_map, Kv};
use neurons::tensor::Tensor;

pub fn meta(ctx: &Ctx) -> Meta {
    let e = max_epochs(ctx);
    Meta {
        rule: format!("every validation-loss trajectory in {{rise,fall,equal}}^(E-1) for epoch budgets E in 1..{} x every tolerance T in 1..5, plus tolerances 6..12, 16, 20 with budgets T+1, T+2, T+4 on all trajectories with at most two non-rise events, with validation data (also with print frequencies 1, 2 and beyond the budget on a third of them, a quarter each after an earlier learn() call on the same network without / with validation data (which leaves the weights untouched), a third of them at a tiny scale: loss 2^-20 moving in steps of 2^-27, a third at a large offset: loss 2^20 moving by one unit in the last place per epoch, every trajectory without a fall also starting at a loss of exactly 0, half of the trajectories without an 'equal' step also with three validation samples around a loss of 2^20 whose recorded mean repeats while their sum rises (trajectory read back, not commanded), every trajectory with an 'equal' step and half of the others also with one extra validation sample per epoch arranged so that the validation ACCURACY rises strictly at every epoch while the summed loss makes exactly the commanded steps, and every trajectory without an 'equal' step that stops early also with a second validation sample steered so that the validation ACCURACY reaches a strict new best exactly at the stopping epoch); strictly rising trajectories under epoch budgets of 1000, 65536, i32::MAX-1 and i32::MAX (must stop at epoch T+1; watchdog of 60 s); every E in 1..{} without; the unmodified learn() is driven through each of them and the commanded pattern is re-derived from the returned vector (only matching runs count). Oracle over what learn() returned: len(train)=n; len(val_loss)=len(val_acc)=n (0 and n=E without validation data); stop(e) := e>T and the last T recorded losses strictly increasing is false for every e<n; if n<E then stop(n). States = (epoch, pattern prefix) pairs visited; transitions = epochs run; non-trivial = trajectories with at least one rise", e, e),
        bound: format!("E <= {}, T <= 5; complete", e),
        exhaustive: true,
        assumptions: vec!["stop rule read as in the statement's anchor: the window of the last T recorded validation losses is strictly increasing (T-1 comparisons) and more than T epochs have run".into()],
    }
}

fn max_epochs(ctx: &Ctx) -> usize {
    if ctx.tier.thorough() {
        10
    } else {
        6
    }
}

thread_local! {
    /// first validation loss of a probe run (scale "zero" needs the prediction after the first epoch)
    static PROBE: std::cell::Cell<Option<f32>> = const { std::cell::Cell::new(None) };
}

/// pattern char per step e -> e+1 (e = 1..E-1): 'r' rise, 'f' fall, 'e' equal
pub fn check(case: &Kv, rep: &mut Report) {
    let epochs = case.usize("epochs");
    let tol = case.usize("tol");
    let with_val = case.bool("val");
    let print: Option<i32> = case.opt("print").and_then(|p| p.parse().ok());
    let pattern: Vec<char> = case.get("pattern").chars().collect();
    assert_eq!(pattern.len(), epochs.saturating_sub(1).max(0));
    rep.states += epochs as u64;
    rep.evaluations += 1;
    if pattern.contains(&'r') {
        rep.nontrivial += 1;
    }
    let k = epochs.max(1);
    // the same construction at a tiny scale: steps of 2^-27 (far below f32::EPSILON) around a loss of 2^-20
    let tiny = case.opt("scale") == Some("tiny");
    let lr = if tiny { 7.450_580_6e-9f32 } else { 0.125f32 };
    // coordinate i (0-based) moves +lr per epoch for epochs 1..=i+1, then sits on its target
    // step e -> e+1 (1-based e) has active coordinates i >= e ; delta = -lr * sum_{i>=e} a_i
    // choose A_e = sum_{i>=e} a_i = -c_e  (c = +1 rise, -1 fall, 0 equal)
    let c: Vec<i32> = pattern.iter().map(|p| match p { 'r' => 1, 'f' => -1, _ => 0 }).collect();
    // "accrise": besides the steered sample, one validation sample per coordinate (the one-hot input of coordinate j with
    // coordinate j's training target): it is predicted exactly from epoch j+1 on, so the validation ACCURACY rises strictly
    // at every epoch (e of k+1 samples correct after epoch e), and its loss falls by lr per epoch until then. The steered
    // sample compensates those falls (n_e samples still moving at step e), so that the SUM of the losses makes exactly the
    // commanded step - in particular stays exactly equal on an 'equal' step while the accuracy rises. The stop rule is a
    // predicate of the loss history alone.
    let accrise = case.opt("scale") == Some("accrise");
    let moving = |e: usize| -> i32 { if accrise { (epochs - e) as i32 } else { 0 } };
    let mut a = vec![0i32; k];
    for e in (1..epochs).rev() {
        let a_next: i32 = if e + 1 < epochs { -c[e] - moving(e + 1) } else { 0 }; // A_{e+1}
        a[e] = -c[e - 1] - moving(e) - a_next;
    }
    // "acc": a second validation sample whose prediction meets its target exactly at epoch e* (the epoch at which the
    // stop rule first holds) and at no other epoch: the validation ACCURACY then reaches a strict new best at the very
    // epoch at which the loss rule fires. The stop rule is a predicate of the loss history alone. The first sample's
    // input is tripled so that the sign of every loss step is still the commanded one (patterns without 'equal' only).
    let acc_at: Option<usize> = case.opt("estar").and_then(|x| x.parse().ok());
    // "thirds": three validation samples - the steered one moving by 2 ulp of the SUM per epoch around a loss of 2^20,
    // and two constant ones. The recorded mean (sum / 3) then repeats itself now and then although the sum rises every
    // epoch: division is only weakly monotone. The contract speaks of the recorded losses; in this mode the trajectory is
    // not commanded but read back, and the contract is evaluated on what was recorded.
    let thirds = case.opt("scale") == Some("thirds");
    let (kk, mult) = if acc_at.is_some() { (k + 1, 3.0f32) } else if thirds { (k, 2.0f32) } else { (k, 1.0f32) };
    let w0: Vec<f32> = vec![0.0; kk];
    let mut targets: Vec<f32> = (0..k).map(|i| lr * (i + 1) as f32).collect();
    if acc_at.is_some() {
        targets.push(lr * (epochs + 8) as f32);
    }
    let k_orig = k;
    let k = kk;
    let net = Net::new(Dims::Flat(k), vec![L::Dense { n: 1, act: Act::Linear, bias: false, drop: None }]);
    let mut lib = match build_with_simple(&net, &[P { w: vec![w0.clone()], b: None, inner: vec![] }]) {
        Ok(l) => l,
        Err(e) => {
            rep.violate("C13 builder rejects", e, case);
            return;
        }
    };
    lib.set_objective(neurons::objective::Objective::AE, None);
    lib.set_optimizer(neurons::optimizer::SGD::create(lr, None));
    let xs: Vec<Tensor> = (0..k).map(|i| Tensor::one_hot(i, k)).collect();
    let ts: Vec<Tensor> = (0..k).map(|i| Tensor::single(vec![targets[i]])).collect();
    let xv = tensor(Dims::Flat(k), &(0..k).map(|i| if i < k_orig { mult * a[i] as f32 } else { 0.0 }).collect::<Vec<_>>());
    let xv2 = Tensor::one_hot(k - 1, k);
    let tv2 = Tensor::single(vec![lr * acc_at.unwrap_or(0) as f32]);
    // "offset": a loss of 2^20 moving by 1/8 per epoch - one unit in the last place, a relative change of 1.2e-7
    let offset = case.opt("scale") == Some("offset");
    // "zero": the validation target is the prediction after the first epoch, so the first recorded loss is EXACTLY 0 and
    // the trajectory rises (or stays) from there - only for patterns without a fall (the loss is an absolute value)
    let zero = case.opt("scale") == Some("zero");
    let mut target_value = if tiny { 9.536_743e-7 } else if offset || thirds { 1_048_576.0 } else { 1000.0 };
    if zero {
        let mut probe = Kv::new();
        for key in ["epochs", "tol", "val", "pattern"] {
            probe.set(key, case.get(key));
        }
        probe.set("probe", 1);
        PROBE.with(|p| p.set(None));
        check(&probe, &mut Report::new());
        match PROBE.with(|p| p.get()) {
            Some(first) => target_value = 1000.0 - first,
            None => {
                rep.count("steering_mismatch", 1);
                rep.violate("C13 steering failed (machinery)", "the probe run did not report a first validation loss".to_string(), case);
                return;
            }
        }
    }
    let tv = Tensor::single(vec![target_value]);
    let xr: Vec<&Tensor> = xs.iter().collect();
    let tr: Vec<&Tensor> = ts.iter().collect();
    let blank = tensor(Dims::Flat(k), &vec![0.0; k]);
    let (vx, vt) = if accrise {
        let mut vx = vec![&xv];
        vx.extend(xs.iter());
        let mut vt = vec![&tv];
        vt.extend(ts.iter());
        (vx, vt)
    } else if acc_at.is_some() {
        (vec![&xv, &xv2], vec![&tv, &tv2])
    } else if thirds {
        (vec![&xv, &blank, &blank], vec![&tv, &tv, &tv])
    } else {
        (vec![&xv], vec![&tv])
    };
    // "pre": an earlier learn() call on the same network that leaves the weights where they are (targets equal to the
    // untrained outputs: the absolute-error gradient is exactly zero) - the contract is per call, whatever was run before
    let zero_ts: Vec<Tensor> = (0..k).map(|_| Tensor::single(vec![0.0])).collect();
    let ztr: Vec<&Tensor> = zero_ts.iter().collect();
    let pre_ok = guard(|| match case.opt("pre") {
        Some("noval") => {
            lib.learn(&xr, &ztr, None, 1, 3, None);
        }
        Some("val") => {
            lib.learn(&xr, &ztr, Some((&vx, &vt, tol as i32)), 1, tol as i32 + 2, None);
        }
        _ => (),
    });
    if let Err(e) = pre_ok {
        rep.violate("C13 learn panics", crate::util::first_line(&e), case);
        return;
    }
    if case.opt("pre").is_some() {
        rep.count("runs_after_an_earlier_learn_call", 1);
        match neurons::verif::params(&lib).first().map(|p| crate::libnet::flat(&p.weights[0])) {
            Some(Ok((_, w))) if w.iter().all(|v| *v == 0.0) => (),
            _ => {
                rep.count("steering_mismatch", 1);
                rep.violate("C13 steering failed (machinery)", "the preparatory learn() call moved the weights".to_string(), case);
                return;
            }
        }
    }
    // "budget": the epoch budget handed to learn() when it is larger than the steered trajectory (which is all-rise and
    // therefore ends in a stop at epoch T+1): budgets up to i32::MAX. A library that fails to stop would run for hours, so
    // these runs sit in their own thread under a watchdog.
    let budget: i32 = case.opt("budget").map(|b| b.parse().unwrap()).unwrap_or(epochs as i32);
    let res = if case.opt("budget").is_some() {
        struct Boxed(neurons::network::Network, Vec<Tensor>, Vec<Tensor>, Tensor, Tensor);
        unsafe impl Send for Boxed {}
        let boxed = Boxed(lib, xs.clone(), ts.clone(), xv.clone(), tv.clone());
        let (tx, rx) = std::sync::mpsc::channel();
        let tolv = tol as i32;
        std::thread::spawn(move || {
            let mut b = boxed;
            let r = guard(|| {
                let xr: Vec<&Tensor> = b.1.iter().collect();
                let tr: Vec<&Tensor> = b.2.iter().collect();
                let (vx, vt) = (vec![&b.3], vec![&b.4]);
                b.0.learn(&xr, &tr, Some((&vx, &vt, tolv)), 1, budget, None)
            });
            let _ = tx.send(r);
        });
        match rx.recv_timeout(std::time::Duration::from_secs(60)) {
            Ok(r) => r,
            Err(_) => {
                rep.violate(
                    "C13 continues past the first epoch at which the stop rule holds",
                    format!("tolerance {}, budget {}: a strictly rising validation loss should stop training after epoch {}; learn() is still running after 60 s", tol, budget, tol + 1),
                    case,
                );
                return;
            }
        }
    } else {
        guard(|| {
            if with_val {
                lib.learn(&xr, &tr, Some((&vx, &vt, tol as i32)), 1, epochs as i32, print)
            } else {
                lib.learn(&xr, &tr, None, 1, epochs as i32, print)
            }
        })
    };
    let (train, val, acc) = match res {
        Ok(x) => x,
        Err(e) => {
            rep.violate("C13 learn panics", crate::util::first_line(&e), case);
            return;
        }
    };
    let n = train.len();
    rep.transitions += n as u64;
    if n == 0 || n as i64 > budget as i64 {
        rep.violate("C13 number of training-loss entries", format!("{} entries for an epoch budget of {}", n, budget), case);
        return;
    }
    if n > epochs {
        // only with a budget beyond the steered (all-rise) trajectory: the stop rule held at its end
        rep.violate(
            "C13 continues past the first epoch at which the stop rule holds",
            format!("tolerance {}, budget {}: {} epochs ran although the validation loss rose strictly for the first {}", tol, budget, n, epochs),
            case,
        );
        return;
    }
    if !with_val {
        if n != epochs {
            rep.violate("C13 stops early without validation data", format!("{} of {} epochs", n, epochs), case);
        }
        if !val.is_empty() || !acc.is_empty() {
            rep.violate("C13 validation entries without validation data", format!("{} / {}", val.len(), acc.len()), case);
        }
        return;
    }
    if val.len() != n || acc.len() != n {
        rep.violate(
            "C13 validation history length differs from the training history",
            format!("train {} entries, validation loss {}, validation accuracy {}", n, val.len(), acc.len()),
            case,
        );
        return;
    }
    if case.opt("probe").is_some() {
        PROBE.with(|p| p.set(val.first().copied()));
        return;
    }
    if zero && val.first() != Some(&0.0) {
        rep.count("steering_mismatch", 1);
        rep.violate("C13 steering failed (machinery)", format!("the first validation loss should be exactly 0, validation losses {:?}", val), case);
        return;
    }
    if thirds {
        if (1..n).any(|e| val[e] == val[e - 1]) && pattern.iter().take(n.saturating_sub(1)).all(|p| *p == 'r') {
            rep.count("recorded_plateaus_under_a_rising_sum", 1);
        }
    }
    // the realised pattern must be the commanded one (otherwise the steering failed: machinery, not verdict)
    for e in 1..if thirds { 1 } else { n } {
        let realised = if val[e] > val[e - 1] {
            'r'
        } else if val[e] < val[e - 1] {
            'f'
        } else {
            'e'
        };
        if realised != pattern[e - 1] {
            rep.count("steering_mismatch", 1);
            rep.violate("C13 steering failed (machinery)", format!("commanded {:?}, validation losses {:?}", pattern, val), case);
            return;
        }
    }
    rep.count("trajectories_realised", 1);
    if accrise {
        if (1..n).all(|e| acc[e] > acc[e - 1]) {
            if (1..n).any(|e| val[e] == val[e - 1]) {
                rep.count("runs_with_an_equal_loss_step_under_a_strictly_rising_accuracy", 1);
            }
        } else {
            rep.count("steering_mismatch", 1);
            rep.violate("C13 steering failed (machinery)", format!("the validation accuracy should rise at every epoch: {:?}", acc), case);
            return;
        }
    }
    if let Some(es) = acc_at {
        if es <= n && acc[es - 1] > 0.0 && acc[..es - 1].iter().all(|v| *v < acc[es - 1]) {
            rep.count("runs_whose_accuracy_peaks_at_the_stopping_epoch", 1);
        }
    }
    let stop = |e: usize| -> bool {
        // e is 1-based, val[0..e] recorded
        if e <= tol {
            return false;
        }
        (e - tol..e - 1).all(|j| val[j] < val[j + 1])
    };
    for e in 1..n {
        if stop(e) {
            rep.violate(
                "C13 continues past the first epoch at which the stop rule holds",
                format!("tolerance {}, validation losses {:?}: rule holds at epoch {} but {} epochs ran", tol, val, e, n),
                case,
            );
            return;
        }
    }
    if (n as i64) < budget as i64 && !stop(n) {
        rep.violate(
            "C13 stops although the stop rule does not hold",
            format!("tolerance {}, validation losses {:?}: stopped after epoch {} of {}", tol, val, n, budget),
            case,
        );
    }
}

pub fn cases(ctx: &Ctx) -> Vec<Kv> {
    let mut out = Vec::new();
    for epochs in 1..=max_epochs(ctx) {
        out.push(Kv::new().put("epochs", epochs).put("tol", 1).put("val", 0).put("pattern", "e".repeat(epochs - 1)));
        let n = 3usize.pow((epochs - 1) as u32);
        for code in 0..n {
            let mut c = code;
            let pat: String = (0..epochs - 1)
                .map(|_| {
                    let ch = ['r', 'f', 'e'][c % 3];
                    c /= 3;
                    ch
                })
                .collect();
            for tol in 1..=5usize {
                out.push(Kv::new().put("epochs", epochs).put("tol", tol).put("val", 1).put("pattern", &pat));
                // the reporting frequency must not influence the contract (output is diverted)
                if (code + tol) % 3 == 1 {
                    out.push(Kv::new().put("epochs", epochs).put("tol", tol).put("val", 1).put("pattern", &pat).put("scale", "tiny"));
                }
                if (code + tol) % 3 == 2 {
                    out.push(Kv::new().put("epochs", epochs).put("tol", tol).put("val", 1).put("pattern", &pat).put("scale", "offset"));
                }
                // the validation accuracy reaches a strict new best exactly at the epoch at which the loss rule first holds
                if !pat.contains('e') {
                    let mut v = vec![0i32];
                    for ch in pat.chars() {
                        let last = *v.last().unwrap();
                        v.push(last + if ch == 'r' { 1 } else { -1 });
                    }
                    let estar = (1..=epochs).find(|&e| e > tol && (e - tol..e - 1).all(|j| v[j] < v[j + 1]));
                    if let Some(es) = estar {
                        if es >= 2 {
                            out.push(Kv::new().put("epochs", epochs).put("tol", tol).put("val", 1).put("pattern", &pat).put("estar", es));
                        }
                    }
                }
                // the validation accuracy rises strictly at EVERY epoch whatever the loss does (in particular while it stays equal)
                if pat.contains('e') || (code + tol) % 2 == 1 {
                    out.push(Kv::new().put("epochs", epochs).put("tol", tol).put("val", 1).put("pattern", &pat).put("scale", "accrise"));
                }
                // three validation samples around a loss of 2^20: the recorded mean repeats while the sum rises
                if !pat.contains('e') && (code + tol) % 2 == 0 {
                    out.push(Kv::new().put("epochs", epochs).put("tol", tol).put("val", 1).put("pattern", &pat).put("scale", "thirds"));
                }
                // trajectories that start at a loss of exactly 0 (no fall possible from there)
                if !pat.contains('f') {
                    out.push(Kv::new().put("epochs", epochs).put("tol", tol).put("val", 1).put("pattern", &pat).put("scale", "zero"));
                }
                // the same network has been through an earlier learn() call (without / with validation data)
                if (code + tol) % 4 == 0 {
                    out.push(Kv::new().put("epochs", epochs).put("tol", tol).put("val", 1).put("pattern", &pat).put("pre", "noval"));
                }
                if (code + tol) % 4 == 2 {
                    out.push(Kv::new().put("epochs", epochs).put("tol", tol).put("val", 1).put("pattern", &pat).put("pre", "val"));
                }
                for print in [1usize, 2, epochs + 5] {
                    if (code + tol + print) % 3 == 0 {
                        out.push(Kv::new().put("epochs", epochs).put("tol", tol).put("val", 1).put("pattern", &pat).put("print", print));
                    }
                }
            }
        }
    }
    // epoch budgets far beyond the trajectory: a strictly rising loss must stop training at epoch T+1 whatever the budget
    for tol in [2usize, 3, 5] {
        for budget in [1000i64, 65536, 2147483646, 2147483647] {
            out.push(Kv::new().put("epochs", tol + 1).put("tol", tol).put("val", 1).put("pattern", "r".repeat(tol)).put("budget", budget));
        }
    }
    // beyond the small bound: tolerances 6..=12 (and 16, 20) with budgets just above them; trajectories with at most two
    // non-rise events anywhere (a rise-only run is what finally triggers the stop)
    for tol in [6usize, 7, 8, 9, 10, 11, 12, 16, 20] {
        for epochs in [tol + 1, tol + 2, tol + 4] {
            let slots = epochs - 1;
            let mut pats: Vec<String> = vec!["r".repeat(slots)];
            for i in 0..slots {
                for c in ['f', 'e'] {
                    let mut p: Vec<char> = vec!['r'; slots];
                    p[i] = c;
                    pats.push(p.iter().collect());
                    if i % 3 == 0 {
                        for j in (i + 1..slots).step_by(4) {
                            let mut q = p.clone();
                            q[j] = 'f';
                            pats.push(q.iter().collect());
                        }
                    }
                }
            }
            for p in pats {
                out.push(Kv::new().put("epochs", epochs).put("tol", tol).put("val", 1).put("pattern", p));
            }
        }
    }
    out
}

pub fn run(ctx: &Ctx) -> Report {
    let cs = cases(ctx);
    let chunks: Vec<&[Kv]> = cs.chunks(64).collect();
    let parts = par_map(&chunks, |_, c| {
        let mut r = Report::new();
        for k in c.iter() {
            check(k, &mut r);
        }
        r
    });
    let mut rep = Report::new();
    rep.merge_all(parts);
    for i in [0usize, cs.len() / 3, cs.len() / 2, cs.len() - 1] {
        rep.sample(cs[i].to_json());
    }
    rep.notes.insert("cases".into(), Json::i(cs.len() as i64));
    rep.traces_validated = rep.evaluations;
    rep
}

pub fn replay(_ctx: &Ctx, case: &Kv) -> Report {
    let mut r = Report::new();
    check(case, &mut r);
    r
}
