//! C08 — announced layer shapes equal produced shapes; transitions lose nothing.
use crate::gen::*;
use crate::json::Json;
use crate::libnet::{self, dims_of, flat, flat_dims, tensor};
use crate::refmodel::layers::isqrt_exact;
use crate::refmodel::net::{param_shape, ref_shapes, LShape};
use crate::report::{Ctx, Meta, Report};
use crate::spec::*;
use crate::util::{guard, par_map, Kv};
use neurons::network::Network;
use neurons::tensor::{Shape, Tensor};

pub fn meta(ctx: &Ctx) -> Meta {
    let t = ctx.tier.thorough();
    Meta {
        rule: format!("builder as a state machine: every layer sequence of <= {} tokens from {{dense,conv,deconv,pool,feedback}} over 5 input shapes with <= {} configuration deviations{}; in every state: announced (input,output) shape of every layer vs the size formulas, a real forward pass on pairwise-distinct data (pre-activation shape = announced, handed-on shape = announced or its flattening, recorded shape = nesting), a real backward pass (gradient shapes = parameter shapes). Flat->spatial: EVERY flat size n in 1..{} in front of each of the three spatial layer kinds (and, for n <= 1024, in front of a feedback block starting with each of them) must be accepted iff n is a perfect square (also, through the layers' public constructors, the sizes r^2-2..r^2+2 for roots around 4096, 5793, 8192, 46341 and 65536, i.e. flat sizes from 2^24 to 2^32), and then a 1x1 identity kernel / 1x1 pool must reproduce the vector as 1 x r x r in row-major order; and for r in 2..5 EVERY configuration of the spatial layer (kernel 1..3, stride 1..2, padding 0..2, dilation 1..2 per axis, two filters; deconvolution and max-pool likewise) behind dense(r*r) must be accepted iff it is accepted behind a 1 x r x r input and then compute bit for bit what it computes on the same values given as that tensor. Non-trivial = state with >= 2 layers or a flat size >= 2",
            if t { 3 } else { 3 }, if t { 2 } else { 1 }, if t { "; plus sequences of 4 tokens with <= 1 deviation" } else { "" }, if t { 65536 } else { 4096 }),
        bound: "depth <= 3 (4 in thorough at one deviation); kernels <= 3, strides <= 2(3), paddings <= 2, dilations <= 2".into(),
        exhaustive: true,
        assumptions: vec!["rejection = panic of the adding call; only configurations whose effective kernel fits the padded input are explored, as the statement quantifies".into()],
    }
}

fn expect_lib_shape(d: Dims) -> Shape {
    libnet::lib_shape(d)
}

fn shape_tree(sh: &LShape, out: &mut Vec<(Dims, Dims)>) {
    out.push((sh.inp, sh.out));
}

/// gradient-shape check: P<f32> from the library vs the parameter sizes of the description
fn grad_shape_mismatch(g: &P<f32>, want: &P<usize>) -> Option<String> {
    if g.w.len() != want.w.len() {
        return Some(format!("{} weight-gradient blocks for {} parameter blocks", g.w.len(), want.w.len()));
    }
    for (a, b) in g.w.iter().zip(&want.w) {
        if a.len() != b[0] {
            return Some(format!("weight gradient with {} entries for {} parameters", a.len(), b[0]));
        }
    }
    match (&g.b, &want.b) {
        (Some(a), Some(b)) if a.len() != b[0] => return Some(format!("bias gradient with {} entries for {} biases", a.len(), b[0])),
        (None, Some(_)) => return Some("no bias gradient for a layer with bias".into()),
        (Some(_), None) => return Some("bias gradient for a layer without bias".into()),
        _ => (),
    }
    if g.inner.len() != want.inner.len() {
        return Some(format!("{} inner gradients for {} unrolled layers", g.inner.len(), want.inner.len()));
    }
    for (a, b) in g.inner.iter().zip(&want.inner) {
        if let Some(e) = grad_shape_mismatch(a, b) {
            return Some(e);
        }
    }
    None
}

/// kind of the last layer of the shortest prefix of `net` for which `fails` holds
fn blame(net: &Net, fails: &dyn Fn(&Net) -> bool) -> String {
    for n in 1..=net.layers.len() {
        let pre = Net::new(net.input, net.layers[..n].to_vec());
        if ref_shapes(&pre).is_ok() && fails(&pre) {
            return pre.layers.last().unwrap().kind().to_string();
        }
    }
    net.layers.last().unwrap().kind().to_string()
}

fn forward_fails(net: &Net, seed: u64) -> bool {
    let shapes = ref_shapes(net).unwrap();
    let key = net.name();
    let params = params_for(net, &shapes, Valuation::Dyadic, seed, &key);
    let x = input_values(Valuation::Dyadic, net.input.count(), seed, &key);
    match build_with(net, &shapes, &params) {
        Ok(lib) => lib_forward(&lib, &tensor(net.input, &x)).is_err(),
        Err(_) => true,
    }
}

fn backward_fails(net: &Net, seed: u64) -> bool {
    let shapes = ref_shapes(net).unwrap();
    let key = net.name();
    let params = params_for(net, &shapes, Valuation::Dyadic, seed, &key);
    let x = input_values(Valuation::Dyadic, net.input.count(), seed, &key);
    match build_with(net, &shapes, &params) {
        Ok(lib) => match lib_forward(&lib, &tensor(net.input, &x)) {
            Ok(run) => {
                let d = run.post.last().unwrap().0;
                let g = tensor(d, &vec![1.0; d.count()]);
                let (pre, post, max, fbs) = run.raw;
                guard(|| neurons::verif::backward(&lib, g, &pre, &post, &max, fbs)).is_err()
            }
            Err(_) => false,
        },
        Err(_) => false,
    }
}

pub fn check_net(net: &Net, seed: u64, case: &Kv, rep: &mut Report) {
    rep.states += 1;
    rep.evaluations += 1;
    if net.layers.len() >= 2 {
        rep.nontrivial += 1;
    }
    let shapes = ref_shapes(net).expect("C08 sequence case must be accepted by the reference");
    // add layer by layer
    let mut lib = Network::new(libnet::lib_shape(net.input));
    for (i, l) in net.layers.iter().enumerate() {
        rep.transitions += 1;
        if let Err(e) = guard(|| libnet::add_layer(&mut lib, l)) {
            rep.violate(format!("C08 builder rejects a valid {} layer", l.kind()), format!("{} at layer {}: {}", net.name(), i, crate::util::first_line(&e)), case);
            return;
        }
    }
    // announced shapes
    let announced = neurons::verif::shapes(&lib);
    for (i, (ai, ao)) in announced.iter().enumerate() {
        let mut want = Vec::new();
        shape_tree(&shapes[i], &mut want);
        let (wi, wo) = want[0];
        if *ai != expect_lib_shape(wi) || *ao != expect_lib_shape(wo) {
            rep.violate(
                format!("C08 announced shape of {}", net.layers[i].kind()),
                format!("{} layer {}: announced {:?} -> {:?}, size formulas give {} -> {}", net.name(), i, ai, ao, wi.name(), wo.name()),
                case,
            );
            return;
        }
    }
    // produced shapes
    let key = net.name();
    let params = params_for(net, &shapes, Valuation::Dyadic, seed, &key);
    if let Err(e) = guard(|| libnet::set_params(&mut lib, net, &shapes, &params)) {
        rep.violate("C08 parameter tensors do not have the announced extents", e, case);
        return;
    }
    let x = input_values(Valuation::Dyadic, net.input.count(), seed, &key);
    rep.transitions += net.layers.len() as u64;
    let run = match lib_forward(&lib, &tensor(net.input, &x)) {
        Ok(r) => r,
        Err(e) => {
            rep.violate(
                format!("C08 consecutive layers do not fit (forward panics at {})", blame(net, &|n| forward_fails(n, seed))),
                format!("{}: {}", net.name(), crate::util::first_line(&e)),
                case,
            );
            return;
        }
    };
    for i in 0..net.layers.len() {
        let sh = &shapes[i];
        if !matches!(net.layers[i], L::Fb { .. }) && run.pre[i].0 != sh.out {
            rep.violate(format!("C08 produced pre-activation shape of {}", net.layers[i].kind()), format!("{} layer {}: produced {}, announced {}", net.name(), i, run.pre[i].0.name(), sh.out.name()), case);
            return;
        }
        let handed = if sh.flatten { sh.out.flat() } else { sh.out };
        if run.post[i + 1].0 != handed {
            rep.violate(format!("C08 produced output shape of {}", net.layers[i].kind()), format!("{} layer {}: handed on {}, expected {}", net.name(), i, run.post[i + 1].0.name(), handed.name()), case);
            return;
        }
    }
    // gradient shapes
    let out_dims = run.post.last().unwrap().0;
    let g = tensor(out_dims, &vec![1.0; out_dims.count()]);
    rep.transitions += net.layers.len() as u64;
    let (pre, post, max, fbs) = run.raw;
    match guard(|| neurons::verif::backward(&lib, g, &pre, &post, &max, fbs)) {
        Ok((wg, bg)) => match libnet::grads_from_lib(&wg, &bg, net) {
            Ok(gs) => {
                for i in 0..net.layers.len() {
                    if let Some(e) = grad_shape_mismatch(&gs[i], &param_shape(&net.layers[i], &shapes[i])) {
                        rep.violate(format!("C08 gradient shape of {}", net.layers[i].kind()), format!("{} layer {}: {}", net.name(), i, e), case);
                        return;
                    }
                }
            }
            Err(e) => rep.violate("C08 gradient tensors inconsistent", format!("{}: {}", net.name(), e), case),
        },
        Err(e) => {
            // max-pool inside a feedback block is rejected loudly by backward: unsupported configuration
            if e.contains("Unsupported layer type") {
                rep.count("unsupported_pool_in_block", 1);
            } else {
                rep.violate(
                    format!("C08 backward panics (gradient shapes do not fit) at {}", blame(net, &|n| backward_fails(n, seed))),
                    format!("{}: {}", net.name(), crate::util::first_line(&e)),
                    case,
                );
            }
        }
    }
}

/// flat sizes beyond what a dense layer can sensibly be built for (around 2^24, where usize -> f32 stops being exact, and
/// up to 2^32), through the layers' public constructors: accepted iff perfect square, announced as 1 x r x r
pub fn check_big_flat(n: usize, kind: &str, case: &Kv, rep: &mut Report) {
    use neurons::network::Layer;
    rep.states += 1;
    rep.evaluations += 1;
    rep.nontrivial += 1;
    rep.transitions += 1;
    let root = {
        let r = (n as f64).sqrt().round() as usize;
        if r * r == n {
            Some(r)
        } else {
            None
        }
    };
    let made = guard(|| match kind {
        "conv" => neurons::verif::layer_shapes(&Layer::Convolution(neurons::convolution::Convolution::create(Shape::Single(n), 1, &neurons::activation::Activation::Linear, (1, 1), (1, 1), (0, 0), (1, 1), None))),
        "deconv" => neurons::verif::layer_shapes(&Layer::Deconvolution(neurons::deconvolution::Deconvolution::create(Shape::Single(n), 1, &neurons::activation::Activation::Linear, (1, 1), (1, 1), (0, 0), None))),
        _ => neurons::verif::layer_shapes(&Layer::Maxpool(neurons::maxpool::Maxpool::create(Shape::Single(n), (1, 1), (1, 1)))),
    });
    match (root, made) {
        (None, Ok((inp, _))) => rep.violate(format!("C08 non-square flat size accepted by {}", kind), format!("a flat input of {} elements was accepted and announced as {:?}", n, inp), case),
        (None, Err(_)) => (),
        (Some(r), Err(e)) => rep.violate(format!("C08 perfect-square flat size rejected by {}", kind), format!("{} = {}^2: {}", n, r, crate::util::first_line(&e)), case),
        (Some(r), Ok((inp, _))) => {
            if dims_of(&inp) != Some(Dims::Chw(1, r, r)) {
                rep.violate(format!("C08 flat size read with a wrong shape by {}", kind), format!("{} = {}^2 read as {:?}", n, r, inp), case);
            }
        }
    }
}

/// flat size n in front of a spatial layer kind
pub fn check_flat(n: usize, kind: &str, case: &Kv, rep: &mut Report) {
    rep.states += 1;
    rep.evaluations += 1;
    if n >= 2 {
        rep.nontrivial += 1;
    }
    let root = isqrt_exact(n);
    let l = match kind {
        "conv" => L::Conv { f: 1, k: (1, 1), s: (1, 1), p: (0, 0), d: (1, 1), act: Act::Linear, drop: None },
        "deconv" => L::Deconv { f: 1, k: (1, 1), s: (1, 1), p: (0, 0), act: Act::Linear, drop: None },
        "fb-conv" => L::Fb { layers: vec![L::Conv { f: 1, k: (1, 1), s: (1, 1), p: (0, 0), d: (1, 1), act: Act::Linear, drop: None }], loops: 1, inskips: false, outskips: false, acc: Acc::Add },
        "fb-deconv" => L::Fb { layers: vec![L::Deconv { f: 1, k: (1, 1), s: (1, 1), p: (0, 0), act: Act::Linear, drop: None }], loops: 1, inskips: false, outskips: false, acc: Acc::Add },
        "fb-pool" => L::Fb { layers: vec![L::Pool { k: (1, 1), s: (1, 1) }], loops: 1, inskips: false, outskips: false, acc: Acc::Add },
        _ => L::Pool { k: (1, 1), s: (1, 1) },
    };
    let mut lib = Network::new(Shape::Single(1));
    lib.dense(n, neurons::activation::Activation::Linear, false, None);
    rep.transitions += 1;
    let added = guard(|| libnet::add_layer(&mut lib, &l));
    match (root, added) {
        (None, Ok(())) => {
            rep.violate(format!("C08 non-square flat size accepted by {}", kind), format!("dense({}) followed by a {} layer was accepted", n, kind), case);
        }
        (None, Err(_)) => (),
        (Some(_), Err(e)) => rep.violate(format!("C08 perfect-square flat size rejected by {}", kind), format!("dense({}): {}", n, crate::util::first_line(&e)), case),
        (Some(r), Ok(())) => {
            let sh = neurons::verif::shapes(&lib);
            if dims_of(&sh[1].0) != Some(Dims::Chw(1, r, r)) {
                rep.violate(format!("C08 flat size read with a wrong shape by {}", kind), format!("dense({}) read as {:?}", n, sh[1].0), case);
                return;
            }
            // weights 1..n (distinct; exact in f32 up to 2^24), identity kernel
            let w: Vec<f32> = (0..n).map(|i| (i + 1) as f32).collect();
            let mut lp = neurons::verif::params(&lib);
            lp[0].weights = vec![libnet::matrix(n, 1, &w)];
            if kind == "conv" || kind == "deconv" {
                lp[1].weights = vec![tensor(Dims::Chw(1, 1, 1), &[1.0])];
            } else if kind == "fb-conv" || kind == "fb-deconv" {
                for q in lp[1].inner.iter_mut() {
                    q.weights = vec![tensor(Dims::Chw(1, 1, 1), &[1.0])];
                }
            }
            neurons::verif::set_params(&mut lib, &lp);
            rep.transitions += 2;
            match guard(|| lib.forward(&Tensor::single(vec![1.0]))) {
                Ok((_, post, _, _)) => match flat_dims(&post[2]) {
                    Ok((d, v)) => {
                        if d != Dims::Chw(1, r, r) || v != w {
                            rep.violate(format!("C08 flat -> 1xrxr order in {}", kind), format!("dense({}) -> {}: got {} {:?}...", n, kind, d.name(), &v[..v.len().min(8)]), case);
                        }
                    }
                    Err(e) => rep.violate(format!("C08 flat -> 1xrxr shape/data in {}", kind), e, case),
                },
                Err(e) => rep.violate(format!("C08 flat -> 1xrxr forward panics in {}", kind), crate::util::first_line(&e), case),
            }
        }
    }
    let _ = flat;
}

/// flat -> spatial transition under a GENERAL configuration of the spatial layer: dense(r*r) followed by the layer must
/// compute, bit for bit, what the same layer (same parameters) computes on the same r*r values given as a 1 x r x r tensor;
/// and the two builders accept / reject the configuration alike. A differential with no hand-written expectation.
pub fn check_flat_config(r: usize, l: &L, case: &Kv, rep: &mut Report) {
    rep.states += 1;
    rep.evaluations += 1;
    rep.nontrivial += 1;
    rep.transitions += 2;
    let n = r * r;
    let mut a = Network::new(Shape::Single(1));
    a.dense(n, neurons::activation::Activation::Linear, false, None);
    let mut b = Network::new(Shape::Triple(1, r, r));
    let (ra, rb) = (guard(|| libnet::add_layer(&mut a, l)), guard(|| libnet::add_layer(&mut b, l)));
    match (ra, rb) {
        (Err(_), Err(_)) => {
            rep.count("flat_config_rejected_by_both", 1);
            return;
        }
        (Ok(()), Ok(())) => (),
        (x, _) => {
            rep.violate(
                "C08 flat and spatial builders disagree on a configuration",
                format!("{} after dense({}) {} but after a 1x{}x{} input {}", l.name(), n, if x.is_ok() { "accepted" } else { "rejected" }, r, r, if x.is_ok() { "rejected" } else { "accepted" }),
                case,
            );
            return;
        }
    }
    let (sa, sb) = (neurons::verif::shapes(&a), neurons::verif::shapes(&b));
    if dims_of(&sa[1].0) != Some(Dims::Chw(1, r, r)) || sa[1].1 != sb[0].1 {
        rep.violate("C08 flat -> spatial announced shapes differ from the spatial case", format!("{}: flat {:?} -> {:?}, spatial {:?} -> {:?}", l.name(), sa[1].0, sa[1].1, sb[0].0, sb[0].1), case);
        return;
    }
    if dims_of(&sb[0].1).map(|d| d.count()) == Some(0) {
        // a padding that crops the deconvolution's output to nothing: not a valid configuration in the statement's sense
        rep.count("flat_config_with_an_empty_output_skipped", 1);
        return;
    }
    let w: Vec<f32> = (0..n).map(|i| (i + 1) as f32).collect();
    let mut pa = neurons::verif::params(&a);
    pa[0].weights = vec![libnet::matrix(n, 1, &w)];
    let mut pb = neurons::verif::params(&b);
    pb[0] = pa[1].clone();
    neurons::verif::set_params(&mut a, &pa);
    neurons::verif::set_params(&mut b, &pb);
    let fa = guard(|| a.forward(&Tensor::single(vec![1.0]))).and_then(|(_, post, _, _)| flat_dims(&post[2]));
    let fb = guard(|| b.forward(&tensor(Dims::Chw(1, r, r), &w))).and_then(|(_, post, _, _)| flat_dims(&post[1]));
    match (fa, fb) {
        (Ok((da, va)), Ok((db, vb))) => {
            if da != db || !crate::util::bits_eq(&va, &vb) {
                let at = va.iter().zip(&vb).position(|(x, y)| x.to_bits() != y.to_bits());
                rep.violate(
                    "C08 flat -> 1xrxr transition changes what the spatial layer computes",
                    format!("{} on dense({}) vs on the same values as 1x{}x{}: {} vs {}, first difference at {:?}", l.name(), n, r, r, da.name(), db.name(), at.map(|i| (i, va[i], vb[i]))),
                    case,
                );
            } else if va.iter().any(|x| *x != 0.0) {
                rep.count("flat_config_bit_equal_nonzero", 1);
            }
        }
        (Err(e), _) | (_, Err(e)) => rep.violate("C08 flat -> spatial forward fails under a general configuration", format!("{}: {}", l.name(), crate::util::first_line(&e)), case),
    }
}

pub fn flat_configs(thorough: bool) -> Vec<(usize, L)> {
    let mut out = Vec::new();
    let rs: Vec<usize> = if thorough { vec![2, 3, 4, 5, 7] } else { vec![2, 3, 4, 5] };
    let ks: Vec<usize> = if thorough { vec![1, 2, 3, 4] } else { vec![1, 2, 3] };
    for &r in &rs {
        for &k0 in &ks {
            for &k1 in &ks {
                for s0 in 1..=2usize {
                    for s1 in 1..=2usize {
                        out.push((r, L::Pool { k: (k0, k1), s: (s0, s1) }));
                        for p0 in 0..=2usize {
                            for p1 in 0..=2usize {
                                out.push((r, L::Deconv { f: 2, k: (k0, k1), s: (s0, s1), p: (p0, p1), act: Act::Linear, drop: None }));
                                for d0 in 1..=2usize {
                                    for d1 in 1..=2usize {
                                        out.push((r, L::Conv { f: 2, k: (k0, k1), s: (s0, s1), p: (p0, p1), d: (d0, d1), act: Act::Linear, drop: None }));
                                    }
                                }
                            }
                        }
                    }
                }
            }
        }
    }
    out
}

pub fn run(ctx: &Ctx) -> Report {
    let t = ctx.tier.thorough();
    let mut nets = sequences(&INPUTS, 3, if t { 2 } else { 1 }, &TOKS);
    if t {
        nets.extend(sequences(&INPUTS, 4, 1, &TOKS).into_iter().filter(|n| n.layers.len() == 4));
    }
    let seed = ctx.seed;
    let chunks: Vec<&[Net]> = nets.chunks(128).collect();
    let parts = par_map(&chunks, |_, c| {
        let mut r = Report::new();
        for n in c.iter() {
            let case = Kv::new().put("kind", "net").put("net", n.name());
            check_net(n, seed, &case, &mut r);
        }
        r
    });
    let mut rep = Report::new();
    rep.merge_all(parts);
    rep.count("layer_sequences", nets.len() as u64);
    let max_n = if t { 65536 } else { 4096 };
    let sizes: Vec<usize> = (1..=max_n).collect();
    let chunks: Vec<&[usize]> = sizes.chunks(64).collect();
    let parts = par_map(&chunks, |_, c| {
        let mut r = Report::new();
        for n in c.iter() {
            for kind in ["conv", "deconv", "pool"] {
                let case = Kv::new().put("kind", "flat").put("n", n).put("layer", kind);
                check_flat(*n, kind, &case, &mut r);
            }
            // the same in front of a feedback block whose first layer is spatial (sizes up to 1024)
            if *n <= 1024 {
                for kind in ["fb-conv", "fb-deconv", "fb-pool"] {
                    let case = Kv::new().put("kind", "flat").put("n", n).put("layer", kind);
                    check_flat(*n, kind, &case, &mut r);
                }
            }
        }
        r
    });
    rep.merge_all(parts);
    rep.count("flat_sizes", max_n as u64);
    // flat -> spatial under the full configuration lattice of the spatial layer (differential against the spatial input)
    let fcs = flat_configs(t);
    let chunks: Vec<&[(usize, L)]> = fcs.chunks(64).collect();
    let parts = par_map(&chunks, |_, c| {
        let mut r = Report::new();
        for (root, l) in c.iter() {
            let case = Kv::new().put("kind", "flatcfg").put("r", root).put("layer", l.name());
            check_flat_config(*root, l, &case, &mut r);
        }
        r
    });
    rep.merge_all(parts);
    rep.count("flat_configurations", fcs.len() as u64);
    // around the squares of roots near 4096 (2^24), 5793 (2^25), 8192, 46341 (2^31), 65536 (2^32): r^2 - 2 .. r^2 + 2
    for r in (4090usize..=4104).chain(5790..=5796).chain(8190..=8194).chain([11585, 16384, 23170, 46340, 46341, 65535, 65536]) {
        for d in -2i64..=2 {
            let n = (r * r) as i64 + d;
            for kind in ["conv", "deconv", "pool"] {
                let case = Kv::new().put("kind", "bigflat").put("n", n).put("layer", kind);
                check_big_flat(n as usize, kind, &case, &mut rep);
            }
        }
    }
    for i in [0usize, nets.len() / 2, nets.len() - 1] {
        rep.sample(Kv::new().put("kind", "net").put("net", nets[i].name()).to_json());
    }
    rep.sample(Kv::new().put("kind", "flat").put("n", 12).put("layer", "conv").to_json());
    rep.notes.insert("max_flat_size".into(), Json::i(max_n as i64));
    rep.traces_validated = rep.states;
    rep
}

pub fn replay(ctx: &Ctx, case: &Kv) -> Report {
    let mut r = Report::new();
    match case.get("kind") {
        "flat" => check_flat(case.usize("n"), case.get("layer"), case, &mut r),
        "flatcfg" => {
            check_flat_config(case.usize("r"), &L::parse(case.get("layer")), case, &mut r)
        }
        "bigflat" => check_big_flat(case.usize("n"), case.get("layer"), case, &mut r),
        _ => check_net(&Net::parse(case.get("net")), ctx.seed, case, &mut r),
    }
    r
}
