//! C18 — the generator stays in range and shuffling is a safe permutation.
//! The whole state space of the LCG is walked: the state after one step from seed p is 48271*p mod m
//! and p -> 48271*p is a bijection on 1..m-1, so create(p) followed by one call evaluates the real
//! `generate` / `shuffle` in every reachable state exactly once per parameter choice.
use crate::json::Json;
use crate::libnet::flat;
use crate::refmodel::minstd::{next_state, M};
use crate::report::{Ctx, Meta, Report};
use crate::util::{guard, par_map, Kv};
use neurons::random::Generator;
use neurons::tensor::{Shape, Tensor};

pub fn meta(ctx: &Ctx) -> Meta {
    Meta {
        rule: format!("every seed p in 1..m-1 (m = 2^31-1; = every generator state once) x intervals {} for generate: value in [min,max] and within rounding of the reference minstd value; real shuffle from every state for lengths {}; bands of 2^17 states at both ends of the state range: shuffle lengths 1..8,10,100,1000 and an interval grid incl. non-dyadic bounds; stride-4099 cover of all states for shuffle lengths 1..8; lengths 4096, 4097, 5000, 10^4, 65537 from the 128 extreme states and a sparse cover; lengths 2^24+3 and 2^24+4 (beyond exact usize -> f32 conversion) from the extreme states; degenerate, negative, subnormal (incl. bounds 1, 3, 5, 9 units of 2^-149) and wider-than-MAX intervals ((-3e38,3e38), (MIN,MAX), (0,MAX), ..) from the seed list and the extreme states; seed list incl. 0, m, 2^32, 2^64/48271+-2, 1.7e18, 2^63, u64::MAX; all 70 interleavings of 4+4 calls on two equal-seed generators; EVERY sequence of up to 4 (thorough: 5) calls on one generator over generate on (0,1), (2,3), (-1,1), (-5,-4) and shuffle of 2, 3, 7 elements from 4 seeds: every result in its own range / a permutation, and the last result bit-identical to that after the same history with all earlier intervals replaced by (0,1); Tensor::random over all shapes of rank 1-4 with extents <= 3. Non-trivial = every state is a distinct case", if ctx.tier.thorough() { "{(0,1),(-1,1),(0,2),(-0.5,0.5)}" } else { "{(0,1),(-1,1)}" }, if ctx.tier.thorough() { "1..8" } else { "1..2" }),
        bound: "complete over the 2^31-2 non-zero states for the listed intervals and lengths".into(),
        exhaustive: true,
        assumptions: vec![
            "state 0 is reachable only from seeds that are multiples of m and is absorbing; it is checked separately".into(),
            "the value check against the reference allows 1.5e-7*(|min|+|max|+|max-min|)".into(),
        ],
    }
}

const PAIRS4: [(f32, f32); 4] = [(0.0, 1.0), (-1.0, 1.0), (0.0, 2.0), (-0.5, 0.5)];
const BAND: u64 = 1 << 17;

fn ref_value(seed: u64, min: f32, max: f32) -> f64 {
    // exact: the state after one step, in u128
    let s = if seed < (1 << 40) {
        (crate::refmodel::minstd::A * seed) % M // < 2^56, no overflow
    } else {
        ((crate::refmodel::minstd::A as u128 * seed as u128) % M as u128) as u64
    };
    (s as f64 / (M - 1) as f64) * (max as f64 - min as f64) + min as f64
}

fn value_ok(v: f32, seed: u64, min: f32, max: f32) -> bool {
    let r = ref_value(seed, min, max);
    let tol = 1.5e-7 * ((min as f64).abs() + (max as f64).abs() + (max as f64 - min as f64).abs()) + 1e-30;
    (v as f64 - r).abs() <= tol
}

/// generate checks for one seed; returns Some((key, what)) on failure
fn check_generate(seed: u64, min: f32, max: f32) -> Option<(String, String)> {
    let mut g = Generator::create(seed);
    let v = g.generate(min, max);
    if !(v >= min && v <= max) {
        return Some((
            "C18 generate result outside [min,max]".into(),
            format!("create({}).generate({}, {}) = {} ({:e})", seed, min, max, v, v),
        ));
    }
    // the value itself is only compared where the width of the interval is a finite single-precision number
    if (max - min).is_finite() && !value_ok(v, seed, min, max) {
        return Some((
            "C18 generate differs from minstd".into(),
            format!("create({}).generate({}, {}) = {:e}, reference minstd value {:e}", seed, min, max, v, ref_value(seed, min, max)),
        ));
    }
    None
}

/// shuffle of a vector with duplicates / descending content: the multiset must be preserved
fn check_shuffle_content(seed: u64, content: &[usize]) -> Option<(String, String)> {
    let mut v = content.to_vec();
    let mut g = Generator::create(seed);
    g.shuffle(&mut v);
    let (mut a, mut b) = (content.to_vec(), v.clone());
    a.sort_unstable();
    b.sort_unstable();
    if a != b {
        return Some(("C18 shuffle is not a permutation".into(), format!("create({}).shuffle({:?}) = {:?}", seed, content, v)));
    }
    None
}

fn check_shuffle(seed: u64, len: usize, buf: &mut Vec<usize>) -> Option<(String, String)> {
    buf.clear();
    buf.extend(0..len);
    let mut g = Generator::create(seed);
    g.shuffle(buf);
    if buf.len() != len {
        return Some(("C18 shuffle changes length".into(), format!("create({}).shuffle(len {}) -> len {}", seed, len, buf.len())));
    }
    // permutation test
    if len <= 64 {
        let mut seen: u64 = 0;
        for &x in buf.iter() {
            if x >= len || seen & (1 << x) != 0 {
                return Some(("C18 shuffle is not a permutation".into(), format!("create({}).shuffle(0..{}) = {:?}", seed, len, buf)));
            }
            seen |= 1 << x;
        }
    } else {
        let mut s = buf.clone();
        s.sort_unstable();
        if s.iter().enumerate().any(|(i, x)| i != *x) {
            return Some(("C18 shuffle is not a permutation".into(), format!("create({}).shuffle(0..{}) lost elements", seed, len)));
        }
    }
    None
}

fn one_seed(seed: u64, pairs: &[(f32, f32)], shuffle_lens: &[usize], rep: &mut Report, guarded: bool) {
    for &(min, max) in pairs {
        rep.transitions += 1;
        let r = if guarded {
            guard(|| check_generate(seed, min, max)).unwrap_or_else(|e| Some(("C18 generate panics".into(), format!("create({}).generate({},{}): {}", seed, min, max, e))))
        } else {
            check_generate(seed, min, max)
        };
        if let Some((k, w)) = r {
            rep.violate(k, w, &Kv::new().put("op", "generate").put("seed", seed).put("min", min).put("max", max));
        }
    }
    let mut buf = Vec::with_capacity(16);
    for &len in shuffle_lens {
        rep.transitions += 1;
        let r = if guarded {
            guard(|| check_shuffle(seed, len, &mut buf)).unwrap_or_else(|e| {
                Some(("C18 shuffle panics".into(), format!("create({}).shuffle(vector of length {}): {}", seed, len, crate::util::first_line(&e))))
            })
        } else {
            check_shuffle(seed, len, &mut buf)
        };
        if let Some((k, w)) = r {
            rep.violate(k, w, &Kv::new().put("op", "shuffle").put("seed", seed).put("len", len));
        }
    }
}

/// all seeds in [lo,hi): fast unguarded loop per block, guarded re-run of a block that panicked
fn sweep(lo: u64, hi: u64, pairs: &[(f32, f32)], shuffle_lens: &[usize]) -> Report {
    let mut rep = Report::new();
    let mut a = lo;
    while a < hi {
        let b = (a + 4096).min(hi);
        let mut blk = Report::new();
        let fast = guard(|| {
            let mut r = Report::new();
            for seed in a..b {
                one_seed(seed, pairs, shuffle_lens, &mut r, false);
            }
            r
        });
        match fast {
            Ok(r) => blk = r,
            Err(_) => {
                for seed in a..b {
                    one_seed(seed, pairs, shuffle_lens, &mut blk, true);
                }
            }
        }
        blk.states = b - a;
        rep.merge(blk);
        a = b;
    }
    rep
}

fn band_checks(seed: u64, grid: usize, step: usize, rep: &mut Report) {
    // shuffle with more lengths
    let mut buf = Vec::new();
    for len in [0usize, 1, 2, 3, 4, 5, 6, 7, 8, 10, 100, 1000] {
        rep.transitions += 1;
        let r = guard(|| check_shuffle(seed, len, &mut buf)).unwrap_or_else(|e| {
            Some(("C18 shuffle panics".into(), format!("create({}).shuffle(vector of length {}): {}", seed, len, crate::util::first_line(&e))))
        });
        if let Some((k, w)) = r {
            rep.violate(k, w, &Kv::new().put("op", "shuffle").put("seed", seed).put("len", len));
        }
    }
    // interval grid of decimal tenths (non-dyadic, min and max rounded independently):
    // min = (i - 20)/10, max = (i + 1 + j - 20)/10 with i, j stepping by `step`
    for a in 0..grid {
        for b in 0..grid {
            let (i, j) = ((a * step) as f32, (b * step) as f32);
            let min = (i - 20.0) / 10.0;
            let max = (i + 1.0 + j - 20.0) / 10.0;
            rep.transitions += 1;
            let r = guard(|| check_generate(seed, min, max))
                .unwrap_or_else(|e| Some(("C18 generate panics".into(), format!("create({}).generate({},{}): {}", seed, min, max, e))));
            if let Some((k, w)) = r {
                rep.violate(k, w, &Kv::new().put("op", "generate").put("seed", seed).put("min", min).put("max", max));
            }
        }
    }
}

/// seed whose successor state is `state` (inverse of the bijection), so bands can be addressed by state
fn seed_for_state(state: u64) -> u64 {
    // modular inverse of 48271 mod m by Fermat: a^(m-2)
    fn powmod(mut b: u128, mut e: u128, m: u128) -> u128 {
        let mut r = 1u128;
        b %= m;
        while e > 0 {
            if e & 1 == 1 {
                r = r * b % m;
            }
            b = b * b % m;
            e >>= 1;
        }
        r
    }
    let inv = powmod(48271, (M - 2) as u128, M as u128);
    ((state as u128 * inv) % M as u128) as u64
}

fn special_seeds() -> Vec<u64> {
    let q = u64::MAX / 48271;
    vec![0, 1, 2, M - 1, M, M + 1, 2 * M, 1 << 32, q - 2, q - 1, q, q + 1, q + 2, 1_000_000_000_000_000, 1_700_000_000_000_000_000, 1 << 63, u64::MAX - 1, u64::MAX, 12345, 247665088, 12910048, 570515015, 1922112213, 833985187]
}

fn check_special(seed: u64, rep: &mut Report) {
    rep.states += 1;
    let case = Kv::new().put("op", "seed").put("seed", seed);
    // 8 successive values against the reference sequence, twice (purity)
    rep.transitions += 16;
    let run = || {
        let mut g = Generator::create(seed);
        (0..8).map(|_| g.generate(0.0, 1.0)).collect::<Vec<f32>>()
    };
    match (guard(run), guard(run)) {
        (Ok(a), Ok(b)) => {
            if a.iter().zip(&b).any(|(x, y)| x.to_bits() != y.to_bits()) {
                rep.violate("C18 sequence is not a pure function of the seed", format!("seed {}: {:?} vs {:?}", seed, a, b), &case);
            }
            let mut s = seed;
            for (i, v) in a.iter().enumerate() {
                s = if i == 0 { ((crate::refmodel::minstd::A as u128 * seed as u128) % M as u128) as u64 } else { next_state(s) };
                let r = s as f64 / (M - 1) as f64;
                if !(*v >= 0.0 && *v <= 1.0) {
                    rep.violate("C18 generate result outside [min,max]", format!("seed {} call {}: {}", seed, i, v), &case);
                    break;
                }
                if (*v as f64 - r).abs() > 1.5e-7 {
                    rep.violate(
                        if seed > u64::MAX / 48271 { "C18 generate differs from minstd (large seed)" } else { "C18 generate differs from minstd" },
                        format!("seed {} call {}: {:e}, reference {:e}", seed, i, v, r),
                        &case,
                    );
                    break;
                }
            }
        }
        (Err(e), _) | (_, Err(e)) => {
            rep.violate(
                if seed > u64::MAX / 48271 { "C18 generate panics (large seed)" } else { "C18 generate panics" },
                format!("create({}).generate(0,1): {}", seed, e),
                &case,
            );
        }
    }
    // degenerate, negative and very wide intervals
    for (min, max) in [(0.3f32, 0.3f32), (-3.0, -1.0), (1.0e-3, 1.0e3), (-1.0e30, 1.0e30), (-0.0, 0.0), (5.0, 5.000001), (-3.0e38, 3.0e38), (f32::MIN, f32::MAX), (-1.0e38, 3.0e38), (0.0, f32::MAX), (f32::MIN, 0.0), (-1.0e-45, 1.0e-45), (1.0e-40, 3.0e-40), (f32::from_bits(1), f32::from_bits(1)), (f32::from_bits(5), f32::from_bits(9)), (f32::from_bits(1), 1.0), (f32::from_bits(0x8000_0005), f32::from_bits(3))] {
        rep.transitions += 1;
        let r = guard(|| {
            let mut g = Generator::create(seed);
            g.generate(min, max)
        });
        match r {
            Ok(v) => {
                if !(v >= min && v <= max) {
                    rep.violate("C18 generate result outside [min,max]", format!("create({}).generate({:e}, {:e}) = {:e}", seed, min, max, v), &Kv::new().put("op", "generate").put("seed", seed).put("min", min).put("max", max));
                }
            }
            Err(e) => rep.violate("C18 generate panics", format!("create({}).generate({:e},{:e}): {}", seed, min, max, e), &case),
        }
    }
    // shuffle from this seed
    let mut buf = Vec::new();
    for len in [0usize, 1, 2, 5, 17] {
        rep.transitions += 1;
        let r = guard(|| check_shuffle(seed, len, &mut buf)).unwrap_or_else(|e| {
            Some((
                if seed > u64::MAX / 48271 { "C18 shuffle panics (large seed)".into() } else { "C18 shuffle panics".into() },
                format!("create({}).shuffle(vector of length {}): {}", seed, len, crate::util::first_line(&e)),
            ))
        });
        if let Some((k, w)) = r {
            rep.violate(k, w, &Kv::new().put("op", "shuffle").put("seed", seed).put("len", len));
        }
    }
}

fn interleavings(rep: &mut Report) {
    // all C(8,4)=70 interleavings of 4+4 calls on two generators with equal seeds
    for seed in [1u64, 12345, M - 1] {
        let want: Vec<u32> = {
            let mut g = Generator::create(seed);
            (0..4).map(|_| g.generate(-1.0, 1.0).to_bits()).collect()
        };
        for mask in 0u32..256 {
            if mask.count_ones() != 4 {
                continue;
            }
            rep.states += 1;
            rep.transitions += 8;
            let mut a = Generator::create(seed);
            let mut b = Generator::create(seed);
            let (mut ra, mut rb) = (Vec::new(), Vec::new());
            for i in 0..8 {
                if mask & (1 << i) != 0 {
                    ra.push(a.generate(-1.0, 1.0).to_bits());
                } else {
                    rb.push(b.generate(-1.0, 1.0).to_bits());
                }
            }
            if ra != want || rb != want {
                rep.violate(
                    "C18 sequence is not a pure function of the seed",
                    format!("seed {} interleaving {:08b}", seed, mask),
                    &Kv::new().put("op", "interleave").put("seed", seed).put("mask", mask),
                );
            }
        }
    }
}

/// EVERY sequence of up to `depth` calls over a mixed alphabet (generate on four intervals, shuffle of three lengths) on
/// one generator object: every generate result lies in its own [min,max] whatever was called before, every shuffle is a
/// permutation, and the result of the LAST call is bit-identical to that of the same call after the canonical history
/// (the same calls with every earlier generate interval replaced by (0,1)): the state a call sees is a function of the
/// seed and of how many draws were made, not of the intervals or lengths asked for earlier.
fn call_sequences(rep: &mut Report, depth: usize) {
    const GEN: [(f32, f32); 4] = [(0.0, 1.0), (2.0, 3.0), (-1.0, 1.0), (-5.0, -4.0)];
    const SHUF: [usize; 3] = [2, 3, 7];
    let alphabet = GEN.len() + SHUF.len();
    // one call; returns the observable result (value bits, or the permuted vector) or a violation text
    fn call(g: &mut Generator, c: usize, canonical: bool) -> Result<Vec<u32>, String> {
        if c < GEN.len() {
            let (min, max) = if canonical { GEN[0] } else { GEN[c] };
            let v = g.generate(min, max);
            if !(v >= min && v <= max) {
                return Err(format!("generate({}, {}) = {}", min, max, v));
            }
            Ok(vec![v.to_bits()])
        } else {
            let len = SHUF[c - GEN.len()];
            let mut v: Vec<usize> = (0..len).collect();
            g.shuffle(&mut v);
            let mut s = v.clone();
            s.sort_unstable();
            if s.iter().enumerate().any(|(i, x)| i != *x) || v.len() != len {
                return Err(format!("shuffle(0..{}) = {:?}", len, v));
            }
            Ok(v.iter().map(|x| *x as u32).collect())
        }
    }
    for seed in [1u64, 12345, M - 1, 1_700_000_000_000_000_000] {
        for n in 1..=depth {
            let total = alphabet.pow(n as u32);
            for code in 0..total {
                let seq: Vec<usize> = (0..n).scan(code, |c, _| { let d = *c % alphabet; *c /= alphabet; Some(d) }).collect();
                rep.states += 1;
                rep.transitions += 2 * n as u64;
                let case = Kv::new().put("op", "sequence").put("seed", seed).put("calls", seq.iter().map(|c| c.to_string()).collect::<Vec<_>>().join(","));
                let run = |canonical: bool| -> Result<Vec<u32>, String> {
                    let mut g = Generator::create(seed);
                    let mut last = Vec::new();
                    for (i, &c) in seq.iter().enumerate() {
                        last = call(&mut g, c, canonical && i + 1 < n).map_err(|e| format!("call {} of {:?}: {}", i + 1, seq, e))?;
                    }
                    Ok(last)
                };
                match guard(|| (run(false), run(true))) {
                    Err(e) => rep.violate("C18 call sequence panics", format!("seed {} calls {:?}: {}", seed, seq, crate::util::first_line(&e)), &case),
                    Ok((Err(e), _)) | Ok((_, Err(e))) => rep.violate("C18 result outside its range / not a permutation after an earlier call", format!("seed {}: {}", seed, e), &case),
                    Ok((Ok(a), Ok(b))) => {
                        if a != b {
                            rep.violate(
                                "C18 a call's result depends on the intervals of earlier calls",
                                format!("seed {} calls {:?} (0-3 generate on {:?}, 4-6 shuffle of {:?}): last result {:?}, after the canonical history {:?}", seed, seq, GEN, SHUF, a, b),
                                &case,
                            );
                        }
                    }
                }
            }
        }
    }
}

fn tensor_random(rep: &mut Report) {
    for rank in 1..=4usize {
        let mut idx = vec![1usize; rank];
        'outer: loop {
            for (min, max) in PAIRS4 {
                rep.states += 1;
                rep.transitions += 1;
                let shape = match rank {
                    1 => Shape::Single(idx[0]),
                    2 => Shape::Double(idx[0], idx[1]),
                    3 => Shape::Triple(idx[0], idx[1], idx[2]),
                    _ => Shape::Quadruple(idx[0], idx[1], idx[2], idx[3]),
                };
                let case = Kv::new().put("op", "random").put("shape", format!("{:?}", idx)).put("min", min).put("max", max);
                match guard(|| Tensor::random(shape.clone(), min, max)) {
                    Err(e) => rep.violate("C18 Tensor::random panics", e, &case),
                    Ok(t) => match flat(&t) {
                        Err(e) => rep.violate("C18 Tensor::random shape/data", e, &case),
                        Ok((s, v)) => {
                            if s != shape {
                                rep.violate("C18 Tensor::random shape", format!("{:?}", s), &case);
                            }
                            if v.iter().any(|x| !(*x >= min && *x <= max)) {
                                rep.violate("C18 Tensor::random entry outside interval", format!("{:?}", v), &case);
                            }
                        }
                    },
                }
            }
            let mut i = rank;
            loop {
                if i == 0 {
                    break 'outer;
                }
                i -= 1;
                if idx[i] < 3 {
                    idx[i] += 1;
                    for j in i + 1..rank {
                        idx[j] = 1;
                    }
                    break;
                }
            }
        }
    }
}

pub fn run(ctx: &Ctx) -> Report {
    let thorough = ctx.tier.thorough();
    let shuffle_lens: Vec<usize> = if thorough { (1..=8).collect() } else { vec![1, 2] };
    // full sweep, 256 slices
    let slices: Vec<(u64, u64)> = {
        let n = 256u64;
        let total = M - 1; // seeds 1..=m-1
        (0..n).map(|i| (1 + total * i / n, 1 + total * (i + 1) / n)).collect()
    };
    let pairs: &[(f32, f32)] = if thorough { &PAIRS4 } else { &PAIRS4[..2] };
    let parts = par_map(&slices, |_, (lo, hi)| sweep(*lo, *hi, pairs, &shuffle_lens));
    let mut rep = Report::new();
    rep.merge_all(parts);
    rep.count("full_sweep_states", M - 1);

    // bands at both ends of the state range, addressed by state
    let (grid, step) = if thorough { (40, 1) } else { (12, 3) };
    let band_states: Vec<u64> = (1..=BAND).chain((M - BAND)..M).collect();
    let chunks: Vec<&[u64]> = band_states.chunks(1024).collect();
    let parts = par_map(&chunks, |_, c| {
        let mut r = Report::new();
        for st in c.iter() {
            band_checks(seed_for_state(*st), grid, step, &mut r);
        }
        r
    });
    rep.merge_all(parts);
    rep.count("band_states", band_states.len() as u64);
    // fine grid on the 2^10 extreme states
    let fine: Vec<u64> = (1..=1024u64).chain((M - 1024)..M).collect();
    let fg = if thorough { 200 } else { 60 };
    let parts = par_map(&fine, |_, st| {
        let mut r = Report::new();
        band_checks(seed_for_state(*st), fg, 1, &mut r);
        r
    });
    rep.merge_all(parts);

    // stride cover: all lengths 1..8 (quick only; thorough has them in the full sweep)
    if !thorough {
        let stride: Vec<u64> = (1..M).step_by(4099).collect();
        let chunks: Vec<&[u64]> = stride.chunks(4096).collect();
        let parts = par_map(&chunks, |_, c| {
            let mut r = Report::new();
            let mut buf = Vec::new();
            for seed in c.iter() {
                // degenerate and narrow offset intervals (two-sided interpolation formulas fail on a few percent of states)
                for (min, max) in [(0.3f32, 0.3f32), (100.0, 100.5), (-7.1, -7.1), (0.1, 0.1000001)] {
                    r.transitions += 1;
                    if let Some((k, w)) = guard(|| check_generate(*seed, min, max)).unwrap_or_else(|e| Some(("C18 generate panics".into(), e))) {
                        r.violate(k, w, &Kv::new().put("op", "generate").put("seed", *seed).put("min", min).put("max", max));
                    }
                }
                // intervals wider than f32::MAX, and subnormal ones: only the range is demanded (max - min is not finite)
                for (min, max) in [(-3.0e38f32, 3.0e38f32), (f32::MIN, f32::MAX), (0.0, f32::MAX), (-1.0e-45, 1.0e-45), (f32::from_bits(1), f32::from_bits(1)), (f32::from_bits(5), f32::from_bits(9))] {
                    r.transitions += 1;
                    match guard(|| Generator::create(*seed).generate(min, max)) {
                        Ok(v) => {
                            if !(v >= min && v <= max) {
                                r.violate("C18 generate result outside [min,max]", format!("create({}).generate({:e}, {:e}) = {:e}", seed, min, max, v), &Kv::new().put("op", "generate").put("seed", *seed).put("min", min).put("max", max));
                            }
                        }
                        Err(e) => r.violate("C18 generate panics", format!("create({}).generate({:e},{:e}): {}", seed, min, max, crate::util::first_line(&e)), &Kv::new().put("op", "generate").put("seed", *seed).put("min", min).put("max", max)),
                    }
                }
                for content in [&[5usize, 5, 1][..], &[9, 7, 7, 7, 2], &[4, 3, 2, 1, 0], &[usize::MAX, 0, usize::MAX, 1, 1, 1, 0, 2]] {
                    r.transitions += 1;
                    if let Some((k, w)) = guard(|| check_shuffle_content(*seed, content)).unwrap_or_else(|e| Some(("C18 shuffle panics".into(), crate::util::first_line(&e)))) {
                        r.violate(k, w, &Kv::new().put("op", "shuffle").put("seed", *seed).put("len", content.len()));
                    }
                }
                for len in 3..=8usize {
                    r.transitions += 1;
                    let res = guard(|| check_shuffle(*seed, len, &mut buf)).unwrap_or_else(|e| {
                        Some(("C18 shuffle panics".into(), format!("create({}).shuffle(vector of length {}): {}", seed, len, crate::util::first_line(&e))))
                    });
                    if let Some((k, w)) = res {
                        r.violate(k, w, &Kv::new().put("op", "shuffle").put("seed", *seed).put("len", len));
                    }
                }
            }
            r
        });
        rep.merge_all(parts);
        rep.count("stride_cover_states", stride.len() as u64);
    }

    // beyond the small bound: long vectors (above and around 4096, 65536) from the extreme states and a sparse cover
    {
        let mut seeds: Vec<u64> = (1..=64u64).chain((M - 64)..M).map(seed_for_state).collect();
        seeds.extend((1..M).step_by(if thorough { 9_999_991 } else { 99_999_989 }));
        let lens: Vec<usize> = if thorough { vec![4096, 4097, 5000, 8192, 10_000, 65_536, 65_537, 150, 1 << 17] } else { vec![4096, 4097, 5000, 10_000, 65_537] };
        let parts = par_map(&seeds, |_, seed| {
            let mut r = Report::new();
            let mut buf = Vec::new();
            for &len in &lens {
                r.transitions += 1;
                let res = guard(|| check_shuffle(*seed, len, &mut buf)).unwrap_or_else(|e| {
                    Some(("C18 shuffle panics".into(), format!("create({}).shuffle(vector of length {}): {}", seed, len, crate::util::first_line(&e))))
                });
                if let Some((k, w)) = res {
                    r.violate(k, w, &Kv::new().put("op", "shuffle").put("seed", *seed).put("len", len));
                }
            }
            r
        });
        rep.merge_all(parts);
        rep.count("long_vector_seeds", seeds.len() as u64);
    }
    // vectors longer than 2^24 (where usize -> f32 stops being exact) from the top and bottom states: 2^24+3, 2^24+4
    // (quick: 4 states; thorough: 24 states and 2^25+1)
    {
        let k = if thorough { 12u64 } else { 2 };
        let seeds: Vec<u64> = (1..=k).chain((M - k)..M).map(seed_for_state).collect();
        let lens: Vec<usize> = if thorough { vec![(1 << 24) + 3, (1 << 24) + 4, (1 << 25) + 1] } else { vec![(1 << 24) + 3, (1 << 24) + 4] };
        let cases: Vec<(u64, usize)> = seeds.iter().flat_map(|s| lens.iter().map(move |l| (*s, *l))).collect();
        let chunks: Vec<&[(u64, usize)]> = cases.chunks(cases.len().div_ceil(8)).collect();
        let parts = par_map(&chunks, |_, c| {
            let mut r = Report::new();
            let mut buf = Vec::new();
            for (seed, len) in c.iter() {
                r.transitions += 1;
                r.states += 1;
                let res = guard(|| check_shuffle(*seed, *len, &mut buf)).unwrap_or_else(|e| {
                    Some(("C18 shuffle panics".into(), format!("create({}).shuffle(vector of length {}): {}", seed, len, crate::util::first_line(&e))))
                });
                if let Some((k, w)) = res {
                    r.violate(k, w, &Kv::new().put("op", "shuffle").put("seed", *seed).put("len", *len));
                }
            }
            r
        });
        rep.merge_all(parts);
        rep.count("very_long_vector_cases", cases.len() as u64);
    }
    for s in special_seeds() {
        check_special(s, &mut rep);
    }
    interleavings(&mut rep);
    call_sequences(&mut rep, if ctx.tier.thorough() { 5 } else { 4 });
    tensor_random(&mut rep);

    rep.evaluations = rep.transitions;
    rep.nontrivial = rep.states;
    rep.traces_validated = rep.states;
    rep.sample(Kv::new().put("op", "generate").put("seed", 1).put("min", 0).put("max", 1).to_json());
    rep.sample(Kv::new().put("op", "shuffle").put("seed", seed_for_state(M - 1)).put("len", 2).to_json());
    rep.sample(Kv::new().put("op", "seed").put("seed", u64::MAX).to_json());
    rep.notes.insert("modulus".into(), Json::i(M as i64));
    rep
}

pub fn replay(_ctx: &Ctx, case: &Kv) -> Report {
    let mut rep = Report::new();
    let seed = case.u64("seed");
    match case.get("op") {
        "generate" => {
            let (min, max) = (case.f32("min"), case.f32("max"));
            let r = guard(|| check_generate(seed, min, max)).unwrap_or_else(|e| Some(("C18 generate panics".into(), e)));
            if let Some((k, w)) = r {
                rep.violate(k, w, case);
            }
        }
        "shuffle" => {
            let len = case.usize("len");
            let mut buf = Vec::new();
            let r = guard(|| check_shuffle(seed, len, &mut buf)).unwrap_or_else(|e| Some(("C18 shuffle panics".into(), crate::util::first_line(&e))));
            if let Some((k, w)) = r {
                rep.violate(k, w, case);
            }
        }
        "seed" => check_special(seed, &mut rep),
        "interleave" => interleavings(&mut rep),
        "sequence" => call_sequences(&mut rep, 5),
        _ => tensor_random(&mut rep),
    }
    rep
}
