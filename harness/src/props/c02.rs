//! C02 — each layer's forward pass computes its defining operator.
use crate::gen::*;
use crate::json::Json;
use crate::libnet::tensor;
use crate::refmodel::net::{forward, ref_shapes, to_f64};
use crate::report::{Ctx, Meta, Report};
use crate::spec::*;
use crate::util::{par_map, Kv};

pub fn meta(ctx: &Ctx) -> Meta {
    Meta {
        rule: format!("single layers: FULL lattice L (kernel 1-3 x stride 1-2(3 for pool) x padding 0-2 x dilation 1-2 x channels 1-2 x filters 1-3 x planes {{1,2,3,4,5,6}}x{{1,2,3,4,5,7}}, rectangular and asymmetric included) for convolution, deconvolution, max-pool with linear activation on pairwise-distinct integer data{} (the ring also on {{-1,0,1}} data with ties and on generic non-dyadic floats), both input representations (flat vector / CxHxW, must be bit-identical); ring of <= {} deviations x E5 x dyadic data; dense n,m in 1..4 x E5+softmax x bias; a LARGE-VALUE ring (kernel 5,7; stride 3,4; padding 3; dilation 3; 4,8 channels; 8,16 filters; planes 12x13, 28x32) walked with <= 1 (thorough 2) deviations; HEAVY layers (3 channels, 8 filters, 24x30 plane: >= 64k multiply-adds) x <= 1 (thorough 2) deviations of kernel / stride / padding / dilation per axis over the large-value domains; the ring also on subnormal data; LONG kernels (8, 9, 10, 16, 17 taps on one axis) x dilation 1..3 x stride 1..2 x padding 0/2 on that axis for convolution (deconvolution, max-pool without dilation); wide dense layers (33, 64, 65, 100, 257); one 6-layer network; networks: every sequence of <= {} layers from {{dense,conv,deconv,pool,feedback}} over 5 input shapes with <= {} configuration deviations that the reference accepts. Oracle: definitional reference forward, pre- and post-activation of every layer. Non-trivial = case whose reference output has >= 2 distinct non-zero entries",
            if ctx.tier.thorough() { " and dyadic data, and ReLU" } else { "" }, if ctx.tier.thorough() { 3 } else { 2 }, 3, if ctx.tier.thorough() { 2 } else { 1 }),
        bound: "kernel <= 3, stride <= 2 (3 pool), padding <= 2, dilation <= 2, planes <= 6x7, depth <= 3".into(),
        exhaustive: true,
        assumptions: vec!["comparison tolerance per tensor: 2e-6 (2e-5 on generic floats, 1e-4 when a leaky ReLU, sigmoid, tanh or soft-max is present) x max(max|reference|, min(1, largest magnitude that flowed in)) + 64 x the movement of the exact tensor when every datum is perturbed by one single-precision rounding + 64 quanta of 2^-149 (bit-exact agreement is counted separately); flat-vs-CxHxW differential is bit-exact".into()],
    }
}

fn kind_name(k: Kind) -> &'static str {
    match k {
        Kind::Conv => "conv",
        Kind::Deconv => "deconv",
        Kind::Pool => "pool",
    }
}
fn kind_parse(s: &str) -> Kind {
    match s {
        "conv" => Kind::Conv,
        "deconv" => Kind::Deconv,
        _ => Kind::Pool,
    }
}
fn val_name(v: Valuation) -> &'static str {
    match v {
        Valuation::Ints => "ints",
        Valuation::Dyadic => "dyadic",
        Valuation::Generic => "generic",
        Valuation::Tiny => "tiny",
        Valuation::Dup => "dup",
        Valuation::Sub => "sub",
    }
}
pub fn val_parse(s: &str) -> Valuation {
    match s {
        "ints" => Valuation::Ints,
        "dyadic" => Valuation::Dyadic,
        "tiny" => Valuation::Tiny,
        "dup" => Valuation::Dup,
        "sub" => Valuation::Sub,
        _ => Valuation::Generic,
    }
}

/// `floor`: the tolerance is relative to max(max|reference|, floor); the floor is the largest magnitude that has flowed
/// through the network so far (inputs and earlier activations), at most 1 - so that data of scale 1e-6 or 1e-42 is
/// judged at its own scale, while a layer whose outputs cancel to near zero is judged at the scale of its operands
fn cmp(lib: &[f32], reff: &[f64], tol: f64, floor: f64, extra: f64) -> Result<bool, String> {
    if lib.len() != reff.len() {
        return Err(format!("{} elements, reference has {}", lib.len(), reff.len()));
    }
    let scale = reff.iter().fold(floor.min(1.0), |m, v| m.max(v.abs()));
    let mut exact = true;
    for i in 0..lib.len() {
        if !lib[i].is_finite() {
            return Err(format!("element {} is {}", i, lib[i]));
        }
        if (lib[i] as f64) != reff[i] {
            exact = false;
            // 64 quanta of gradual underflow (2^-149 each): below 2^-126 rounding is absolute, not relative
            if (lib[i] as f64 - reff[i]).abs() > tol * scale + extra + 64.0 * 1.401298464324817e-45 {
                return Err(format!("element {}: {:e}, reference {:e}", i, lib[i], reff[i]));
            }
        }
    }
    Ok(exact)
}

/// which layer kind / situation a mismatch is attributed to (finding key)
fn layer_key(net: &Net, shapes: &[crate::refmodel::net::LShape], i: usize, flat_in: bool, what: &str) -> String {
    let l = &net.layers[i];
    let prev_flat = if i == 0 { flat_in || net.input.is_flat() } else { shapes[i - 1].out.is_flat() || shapes[i - 1].flatten };
    let entry = if !matches!(l, L::Dense { .. }) && prev_flat && !shapes[i].inp.is_flat() { " flat-vector input" } else { "" };
    format!("C02 {}{} {}", l.kind(), entry, what)
}

/// index of the layer at which the shortest panicking prefix of the network ends
fn blame_prefix(net: &Net, val: Valuation, flat_in: bool, seed: u64) -> usize {
    for n in 1..=net.layers.len() {
        let mut pre = Net::new(net.input, net.layers[..n].to_vec());
        pre.connects = net.connects.iter().filter(|(_, b)| *b < n).cloned().collect();
        let shapes = match ref_shapes(&pre) {
            Ok(s) => s,
            Err(_) => continue,
        };
        let key = net.name();
        let params = params_for(&pre, &shapes, val, seed, &key);
        let x = input_values(val, net.input.count(), seed, &key);
        let xt = if flat_in { tensor(net.input.flat(), &x) } else { tensor(net.input, &x) };
        match build_with(&pre, &shapes, &params) {
            Ok(lib) => {
                if lib_forward(&lib, &xt).is_err() {
                    return n - 1;
                }
            }
            Err(_) => return n - 1,
        }
    }
    net.layers.len() - 1
}

/// compare library and reference forward for one network / valuation / input representation
pub fn check_net(net: &Net, val: Valuation, flat_in: bool, seed: u64, case: &Kv, rep: &mut Report) {
    rep.states += 1;
    rep.evaluations += 1;
    let shapes = match ref_shapes(net) {
        Ok(s) => s,
        Err(e) => panic!("C02 case rejected by the reference: {} ({})", net.name(), e),
    };
    let key = net.name();
    let params = params_for(net, &shapes, val, seed, &key);
    let x = input_values(val, net.input.count(), seed, &key);
    let lib = match build_with(net, &shapes, &params) {
        Ok(n) => n,
        Err(e) => {
            rep.violate(format!("C02 builder rejects a valid network ({})", net.layers.last().unwrap().kind()), e, case);
            return;
        }
    };
    let xt = if flat_in { tensor(net.input.flat(), &x) } else { tensor(net.input, &x) };
    rep.transitions += net.layers.len() as u64;
    let run = match lib_forward(&lib, &xt) {
        Ok(r) => r,
        Err(e) => {
            let at = blame_prefix(net, val, flat_in, seed);
            rep.violate(layer_key(net, &shapes, at, flat_in, "forward panics"), format!("{}: {}", net.name(), crate::util::first_line(&e)), case);
            return;
        }
    };
    let x64: Vec<f64> = x.iter().map(|v| *v as f64).collect();
    let tr = forward(net, &shapes, &to_f64(&params), &x64, false);
    let out = tr.activated.last().unwrap();
    {
        let mut d: Vec<u64> = out.iter().filter(|v| **v != 0.0).map(|v| v.to_bits()).collect();
        d.sort_unstable();
        d.dedup();
        if d.len() >= 2 {
            rep.nontrivial += 1;
        }
    }
    if run.pre.len() != net.layers.len() || run.post.len() != net.layers.len() + 1 {
        rep.violate("C02 forward returns wrong number of tensors", format!("{} pre / {} post for {} layers", run.pre.len(), run.post.len(), net.layers.len()), case);
        return;
    }
    // exact-arithmetic networks (linear / ReLU on dyadic or integer data) get the tight tolerance; leaky ReLU (slope
    // 0.01 is not dyadic), sigmoid and tanh chains amplify single-precision rounding to ~1e-5 relative
    let smooth = net.name().contains("leaky") || net.name().contains("sigmoid") || net.name().contains("tanh") || net.name().contains("softmax");
    let tol = if smooth { 1e-4 } else if val == Valuation::Generic { 2e-5 } else { 2e-6 };
    // conditioning: 64 x how far the exact value of each tensor moves when every datum is perturbed by one rounding
    let tp = perturbed_trace(net, &shapes, &to_f64(&params), &x64);
    let moved = |a: &[f64], b: &[f64]| -> f64 {
        let m = a.iter().zip(b).fold(0.0f64, |m, (x, y)| m.max((x - y).abs()));
        if m.is_finite() {
            64.0 * m
        } else {
            f64::INFINITY
        }
    };
    let mut all_exact = true;
    let mut flow = x64.iter().fold(0.0f64, |m, v| m.max(v.abs()));
    for i in 0..net.layers.len() {
        // operands of this layer: what flows in, and what it adds itself (biases)
        flow = params[i].b.as_ref().map(|b| b.iter().fold(flow, |m, v| m.max(v.abs() as f64))).unwrap_or(flow);
        if matches!(net.layers[i], L::Fb { .. }) {
            flow = flow.max(1.0);
        }
        if !matches!(net.layers[i], L::Fb { .. }) {
            match cmp(&run.pre[i].1, &tr.layers[i].pre, tol, flow, moved(&tp.layers[i].pre, &tr.layers[i].pre)) {
                Ok(e) => all_exact &= e,
                Err(e) => {
                    rep.violate(layer_key(net, &shapes, i, flat_in, "pre-activation"), format!("{} layer {}: {}", net.name(), i, e), case);
                    return;
                }
            }
        }
        let r = cmp(&run.post[i + 1].1, &tr.activated[i + 1], tol, flow, moved(&tp.activated[i + 1], &tr.activated[i + 1]));
        flow = tr.activated[i + 1].iter().fold(flow, |m, v| m.max(v.abs()));
        match r {
            Ok(e) => all_exact &= e,
            Err(e) => {
                rep.violate(layer_key(net, &shapes, i, flat_in, "output"), format!("{} layer {}: {}", net.name(), i, e), case);
                return;
            }
        }
    }
    if all_exact {
        rep.count("bit_exact_cases", 1);
    }
    // prediction = last activation
    rep.transitions += 1;
    match crate::util::guard(|| lib.predict(&xt)) {
        Ok(p) => match crate::libnet::flat_dims(&p) {
            Ok((_, v)) => {
                if !crate::util::bits_eq(&v, &run.post.last().unwrap().1) {
                    rep.violate("C02 predict differs from forward", net.name(), case);
                }
            }
            Err(e) => rep.violate("C02 predict shape", e, case),
        },
        Err(e) => rep.violate("C02 predict panics", e, case),
    }
    // representation differential: CxHxW input vs the same data as a flat vector
    if flat_in {
        let x3 = tensor(net.input, &x);
        rep.transitions += net.layers.len() as u64;
        match lib_forward(&lib, &x3) {
            Ok(r3) => {
                for i in 0..net.layers.len() {
                    if !crate::util::bits_eq(&r3.post[i + 1].1, &run.post[i + 1].1) {
                        rep.violate(layer_key(net, &shapes, 0, true, "differs from CxHxW input"), format!("{} layer {}", net.name(), i), case);
                        break;
                    }
                }
            }
            Err(e) => rep.violate(layer_key(net, &shapes, 0, false, "forward panics"), e, case),
        }
    }
}

pub fn check(ctx_seed: u64, case: &Kv, rep: &mut Report) {
    let val = val_parse(case.get("val"));
    match case.get("kind") {
        "lattice" => {
            let kind = kind_parse(case.get("layer"));
            let ix: Vec<usize> = case.list("ix").iter().map(|s| s.parse().unwrap()).collect();
            let act = Act::parse(case.get("act"));
            let (input, l) = lattice_point(kind, &ix, act).expect("invalid lattice point in case");
            let net = Net::new(input, vec![l]);
            check_net(&net, val, case.bool("flat"), ctx_seed, case, rep);
        }
        "xlattice" => {
            let kind = kind_parse(case.get("layer"));
            let ix: Vec<usize> = case.list("ix").iter().map(|s| s.parse().unwrap()).collect();
            let (input, l) = xlattice_point(kind, &ix, Act::parse(case.get("act"))).expect("invalid large-value lattice point in case");
            let net = Net::new(input, vec![l]);
            check_net(&net, val, case.bool("flat"), ctx_seed, case, rep);
        }
        "heavy" => {
            let kind = kind_parse(case.get("layer"));
            let ix: Vec<usize> = case.list("ix").iter().map(|s| s.parse().unwrap()).collect();
            let (input, l) = heavy_point(kind, &ix, Act::parse(case.get("act"))).expect("invalid heavy lattice point in case");
            let net = Net::new(input, vec![l]);
            check_net(&net, val, case.bool("flat"), ctx_seed, case, rep);
        }
        _ => {
            let net = Net::parse(case.get("net"));
            check_net(&net, val, case.bool("flat"), ctx_seed, case, rep);
        }
    }
}

fn ixs(ix: &[usize]) -> String {
    ix.iter().map(|v| v.to_string()).collect::<Vec<_>>().join(",")
}

pub fn cases(ctx: &Ctx) -> Vec<Kv> {
    let thorough = ctx.tier.thorough();
    let mut out = Vec::new();
    for kind in [Kind::Conv, Kind::Deconv, Kind::Pool] {
        let doms = lattice_domains(kind);
        // full lattice, linear, integer data, both representations
        for ix in product(&doms) {
            if lattice_point(kind, &ix, Act::Linear).is_none() {
                continue;
            }
            for flat in [0, 1] {
                out.push(Kv::new().put("kind", "lattice").put("layer", kind_name(kind)).put("ix", ixs(&ix)).put("act", "linear").put("val", "ints").put("flat", flat));
                if thorough {
                    out.push(Kv::new().put("kind", "lattice").put("layer", kind_name(kind)).put("ix", ixs(&ix)).put("act", "relu").put("val", "dyadic").put("flat", flat));
                }
            }
        }
        // ring x E5 x dyadic
        if kind != Kind::Pool {
            for ix in deviations(&doms, if thorough { 3 } else { 2 }) {
                if lattice_point(kind, &ix, Act::Linear).is_none() {
                    continue;
                }
                for act in E5 {
                    out.push(Kv::new().put("kind", "lattice").put("layer", kind_name(kind)).put("ix", ixs(&ix)).put("act", act.name()).put("val", "dyadic").put("flat", (ix.iter().sum::<usize>() % 2) as u8));
                }
            }
        }
    }
    // other kinds of data on the ring of <= 2 deviations: ties / duplicates / exact zeros ({-1,0,1}), and generic
    // non-dyadic floats (products and sums that are not exactly representable)
    for kind in [Kind::Conv, Kind::Deconv, Kind::Pool] {
        let doms = lattice_domains(kind);
        for ix in deviations(&doms, 2) {
            if lattice_point(kind, &ix, Act::Linear).is_none() {
                continue;
            }
            for val in ["dup", "generic", "sub"] {
                out.push(Kv::new().put("kind", "lattice").put("layer", kind_name(kind)).put("ix", ixs(&ix)).put("act", if ix.iter().sum::<usize>() % 2 == 0 { "linear" } else { "relu" }).put("val", val).put("flat", (ix.iter().sum::<usize>() % 2) as u8));
            }
        }
    }
    // large-value ring: one (thorough: two) dimensions far outside the small lattice
    for kind in [Kind::Conv, Kind::Deconv, Kind::Pool] {
        let doms = xlattice_domains(kind);
        for ix in deviations(&doms, if thorough { 2 } else { 1 }) {
            if !xlattice_is_new(kind, &ix) || xlattice_point(kind, &ix, Act::Linear).is_none() {
                continue;
            }
            let act = if ix.iter().sum::<usize>() % 2 == 0 { "linear" } else { "relu" };
            out.push(Kv::new().put("kind", "xlattice").put("layer", kind_name(kind)).put("ix", ixs(&ix)).put("act", act).put("val", "dyadic").put("flat", (ix.iter().sum::<usize>() % 3 == 0) as u8));
        }
    }
    // heavy layers (3 channels, 8 filters, 24x30: 64k multiply-adds and more) x one (thorough: two) geometry deviations
    for kind in [Kind::Conv, Kind::Deconv, Kind::Pool] {
        let doms = heavy_domains(kind);
        for ix in deviations(&doms, if thorough { 2 } else { 1 }) {
            if heavy_point(kind, &ix, Act::Linear).is_none() {
                continue;
            }
            let act = if ix.iter().sum::<usize>() % 2 == 0 { "linear" } else { "relu" };
            out.push(Kv::new().put("kind", "heavy").put("layer", kind_name(kind)).put("ix", ixs(&ix)).put("act", act).put("val", "dyadic").put("flat", (ix.iter().sum::<usize>() % 3 == 0) as u8));
        }
    }
    // LONG kernels (8, 9, 10, 16, 17 taps on one axis: beyond any unrolling / blocking factor of the tap loop) crossed with
    // dilation 1..3, stride 1..2 and padding 0 / 2 on that axis - a product of two "large" dimensions that the
    // deviation-bounded walks above take one at a time
    for axis in 0..2usize {
        let ax = |long: usize, short: usize| if axis == 0 { (long, short) } else { (short, long) };
        for k in [8usize, 9, 10, 16, 17] {
            for s in 1..=2usize {
                for p in [0usize, 2] {
                    for d in 1..=3usize {
                        let extent = d * (k - 1) + 1 + 3 - 2 * p.min(1);
                        let net = Net::new(
                            Dims::Chw(2, ax(extent, 3).0, ax(extent, 3).1),
                            vec![L::Conv { f: 2, k: ax(k, 2), s: ax(s, 1), p: ax(p, 0), d: ax(d, 1), act: Act::Linear, drop: None }],
                        );
                        if crate::refmodel::net::ref_shapes(&net).is_ok() {
                            out.push(Kv::new().put("kind", "net").put("net", net.name()).put("val", "dyadic").put("flat", (k + d) % 2));
                        }
                    }
                    let net = Net::new(Dims::Chw(2, ax(4, 3).0, ax(4, 3).1), vec![L::Deconv { f: 2, k: ax(k, 2), s: ax(s, 1), p: ax(p, 0), act: Act::Linear, drop: None }]);
                    if crate::refmodel::net::ref_shapes(&net).is_ok() {
                        out.push(Kv::new().put("kind", "net").put("net", net.name()).put("val", "dyadic").put("flat", k % 2));
                    }
                }
                let net = Net::new(Dims::Chw(2, ax(k + 5, 3).0, ax(k + 5, 3).1), vec![L::Pool { k: ax(k, 2), s: ax(s, 1) }]);
                if crate::refmodel::net::ref_shapes(&net).is_ok() {
                    out.push(Kv::new().put("kind", "net").put("net", net.name()).put("val", "dyadic").put("flat", k % 2));
                }
            }
        }
    }
    // wide dense layers (beyond any small unrolling / blocking factor)
    for (n_in, n_out) in [(33usize, 2usize), (2, 33), (65, 64), (100, 100), (64, 10), (257, 3)] {
        for act in [Act::Linear, Act::Tanh, Act::Softmax] {
            let net = Net::new(Dims::Flat(n_in), vec![L::Dense { n: n_out, act, bias: true, drop: None }]);
            out.push(Kv::new().put("kind", "net").put("net", net.name()).put("val", "dyadic").put("flat", 0));
        }
    }
    // a deeper network with wide layers and many channels
    {
        let net = Net::new(
            Dims::Chw(3, 12, 13),
            vec![
                L::Conv { f: 8, k: (5, 5), s: (2, 2), p: (2, 2), d: (1, 1), act: Act::Relu, drop: None },
                L::Conv { f: 4, k: (3, 3), s: (1, 1), p: (1, 1), d: (1, 1), act: Act::Relu, drop: None },
                L::Pool { k: (2, 2), s: (2, 2) },
                L::Deconv { f: 5, k: (3, 3), s: (2, 2), p: (1, 1), act: Act::Linear, drop: None },
                L::Dense { n: 40, act: Act::Relu, bias: true, drop: None },
                L::Dense { n: 10, act: Act::Linear, bias: true, drop: None },
            ],
        );
        if ref_shapes(&net).is_ok() {
            out.push(Kv::new().put("kind", "net").put("net", net.name()).put("val", "dyadic").put("flat", 0));
            out.push(Kv::new().put("kind", "net").put("net", net.name()).put("val", "dyadic").put("flat", 1));
        }
    }
    // dense layers
    for n_in in 1..=4usize {
        for n_out in 1..=4usize {
            for act in [Act::Linear, Act::Relu, Act::Leaky, Act::Sigmoid, Act::Tanh, Act::Softmax] {
                for bias in [true, false] {
                    for val in ["ints", "dyadic", "sub"] {
                        let net = Net::new(Dims::Flat(n_in), vec![L::Dense { n: n_out, act, bias, drop: None }]);
                        out.push(Kv::new().put("kind", "net").put("net", net.name()).put("val", val).put("flat", 0));
                    }
                }
            }
        }
    }
    // networks
    for net in sequences(&INPUTS, 3, if thorough { 2 } else { 1 }, &TOKS) {
        let spatial_first = !net.input.is_flat();
        out.push(Kv::new().put("kind", "net").put("net", net.name()).put("val", "dyadic").put("flat", 0));
        if out.len() % 4 == 0 {
            out.push(Kv::new().put("kind", "net").put("net", net.name()).put("val", "tiny").put("flat", 0));
        }
        if out.len() % 4 == 1 {
            out.push(Kv::new().put("kind", "net").put("net", net.name()).put("val", "dup").put("flat", 0));
        }
        if out.len() % 4 == 2 {
            out.push(Kv::new().put("kind", "net").put("net", net.name()).put("val", "generic").put("flat", 0));
        }
        if out.len() % 4 == 3 {
            out.push(Kv::new().put("kind", "net").put("net", net.name()).put("val", "sub").put("flat", 0));
        }
        if spatial_first {
            out.push(Kv::new().put("kind", "net").put("net", net.name()).put("val", "dyadic").put("flat", 1));
        }
    }
    out
}

pub fn run(ctx: &Ctx) -> Report {
    let cs = cases(ctx);
    let chunks: Vec<&[Kv]> = cs.chunks(256).collect();
    let seed = ctx.seed;
    let parts = par_map(&chunks, |_, c| {
        let mut r = Report::new();
        for k in c.iter() {
            check(seed, k, &mut r);
        }
        r
    });
    let mut rep = Report::new();
    rep.merge_all(parts);
    for i in [0usize, cs.len() / 3, cs.len() / 2, cs.len() - 1] {
        rep.sample(cs[i].to_json());
    }
    rep.notes.insert("cases".into(), Json::i(cs.len() as i64));
    rep.traces_validated = rep.states;
    rep
}

pub fn replay(ctx: &Ctx, case: &Kv) -> Report {
    let mut r = Report::new();
    check(ctx.seed, case, &mut r);
    r
}
