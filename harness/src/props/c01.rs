//! C01 — back-propagated gradients are the true derivatives of the objective.
//! Oracle: exact forward-mode (dual number) derivative of the definitional reference model, which
//! C02 binds to the library's forward pass; single layers through their public backward(), whole
//! networks through the (hooked) Network::backward and through one learn() step with plain SGD.
use crate::gen::*;
use crate::json::Json;
use crate::libnet::{self, flat, flat_dims, tensor};
use crate::refmodel::net::{forward, gradients, ref_shapes, to_f64, LShape};
use crate::refmodel::num::{Dual, Num};
use crate::refmodel::objective::{self as ro, Obj, OBJ7};
use crate::report::{Ctx, Meta, Report};
use crate::spec::*;
use crate::util::{fnv, guard, par_map, Kv, Rng};
use neurons::network::{Layer, Network};
use neurons::tensor::Tensor;

pub fn meta(ctx: &Ctx) -> Meta {
    let t = ctx.tier.thorough();
    Meta {
        rule: format!("(a) single layers through their public backward(): {} of the lattice L for convolution, deconvolution, max-pool (linear activation; ring x E5), dense n,m in 1..4 x E5 x bias, input and upstream gradient given flat or as CxHxW, the ring of <= 1 deviation also on inputs with exact zeros: weight/kernel, bias and INPUT gradient vs the dual-number derivative of sum_k g_k*out_k. (a') a LARGE-VALUE ring (kernel 5,7; stride 3,4; padding 3; dilation 3; 4,8 channels; 8,16 filters; planes 12x13, 28x32) with <= 1 (thorough 2) deviations, HEAVY layers (3 channels, 8 filters, 24x30 plane: >= 64k multiply-adds; quick: the stride and dilation deviations of convolution and deconvolution, thorough: every single deviation of kernel / stride / padding / dilation per axis for all three kinds), wide dense layers (33, 65x64, 100, 241) alone and stacked; LONG kernels (9, 16, 17 taps on one axis) x dilation 1..3 x stride 1..2 for convolution (deconvolution without dilation) between a 1x1 convolution and a dense head; max-pool windows (7 kernel/stride settings) over pairwise distinct EXTREME finite values f32::MIN .. f32::MAX in every rotation, exact routing oracle. (b) networks: every layer sequence of <= {} tokens over 5 input shapes with <= {} deviations x 7 objectives (cycled), through Network::backward, through one learn() step with SGD (parameter change = -lr*gradient), and through Network::backward again on the trained network (all networks with a feedback block, a quarter of the others); soft-max head of width 2,3,5 under cross-entropy on every sequence of <= {} tokens, and soft-max OUTPUT LAYERS that are convolutions / deconvolutions: derivative of CE(softmax(z)); networks also built a second way, through placeholder activations and set_activation. Data re-drawn until every ReLU pre-activation and pool runner-up is >= 0.1 from a kink/tie. Non-trivial = case whose reference gradient has >= 2 distinct non-zero entries",
            if t { "the FULL lattice" } else { "the ring of <= 2 deviations" }, if t { 3 } else { 2 }, if t { 2 } else { 1 }, if t { 2 } else { 1 }),
        bound: "kernel <= 3, stride <= 2(3), padding <= 2, dilation <= 2, planes <= 6x7, depth <= 3 (+ soft-max head)".into(),
        exhaustive: true,
        assumptions: vec![
            "tolerance 2e-4 * max(1, max|reference gradient| of the tensor): f32 back-propagation vs exact f64 derivative".into(),
            "objective output gradients are taken from the library (C06 decides them); parameter gradients must be the vector-Jacobian product with them; for soft-max + cross-entropy the oracle is d CE(softmax(z))".into(),
            "feedback blocks: dense/convolution/deconvolution layers, no skips; each unrolled copy's gradient is the derivative w.r.t. that copy".into(),
        ],
    }
}

const TOL: f64 = 2e-4;

thread_local! {
    /// absolute allowance on top of TOL * scale: the conditioning of the case at hand (0 unless a comparison is being
    /// repeated with it, see `conditioned`)
    static ALLOWANCE: std::cell::Cell<f64> = const { std::cell::Cell::new(0.0) };
}

fn cmp_grad(lib: &[f32], reff: &[f64]) -> Result<(), String> {
    if lib.len() != reff.len() {
        return Err(format!("{} entries, expected {}", lib.len(), reff.len()));
    }
    let scale = reff.iter().fold(1.0f64, |m, v| m.max(v.abs()));
    let extra = ALLOWANCE.with(|a| a.get());
    for i in 0..lib.len() {
        if !lib[i].is_finite() || (lib[i] as f64 - reff[i]).abs() > TOL * scale + extra {
            return Err(format!("entry {}: {:e}, true derivative {:e}", i, lib[i], reff[i]));
        }
    }
    Ok(())
}

fn distinct_nonzero(v: &[f64]) -> usize {
    let mut d: Vec<i64> = v.iter().filter(|x| x.abs() > 1e-9).map(|x| (x * 1e6) as i64).collect();
    d.sort_unstable();
    d.dedup();
    d.len()
}

/// draw parameters and input such that no ReLU pre-activation / pool tie is within 0.1 of a kink and
/// no sigmoid / tanh / soft-max is driven into saturation (|pre| <= 3), where single-precision
/// derivatives lose their digits; parameter magnitudes shrink with every failed attempt
fn draw(net: &Net, shapes: &[LShape], seed: u64, key: &str) -> Option<(Vec<P<f32>>, Vec<f32>)> {
    for attempt in 0..60u64 {
        let k = format!("{}#{}", key, attempt);
        let shrink = 1.0 / (1.0 + (attempt / 4) as f32);
        let params: Vec<P<f32>> = params_for(net, shapes, Valuation::Generic, seed, &k).iter().map(|p| p.map(&|v| v * shrink)).collect();
        let x = input_values(Valuation::Generic, net.input.count(), seed, &k);
        let x64: Vec<f64> = x.iter().map(|v| *v as f64).collect();
        let tr = forward(net, shapes, &to_f64(&params), &x64, false);
        if tr.min_kink >= 0.1 * shrink as f64 && tr.min_gap >= 0.1 * shrink as f64 && tr.max_sat <= 3.0 {
            return Some((params, x));
        }
    }
    None
}

fn conv_class(l: &L) -> &'static str {
    match l {
        L::Conv { k, s, p, d, .. } => {
            if *s != (1, 1) || *d != (1, 1) || p.0 > k.0 - 1 || p.1 > k.1 - 1 {
                " (stride>1 or dilation>1 or padding>kernel-1)"
            } else {
                " (stride 1, dilation 1, padding<=kernel-1)"
            }
        }
        _ => "",
    }
}

// ------------------------------------------------------------------------------------------------
// (a) single layers
// ------------------------------------------------------------------------------------------------
pub fn check_layer(net: &Net, flat_in: bool, flat_grad: bool, seed: u64, case: &Kv, rep: &mut Report) {
    rep.states += 1;
    rep.evaluations += 1;
    let shapes = ref_shapes(net).expect("C01 layer case must be valid");
    let l = &net.layers[0];
    let kind = l.kind();
    let cls = conv_class(l);
    let (params, x) = match draw(net, &shapes, seed, &net.name()) {
        Some(d) => d,
        None => {
            rep.count("skipped_no_kink_free_draw", 1);
            return;
        }
    };
    // "zeros": every third input element is EXACTLY 0 (a dead unit, a blank pixel): the input gradient there is as
    // defined as anywhere else
    let mut x = x;
    if case.opt("zeros").is_some() {
        for (i, v) in x.iter_mut().enumerate() {
            if i % 3 == 1 {
                *v = 0.0;
            }
        }
        let x64: Vec<f64> = x.iter().map(|v| *v as f64).collect();
        let tr = forward(net, &shapes, &to_f64(&params), &x64, false);
        if tr.min_kink < 0.05 || tr.min_gap < 0.05 {
            rep.count("skipped_no_kink_free_draw", 1);
            return;
        }
        rep.count("cases_with_exactly_zero_inputs", 1);
    }
    let lib = match build_with(net, &shapes, &params) {
        Ok(n) => n,
        Err(e) => {
            rep.violate(format!("C01 {} builder rejects", kind), e, case);
            return;
        }
    };
    let out_dims = shapes[0].out;
    let mut r = Rng::new(seed, fnv(&net.name()) ^ 0x3333);
    let g: Vec<f32> = (0..out_dims.count()).map(|_| r.signed(0.25, 1.5)).collect();
    let xt = if flat_in { tensor(shapes[0].inp.flat(), &x) } else { tensor(shapes[0].inp, &x) };
    let gt = if flat_grad { tensor(out_dims.flat(), &g) } else { tensor(out_dims, &g) };
    rep.transitions += 2;
    let res = guard(|| match &lib.layers[0] {
        Layer::Dense(d) => {
            let (pre, _) = d.forward(&xt);
            d.backward(&gt, &xt, &pre)
        }
        Layer::Convolution(c) => {
            let (pre, _) = c.forward(&xt);
            c.backward(&gt, &xt, &pre)
        }
        Layer::Deconvolution(c) => {
            let (pre, _) = c.forward(&xt);
            c.backward(&gt, &xt, &pre)
        }
        Layer::Maxpool(m) => {
            let (_, _, max) = m.forward(&xt);
            (m.backward(&gt, &max), Tensor::single(vec![]), None)
        }
        Layer::Feedback(_) => panic!("feedback block as single layer"),
    });
    let (ig, wg, bg) = match res {
        Ok(t) => t,
        Err(e) => {
            rep.violate(format!("C01 {} backward panics{}", kind, cls), format!("{}: {}", net.name(), crate::util::first_line(&e)), case);
            return;
        }
    };
    // reference: L = sum_k g_k out_k
    let g64: Vec<f64> = g.iter().map(|v| *v as f64).collect();
    let loss = |out: &[Dual]| -> Dual {
        let mut s = Dual::c(0.0);
        for (o, w) in out.iter().zip(&g64) {
            s = s + *o * Dual::c(*w);
        }
        s
    };
    let x64: Vec<f64> = x.iter().map(|v| *v as f64).collect();
    let (pg, xg) = gradients(net, &shapes, &to_f64(&params), &x64, &loss);
    if distinct_nonzero(&xg) >= 2 {
        rep.nontrivial += 1;
    }
    // input gradient
    match flat_dims(&ig) {
        Ok((d, v)) => {
            let want = shapes[0].inp;
            if d != want && d != want.flat() {
                rep.violate(format!("C01 {} input gradient shape{}", kind, cls), format!("{}: {} for input {}", net.name(), d.name(), want.name()), case);
            } else if let Err(e) = cmp_grad(&v, &xg) {
                rep.violate(format!("C01 {} input gradient{}", kind, cls), format!("{}: {}", net.name(), e), case);
            }
        }
        Err(e) => rep.violate(format!("C01 {} input gradient shape{}", kind, cls), e, case),
    }
    // parameter gradients
    match l {
        L::Dense { .. } => {
            match flat(&wg) {
                Ok((_, v)) => {
                    if let Err(e) = cmp_grad(&v, &pg[0].w[0]) {
                        rep.violate("C01 dense weight gradient", format!("{}: {}", net.name(), e), case);
                    }
                }
                Err(e) => rep.violate("C01 dense weight gradient shape", e, case),
            }
            match (&bg, &pg[0].b) {
                (Some(t), Some(want)) => match flat(t) {
                    Ok((_, v)) => {
                        if let Err(e) = cmp_grad(&v, want) {
                            rep.violate("C01 dense bias gradient", format!("{}: {}", net.name(), e), case);
                        }
                    }
                    Err(e) => rep.violate("C01 dense bias gradient shape", e, case),
                },
                (None, None) => (),
                _ => rep.violate("C01 dense bias gradient presence", net.name(), case),
            }
        }
        L::Conv { .. } | L::Deconv { .. } => match flat(&wg) {
            Ok((_, v)) => {
                let want: Vec<f64> = pg[0].w.iter().flatten().copied().collect();
                if let Err(e) = cmp_grad(&v, &want) {
                    rep.violate(format!("C01 {} kernel gradient{}", kind, cls), format!("{}: {}", net.name(), e), case);
                }
            }
            Err(e) => rep.violate(format!("C01 {} kernel gradient shape{}", kind, cls), e, case),
        },
        _ => (),
    }
}

/// max-pool on pairwise distinct EXTREME finite values (f32::MIN, -1e38, .., 1e38, f32::MAX), rotated so that every
/// value visits every position: the gradient handed back must route each upstream entry to the window's maximum
/// (a selection: no arithmetic, so the oracle is exact)
fn check_pool_extreme(case: &Kv, rep: &mut Report) {
    rep.states += 1;
    rep.evaluations += 1;
    rep.nontrivial += 1;
    let (kh, kw, sh, sw) = (case.usize("kh"), case.usize("kw"), case.usize("sh"), case.usize("sw"));
    let (c, h, w) = (2usize, 3usize, 4usize);
    let rot = case.usize("rot");
    const X: [f32; 12] = [f32::MIN, -1.0e38, -3.0, -1.0e-45, 0.0, 1.0e-45, 0.5, 2.5, 7.0, 1.0e30, 1.0e38, f32::MAX];
    let x: Vec<f32> = (0..c * h * w).map(|i| X[(i + rot + (i / 12) * 5) % 12]).collect();
    let net = Net::new(Dims::Chw(c, h, w), vec![L::Pool { k: (kh, kw), s: (sh, sw) }]);
    let shapes = match ref_shapes(&net) {
        Ok(s) => s,
        Err(_) => return,
    };
    let lib = match crate::libnet::build_with_simple(&net, &[P::empty()]) {
        Ok(l) => l,
        Err(e) => {
            rep.violate("C01 pool builder rejects", e, case);
            return;
        }
    };
    let (oc, oh, ow) = match shapes[0].out {
        Dims::Chw(a, b, d) => (a, b, d),
        _ => return,
    };
    let g: Vec<f32> = (0..oc * oh * ow).map(|i| 1.0 + i as f32).collect();
    // exact routing
    let mut want = vec![0.0f32; c * h * w];
    for cc in 0..c {
        for a in 0..oh {
            for b in 0..ow {
                let mut best = (0usize, f32::NEG_INFINITY);
                for i in 0..kh {
                    for j in 0..kw {
                        let idx = (cc * h + a * sh + i) * w + b * sw + j;
                        if x[idx] > best.1 {
                            best = (idx, x[idx]);
                        }
                    }
                }
                want[best.0] += g[(cc * oh + a) * ow + b];
            }
        }
    }
    rep.transitions += 2;
    let res = guard(|| match &lib.layers[0] {
        Layer::Maxpool(m) => {
            let (_, _, max) = m.forward(&tensor(Dims::Chw(c, h, w), &x));
            m.backward(&tensor(Dims::Chw(oc, oh, ow), &g), &max)
        }
        _ => panic!("not a pool"),
    });
    match res.and_then(|t| flat_dims(&t)) {
        Ok((_, got)) => {
            if got.len() != want.len() || (0..got.len()).any(|i| got[i] != want[i]) {
                rep.violate("C01 pool input gradient on extreme finite values", format!("{} input {:?}: gradient {:?}, routing to the window maxima gives {:?}", net.name(), x, got, want), case);
            }
        }
        Err(e) => rep.violate("C01 pool backward panics", crate::util::first_line(&e), case),
    }
}

// ------------------------------------------------------------------------------------------------
// (b) networks
// ------------------------------------------------------------------------------------------------
fn target_for(o: Obj, n: usize, r: &mut Rng) -> Vec<f32> {
    if o.probabilistic() {
        // probability vector away from 0/1
        let raw: Vec<f32> = (0..n).map(|_| r.float(0.2, 1.0)).collect();
        let s: f32 = raw.iter().sum();
        if n == 1 {
            vec![r.float(0.2, 0.8)]
        } else {
            raw.iter().map(|v| v / s).collect()
        }
    } else {
        (0..n).map(|_| r.signed(0.25, 1.5)).collect()
    }
}

fn compare_params(net: &Net, got: &[P<f32>], want: &[P<f64>], what: &str, case: &Kv, rep: &mut Report) -> bool {
    fn one(kind: &str, cls: &str, g: &P<f32>, w: &P<f64>, path: &str) -> Option<(String, String)> {
        if g.w.len() != w.w.len() {
            return Some((format!("C01 {} gradient blocks", kind), format!("{}: {} blocks, expected {}", path, g.w.len(), w.w.len())));
        }
        let gw: Vec<f32> = g.w.iter().flatten().copied().collect();
        let ww: Vec<f64> = w.w.iter().flatten().copied().collect();
        if let Err(e) = cmp_grad(&gw, &ww) {
            return Some((format!("C01 {} {} gradient{}", kind, if kind == "dense" { "weight" } else { "kernel" }, cls), format!("{}: {}", path, e)));
        }
        match (&g.b, &w.b) {
            (Some(a), Some(b)) => {
                if let Err(e) = cmp_grad(a, b) {
                    return Some((format!("C01 {} bias gradient", kind), format!("{}: {}", path, e)));
                }
            }
            (None, None) => (),
            _ => return Some((format!("C01 {} bias gradient presence", kind), path.to_string())),
        }
        None
    }
    for (i, l) in net.layers.iter().enumerate() {
        let r = match l {
            L::Fb { layers, .. } => {
                if got[i].inner.len() != want[i].inner.len() {
                    Some(("C01 fb gradient count".to_string(), format!("layer {}", i)))
                } else {
                    (0..got[i].inner.len()).find_map(|j| {
                        let il = &layers[j % layers.len()];
                        one(&format!("fb-{}", il.kind()), conv_class(il), &got[i].inner[j], &want[i].inner[j], &format!("layer {} unrolled copy {}", i, j))
                    })
                }
            }
            _ => one(l.kind(), conv_class(l), &got[i], &want[i], &format!("layer {}", i)),
        };
        if let Some((k, w)) = r {
            rep.violate(format!("{} [{}]", k, what), format!("{}: {}", net.name(), w), case);
            return false;
        }
    }
    true
}

pub fn check_net(net: &Net, o: Obj, softmax_ce: bool, seed: u64, case: &Kv, rep: &mut Report) {
    rep.states += 1;
    rep.evaluations += 1;
    let shapes = ref_shapes(net).expect("C01 net case must be valid");
    let key = format!("{}/{}", net.name(), o.name());
    let (params, x) = match draw(net, &shapes, seed, &key) {
        Some(d) => d,
        None => {
            rep.count("skipped_no_kink_free_draw", 1);
            return;
        }
    };
    let mut lib = match build_with(net, &shapes, &params) {
        Ok(n) => n,
        Err(e) => {
            rep.violate("C01 builder rejects", e, case);
            return;
        }
    };
    let out_dims = {
        let s = shapes.last().unwrap();
        s.out
    };
    let mut r = Rng::new(seed, fnv(&key) ^ 0x4444);
    let mut target = target_for(o, out_dims.count(), &mut r);
    if o.probabilistic() && !softmax_ce {
        // the network output is not a probability; keep the objective's logs away from the eps-clamp is
        // impossible in general, so probabilistic objectives use the vector-Jacobian form only (below)
        target = target_for(o, out_dims.count(), &mut r);
    }
    let xt = tensor(net.input, &x);
    let tt = tensor(out_dims, &target);
    lib.set_objective(o.lib(), None);
    rep.transitions += 2 * net.layers.len() as u64;
    let run = match lib_forward(&lib, &xt) {
        Ok(r) => r,
        Err(e) => {
            rep.violate("C01 forward panics", format!("{}: {}", net.name(), crate::util::first_line(&e)), case);
            return;
        }
    };
    let out_t = run.raw.1.last().unwrap().clone();
    let objf = neurons::objective::Function::create(o.lib(), None);
    let (_, og) = match guard(|| objf.loss(&out_t, &tt)) {
        Ok(x) => x,
        Err(e) => {
            rep.violate("C01 objective panics", e, case);
            return;
        }
    };
    let g: Vec<f64> = match flat_dims(&og) {
        Ok((_, v)) => v.iter().map(|x| *x as f64).collect(),
        Err(e) => {
            rep.violate("C01 objective gradient shape", e, case);
            return;
        }
    };
    let (pre, post, max, fbs) = (run.raw.0.clone(), run.raw.1.clone(), run.raw.2.clone(), run.raw.3.clone());
    let got = match guard(|| neurons::verif::backward(&lib, og.clone(), &pre, &post, &max, fbs)) {
        Ok((wg, bg)) => match libnet::grads_from_lib(&wg, &bg, net) {
            Ok(g) => g,
            Err(e) => {
                rep.violate("C01 backward returns inconsistent gradients", format!("{}: {}", net.name(), e), case);
                return;
            }
        },
        Err(e) => {
            let at = net.layers.iter().map(|l| l.kind()).collect::<Vec<_>>().join(">");
            let has_bad_conv = net.layers.iter().any(|l| conv_class(l).starts_with(" (stride>1"))
                || net.layers.iter().any(|l| matches!(l, L::Fb { layers, .. } if layers.iter().any(|il| conv_class(il).starts_with(" (stride>1"))));
            rep.violate(
                format!("C01 network backward panics{}", if has_bad_conv { " (contains convolution with stride>1 or dilation>1 or padding>kernel-1)" } else { "" }),
                format!("{} [{}]: {}", net.name(), at, crate::util::first_line(&e)),
                case,
            );
            return;
        }
    };
    // reference derivative
    let t64: Vec<f64> = target.iter().map(|v| *v as f64).collect();
    let x64: Vec<f64> = x.iter().map(|v| *v as f64).collect();
    let loss_vjp = |out: &[Dual]| -> Dual {
        let mut s = Dual::c(0.0);
        for (oo, w) in out.iter().zip(&g) {
            s = s + *oo * Dual::c(*w);
        }
        s
    };
    // cross-entropy of the soft-max outputs, without the eps-clamp of the reported loss
    let loss_ce = |out: &[Dual]| -> Dual {
        let mut s = Dual::c(0.0);
        for (p, t) in out.iter().zip(&t64) {
            s = s + Dual::c(*t) * p.ln();
        }
        -s
    };
    let (want, _) = if softmax_ce {
        gradients(net, &shapes, &to_f64(&params), &x64, &loss_ce)
    } else {
        gradients(net, &shapes, &to_f64(&params), &x64, &loss_vjp)
    };
    let flatwant: Vec<f64> = want.iter().flat_map(|p| p.flat()).collect();
    if distinct_nonzero(&flatwant) >= 2 {
        rep.nontrivial += 1;
    }
    let tag = if softmax_ce { "softmax+cross-entropy" } else { "backward" };
    let mut first = Report::new();
    if !compare_params(net, &got, &want, tag, case, &mut first) {
        // repeat with the conditioning allowance (see the end-to-end comparison below): 64 x the movement of the exact
        // gradient when weights, input and upstream gradient / target are perturbed by one single-precision rounding
        let mut k = 0u32;
        let mut bump = |v: f64| -> f64 {
            k = k.wrapping_add(1);
            v * (1.0 + if k % 2 == 0 { 1.2e-7 } else { -1.2e-7 })
        };
        let pp: Vec<P<f64>> = to_f64(&params).iter().map(|p| P { w: p.w.iter().map(|b| b.iter().map(|v| bump(*v)).collect()).collect(), b: p.b.as_ref().map(|b| b.iter().map(|v| bump(*v)).collect()), inner: p.inner.iter().map(|q| q.map(&|v| v)).collect() }).collect();
        let xp: Vec<f64> = x64.iter().map(|v| bump(*v)).collect();
        let gp: Vec<f64> = g.iter().map(|v| bump(*v)).collect();
        let tp: Vec<f64> = t64.iter().map(|v| bump(*v)).collect();
        let vjp_p = |out: &[Dual]| -> Dual {
            let mut s = Dual::c(0.0);
            for (oo, w) in out.iter().zip(&gp) {
                s = s + *oo * Dual::c(*w);
            }
            s
        };
        let ce_p = |out: &[Dual]| -> Dual {
            let mut s = Dual::c(0.0);
            for (p, t) in out.iter().zip(&tp) {
                s = s + Dual::c(*t) * p.ln();
            }
            -s
        };
        let (want_p, _) = if softmax_ce { gradients(net, &shapes, &pp, &xp, &ce_p) } else { gradients(net, &shapes, &pp, &xp, &vjp_p) };
        let moved = want.iter().flat_map(|p| p.flat()).zip(want_p.iter().flat_map(|p| p.flat())).fold(0.0f64, |m, (a, b)| m.max((a - b).abs()));
        ALLOWANCE.with(|a| a.set(if moved.is_finite() { 64.0 * moved } else { 0.0 }));
        let ok = compare_params(net, &got, &want, tag, case, rep);
        ALLOWANCE.with(|a| a.set(0.0));
        if !ok {
            return;
        }
        rep.count("backward_checks_accepted_by_conditioning", 1);
    }
    // end-to-end derivative of the reported loss for the objectives whose gradient is its derivative
    if !softmax_ce && o.gradient_is_derivative() && !o.probabilistic() {
        let loss_full = |out: &[Dual]| -> Dual { ro::loss(o, out, &t64) };
        let (want2, _) = gradients(net, &shapes, &to_f64(&params), &x64, &loss_full);
        rep.count("end_to_end_loss_derivative_checks", 1);
        let mut first = Report::new();
        if !compare_params(net, &got, &want2, "derivative of the reported loss", case, &mut first) {
            // before reporting: how far does the exact derivative itself move when every datum (weights, input, target) is
            // perturbed by one single-precision rounding? 64 times that movement is what no f32 implementation can beat
            // (deep chains with self-connections double their activations layer by layer and amplify the rounding of the
            // forward pass, on which loss' = 2(p - t)/n depends)
            let mut k = 0u32;
            let mut bump = |v: f64| -> f64 {
                k = k.wrapping_add(1);
                v * (1.0 + if k % 2 == 0 { 1.2e-7 } else { -1.2e-7 })
            };
            let pp: Vec<P<f64>> = to_f64(&params).iter().map(|p| p.map(&|v| v)).collect::<Vec<_>>().iter().map(|p| P { w: p.w.iter().map(|b| b.iter().map(|v| bump(*v)).collect()).collect(), b: p.b.as_ref().map(|b| b.iter().map(|v| bump(*v)).collect()), inner: p.inner.iter().map(|q| q.map(&|v| v)).collect() }).collect();
            let xp: Vec<f64> = x64.iter().map(|v| bump(*v)).collect();
            let tp: Vec<f64> = t64.iter().map(|v| bump(*v)).collect();
            let loss_p = |out: &[Dual]| -> Dual { ro::loss(o, out, &tp) };
            let (want3, _) = gradients(net, &shapes, &pp, &xp, &loss_p);
            let moved = want2.iter().flat_map(|p| p.flat()).zip(want3.iter().flat_map(|p| p.flat())).fold(0.0f64, |m, (a, b)| m.max((a - b).abs()));
            ALLOWANCE.with(|a| a.set(if moved.is_finite() { 64.0 * moved } else { 0.0 }));
            let ok = compare_params(net, &got, &want2, "derivative of the reported loss", case, rep);
            ALLOWANCE.with(|a| a.set(0.0));
            if !ok {
                return;
            }
            rep.count("end_to_end_checks_accepted_by_conditioning", 1);
        }
    }
    // one learn() step with plain SGD: delta = -lr * gradient
    let lr = 0.125f32;
    lib.set_optimizer(neurons::optimizer::SGD::create(lr, None));
    rep.transitions += 1;
    let learned = guard(|| {
        lib.learn(&vec![&xt], &vec![&tt], None, 1, 1, None);
        libnet::get_params(&lib)
    });
    match learned {
        Ok(Ok(after)) => {
            // implied gradient = (before - after)/lr
            let mut implied: Vec<P<f32>> = Vec::new();
            for (b, a) in params.iter().zip(&after) {
                fn sub(b: &P<f32>, a: &P<f32>, lr: f32) -> P<f32> {
                    P {
                        w: b.w.iter().zip(&a.w).map(|(x, y)| x.iter().zip(y).map(|(p, q)| (p - q) / lr).collect()).collect(),
                        b: match (&b.b, &a.b) {
                            (Some(x), Some(y)) => Some(x.iter().zip(y).map(|(p, q)| (p - q) / lr).collect()),
                            _ => None,
                        },
                        inner: b.inner.iter().zip(&a.inner).map(|(x, y)| sub(x, y, lr)).collect(),
                    }
                }
                implied.push(sub(b, a, lr));
            }
            // feedback blocks re-couple their copies after the update, so the implied per-copy gradient is
            // not observable there; compare plain layers only
            let plain: Vec<usize> = (0..net.layers.len()).filter(|i| !matches!(net.layers[*i], L::Fb { .. })).collect();
            for i in plain {
                let sub_net = Net::new(net.input, vec![net.layers[i].clone()]);
                let _ = sub_net;
                let gw: Vec<f32> = implied[i].flat();
                let ww: Vec<f64> = want[i].flat();
                // parameter subtraction loses ~1e-6 absolute / lr
                let scale = ww.iter().fold(1.0f64, |m, v| m.max(v.abs()));
                if gw.len() != ww.len() || (0..gw.len()).any(|j| !(gw[j] as f64).is_finite() || (gw[j] as f64 - ww[j]).abs() > 10.0 * TOL * scale) {
                    rep.violate(
                        format!("C01 learn() step does not move {} parameters by -lr*gradient", net.layers[i].kind()),
                        format!("{} layer {}: implied {:?} vs derivative {:?}", net.name(), i, &gw[..gw.len().min(6)], &ww[..ww.len().min(6)]),
                        case,
                    );
                    return;
                }
            }
            // the same gradient check once more on the TRAINED network (anything a layer cached during the first backward
            // pass or failed to refresh in the update would show here): networks with a feedback block, and every 4th other
            let has_fb = net.layers.iter().any(|l| matches!(l, L::Fb { .. }));
            if has_fb || fnv(&key) % 4 == 0 {
                let after64 = to_f64(&after);
                let tr2 = forward(net, &shapes, &after64, &x64, false);
                // a step of 0.125 can send a linear network off to 1e40: only trained states of ordinary magnitude are judged
                let tame = after64.iter().flat_map(|p| p.flat()).all(|v| v.is_finite() && v.abs() < 1.0e3)
                    && tr2.activated.iter().flatten().all(|v| v.is_finite() && v.abs() < 1.0e3)
                    && tr2.layers.iter().all(|l| l.pre.iter().chain(l.inner.iter().flat_map(|i| i.pre.iter())).all(|v| v.is_finite() && v.abs() < 1.0e3));
                if tame && tr2.min_kink >= 0.02 && tr2.min_gap >= 0.02 && tr2.max_sat <= 4.0 {
                    rep.transitions += 2 * net.layers.len() as u64;
                    let second = guard(|| {
                        let (pre, post, max, fbs) = lib.forward(&xt);
                        let (_, og2) = objf.loss(post.last().unwrap(), &tt);
                        let g2: Vec<f64> = flat_dims(&og2).map(|d| d.1.iter().map(|v| *v as f64).collect()).unwrap_or_default();
                        let (wg, bg) = neurons::verif::backward(&lib, og2, &pre, &post, &max, fbs);
                        (g2, wg, bg)
                    });
                    match second {
                        Ok((g2, wg, bg)) => match libnet::grads_from_lib(&wg, &bg, net) {
                            Ok(got2) => {
                                let vjp2 = |out: &[Dual]| -> Dual {
                                    let mut s = Dual::c(0.0);
                                    for (oo, w) in out.iter().zip(&g2) {
                                        s = s + *oo * Dual::c(*w);
                                    }
                                    s
                                };
                                let (want2, _) = if softmax_ce { gradients(net, &shapes, &after64, &x64, &loss_ce) } else { gradients(net, &shapes, &after64, &x64, &vjp2) };
                                rep.count("gradient_checks_after_a_training_step", 1);
                                let mut first = Report::new();
                                if !compare_params(net, &got2, &want2, "after a training step", case, &mut first) {
                                    // conditioning allowance, as above (a step of 0.125 leaves some networks close to divergence)
                                    let mut k = 0u32;
                                    let mut bump = |v: f64| -> f64 {
                                        k = k.wrapping_add(1);
                                        v * (1.0 + if k % 2 == 0 { 1.2e-7 } else { -1.2e-7 })
                                    };
                                    let pp: Vec<P<f64>> = after64.iter().map(|p| P { w: p.w.iter().map(|b| b.iter().map(|v| bump(*v)).collect()).collect(), b: p.b.as_ref().map(|b| b.iter().map(|v| bump(*v)).collect()), inner: p.inner.iter().map(|q| q.map(&|v| v)).collect() }).collect();
                                    let xp: Vec<f64> = x64.iter().map(|v| bump(*v)).collect();
                                    let gp: Vec<f64> = g2.iter().map(|v| bump(*v)).collect();
                                    let tp: Vec<f64> = t64.iter().map(|v| bump(*v)).collect();
                                    let vjp_p = |out: &[Dual]| -> Dual {
                                        let mut s = Dual::c(0.0);
                                        for (oo, w) in out.iter().zip(&gp) {
                                            s = s + *oo * Dual::c(*w);
                                        }
                                        s
                                    };
                                    let ce_p = |out: &[Dual]| -> Dual {
                                        let mut s = Dual::c(0.0);
                                        for (p, t) in out.iter().zip(&tp) {
                                            s = s + Dual::c(*t) * p.ln();
                                        }
                                        -s
                                    };
                                    let (want_p, _) = if softmax_ce { gradients(net, &shapes, &pp, &xp, &ce_p) } else { gradients(net, &shapes, &pp, &xp, &vjp_p) };
                                    let moved = want2.iter().flat_map(|p| p.flat()).zip(want_p.iter().flat_map(|p| p.flat())).fold(0.0f64, |m, (a, b)| m.max((a - b).abs()));
                                    ALLOWANCE.with(|a| a.set(if moved.is_finite() { 64.0 * moved } else { 0.0 }));
                                    let ok = compare_params(net, &got2, &want2, "after a training step", case, rep);
                                    ALLOWANCE.with(|a| a.set(0.0));
                                    if ok {
                                        rep.count("after_training_checks_accepted_by_conditioning", 1);
                                    }
                                }
                            }
                            Err(e) => rep.violate("C01 backward returns inconsistent gradients", format!("{} after a training step: {}", net.name(), e), case),
                        },
                        Err(e) => rep.violate("C01 network backward panics", format!("{} after a training step: {}", net.name(), crate::util::first_line(&e)), case),
                    }
                } else {
                    rep.count("after_training_checks_skipped_near_a_kink_or_diverged", 1);
                }
            }
        }
        Ok(Err(e)) => rep.violate("C01 parameters inconsistent after learn()", e, case),
        Err(e) => rep.violate("C01 learn() panics", format!("{}: {}", net.name(), crate::util::first_line(&e)), case),
    }
}

// ------------------------------------------------------------------------------------------------
fn ixs(ix: &[usize]) -> String {
    ix.iter().map(|v| v.to_string()).collect::<Vec<_>>().join(",")
}

pub fn cases(ctx: &Ctx) -> Vec<Kv> {
    let t = ctx.tier.thorough();
    let mut out = Vec::new();
    for (kind, kn) in [(Kind::Conv, "conv"), (Kind::Deconv, "deconv"), (Kind::Pool, "pool")] {
        let doms = lattice_domains(kind);
        let pts = if t { product(&doms) } else { deviations(&doms, 2) };
        for ix in pts {
            if lattice_point(kind, &ix, Act::Linear).is_none() {
                continue;
            }
            let h = ix.iter().enumerate().map(|(i, v)| (i + 1) * v).sum::<usize>();
            out.push(Kv::new().put("kind", "layer").put("layer", kn).put("ix", ixs(&ix)).put("act", "linear").put("flat_in", h % 2).put("flat_grad", (h / 2) % 2));
        }
        if kind != Kind::Pool {
            for ix in deviations(&doms, if t { 2 } else { 1 }) {
                if lattice_point(kind, &ix, Act::Linear).is_none() {
                    continue;
                }
                for act in [Act::Relu, Act::Leaky, Act::Sigmoid, Act::Tanh] {
                    out.push(Kv::new().put("kind", "layer").put("layer", kn).put("ix", ixs(&ix)).put("act", act.name()).put("flat_in", 0).put("flat_grad", 0));
                }
            }
        }
    }
    // inputs with exact zeros (every third element) on the ring of <= 1 deviation, convolution and deconvolution
    for (kind, kn) in [(Kind::Conv, "conv"), (Kind::Deconv, "deconv")] {
        let doms = lattice_domains(kind);
        for ix in deviations(&doms, 1) {
            if lattice_point(kind, &ix, Act::Linear).is_none() {
                continue;
            }
            for act in ["linear", "tanh", "relu"] {
                out.push(Kv::new().put("kind", "layer").put("layer", kn).put("ix", ixs(&ix)).put("act", act).put("flat_in", 0).put("flat_grad", 0).put("zeros", 1));
            }
        }
    }
    // large-value ring: one (thorough: two) dimensions far outside the small lattice
    for (kind, kn) in [(Kind::Conv, "conv"), (Kind::Deconv, "deconv"), (Kind::Pool, "pool")] {
        let doms = xlattice_domains(kind);
        for ix in deviations(&doms, if t { 2 } else { 1 }) {
            if !xlattice_is_new(kind, &ix) || xlattice_point(kind, &ix, Act::Linear).is_none() {
                continue;
            }
            // two large dimensions at once are only affordable when the plane stays small
            if t && ix[10] >= 7 && ix[11] >= 7 {
                continue;
            }
            let h = ix.iter().enumerate().map(|(i, v)| (i + 1) * v).sum::<usize>();
            out.push(Kv::new().put("kind", "xlayer").put("layer", kn).put("ix", ixs(&ix)).put("act", if h % 2 == 0 { "linear" } else { "tanh" }).put("flat_in", h % 2).put("flat_grad", (h / 2) % 2));
        }
    }
    // heavy layers (3 channels, 8 filters, 24x30: 64k multiply-adds and more) x one geometry deviation
    for (kind, kn) in [(Kind::Conv, "conv"), (Kind::Deconv, "deconv"), (Kind::Pool, "pool")] {
        let doms = heavy_domains(kind);
        for ix in deviations(&doms, 1) {
            if heavy_point(kind, &ix, Act::Linear).is_none() {
                continue;
            }
            // the exact derivative costs one reference pass per input element (2160): the quick tier walks the stride and
            // dilation deviations of convolution and deconvolution only, the thorough tier all single deviations
            if !t && (kind == Kind::Pool || ix[0] != 0 || ix[1] != 0 || ix[4] != 0 || ix[5] != 0) {
                continue;
            }
            let h = ix.iter().enumerate().map(|(i, v)| (i + 1) * v).sum::<usize>();
            out.push(Kv::new().put("kind", "hlayer").put("layer", kn).put("ix", ixs(&ix)).put("act", if h % 2 == 0 { "linear" } else { "tanh" }).put("flat_in", h % 2).put("flat_grad", (h / 2) % 2));
        }
    }
    // max-pool windows over extreme finite values (f32::MIN .. f32::MAX), every rotation
    for (kh, kw, sh, sw) in [(1usize, 1usize, 1usize, 1usize), (1, 2, 1, 1), (2, 1, 1, 2), (2, 2, 1, 1), (2, 2, 2, 2), (3, 3, 1, 1), (1, 1, 2, 2)] {
        for rot in 0..12 {
            out.push(Kv::new().put("kind", "poolx").put("kh", kh).put("kw", kw).put("sh", sh).put("sw", sw).put("rot", rot));
        }
    }
    // LONG kernels (9, 16, 17 taps on one axis) x dilation 1..3 x stride 1..2 behind a 1x1 convolution (so that the long
    // layer's INPUT gradient matters) and in front of a dense head: a product of two large dimensions (see C02)
    for axis in 0..2usize {
        let ax = |long: usize, short: usize| if axis == 0 { (long, short) } else { (short, long) };
        let pre = L::Conv { f: 2, k: (1, 1), s: (1, 1), p: (0, 0), d: (1, 1), act: Act::Linear, drop: None };
        let head = L::Dense { n: 2, act: Act::Linear, bias: true, drop: None };
        for k in [9usize, 16, 17] {
            for s in 1..=2usize {
                for d in 1..=3usize {
                    let extent = d * (k - 1) + 4;
                    let long = L::Conv { f: 2, k: ax(k, 2), s: ax(s, 1), p: (0, 0), d: ax(d, 1), act: Act::Linear, drop: None };
                    let net = Net::new(Dims::Chw(1, ax(extent, 3).0, ax(extent, 3).1), vec![pre.clone(), long, head.clone()]);
                    if ref_shapes(&net).is_ok() {
                        out.push(Kv::new().put("kind", "net").put("net", net.name()).put("obj", "MSE"));
                    }
                }
                let long = L::Deconv { f: 2, k: ax(k, 2), s: ax(s, 1), p: (0, 0), act: Act::Linear, drop: None };
                let net = Net::new(Dims::Chw(1, ax(4, 3).0, ax(4, 3).1), vec![pre.clone(), long, head.clone()]);
                if ref_shapes(&net).is_ok() {
                    out.push(Kv::new().put("kind", "net").put("net", net.name()).put("obj", "MSE"));
                }
            }
        }
    }
    // wide dense layers, alone and behind another layer (the input gradient of the second one matters)
    for (n_in, n_out) in [(33usize, 2usize), (2, 33), (65, 64), (100, 7)] {
        let net = Net::new(Dims::Flat(n_in), vec![L::Dense { n: n_out, act: Act::Tanh, bias: true, drop: None }]);
        out.push(Kv::new().put("kind", "dense").put("net", net.name()));
    }
    for widths in [vec![65usize, 64, 3], vec![33, 100, 2], vec![17, 241, 5]] {
        let mut layers = vec![L::Dense { n: widths[0], act: Act::Tanh, bias: true, drop: None }];
        for wd in &widths[1..] {
            layers.push(L::Dense { n: *wd, act: Act::Tanh, bias: true, drop: None });
        }
        let net = Net::new(Dims::Flat(3), layers);
        out.push(Kv::new().put("kind", "net").put("net", net.name()).put("obj", "MSE"));
    }
    for n_in in 1..=4usize {
        for n_out in 1..=4usize {
            for act in E5 {
                for bias in [true, false] {
                    let net = Net::new(Dims::Flat(n_in), vec![L::Dense { n: n_out, act, bias, drop: None }]);
                    out.push(Kv::new().put("kind", "dense").put("net", net.name()));
                }
            }
        }
    }
    let nets = sequences(&INPUTS, if t { 3 } else { 2 }, if t { 2 } else { 1 }, &TOKS);
    for (i, net) in nets.iter().enumerate() {
        let o = OBJ7[i % 7];
        out.push(Kv::new().put("kind", "net").put("net", net.name()).put("obj", o.name()));
        // the same network reached through placeholder activations + set_activation
        if net.layers.iter().any(|l| l.act().is_some()) && (t || i % 2 == 0) {
            out.push(Kv::new().put("kind", "net").put("net", net.name()).put("obj", o.name()).put("via", "set_activation"));
        }
    }
    let prefixes = sequences(&INPUTS, if t { 2 } else { 1 }, if t { 1 } else { 1 }, &TOKS);
    for (i, p) in prefixes.iter().enumerate() {
        for width in [2usize, 3, 5] {
            if !t && (i + width) % 3 != 0 {
                continue;
            }
            let mut net = p.clone();
            net.layers.push(L::Dense { n: width, act: Act::Softmax, bias: true, drop: None });
            if ref_shapes(&net).is_ok() {
                out.push(Kv::new().put("kind", "softmax").put("net", net.name()));
                out.push(Kv::new().put("kind", "softmax").put("net", net.name()).put("via", "set_activation"));
            }
        }
    }
    // soft-max output layers that are convolutions / deconvolutions (soft-max over all elements of the output tensor)
    for input in [Dims::Chw(1, 2, 3), Dims::Chw(2, 3, 3)] {
        for head in [
            L::Conv { f: 1, k: (1, 1), s: (1, 1), p: (0, 0), d: (1, 1), act: Act::Softmax, drop: None },
            L::Conv { f: 2, k: (2, 2), s: (1, 1), p: (0, 0), d: (1, 1), act: Act::Softmax, drop: None },
            L::Deconv { f: 1, k: (2, 2), s: (1, 1), p: (0, 0), act: Act::Softmax, drop: None },
        ] {
            for before in [vec![], vec![L::Conv { f: 2, k: (2, 2), s: (1, 1), p: (1, 1), d: (1, 1), act: Act::Tanh, drop: None }]] {
                let mut layers = before.clone();
                layers.push(head.clone());
                let net = Net::new(input, layers);
                if ref_shapes(&net).is_ok() {
                    out.push(Kv::new().put("kind", "softmax").put("net", net.name()));
                }
            }
        }
    }
    // plain soft-max heads
    for n_in in [1usize, 2, 4] {
        for width in [2usize, 3, 5] {
            let net = Net::new(Dims::Flat(n_in), vec![L::Dense { n: width, act: Act::Softmax, bias: true, drop: None }]);
            out.push(Kv::new().put("kind", "softmax").put("net", net.name()));
        }
    }
    out
}

pub fn check(seed: u64, case: &Kv, rep: &mut Report) {
    match case.get("kind") {
        "layer" => {
            let kind = match case.get("layer") {
                "conv" => Kind::Conv,
                "deconv" => Kind::Deconv,
                _ => Kind::Pool,
            };
            let ix: Vec<usize> = case.list("ix").iter().map(|s| s.parse().unwrap()).collect();
            let (input, l) = lattice_point(kind, &ix, Act::parse(case.get("act"))).expect("invalid lattice point");
            check_layer(&Net::new(input, vec![l]), case.bool("flat_in"), case.bool("flat_grad"), seed, case, rep);
        }
        "xlayer" => {
            let kind = match case.get("layer") {
                "conv" => Kind::Conv,
                "deconv" => Kind::Deconv,
                _ => Kind::Pool,
            };
            let ix: Vec<usize> = case.list("ix").iter().map(|s| s.parse().unwrap()).collect();
            let (input, l) = xlattice_point(kind, &ix, Act::parse(case.get("act"))).expect("invalid large-value lattice point");
            check_layer(&Net::new(input, vec![l]), case.bool("flat_in"), case.bool("flat_grad"), seed, case, rep);
        }
        "hlayer" => {
            let kind = match case.get("layer") {
                "conv" => Kind::Conv,
                "deconv" => Kind::Deconv,
                _ => Kind::Pool,
            };
            let ix: Vec<usize> = case.list("ix").iter().map(|s| s.parse().unwrap()).collect();
            let (input, l) = heavy_point(kind, &ix, Act::parse(case.get("act"))).expect("invalid heavy lattice point");
            check_layer(&Net::new(input, vec![l]), case.bool("flat_in"), case.bool("flat_grad"), seed, case, rep);
        }
        "poolx" => check_pool_extreme(case, rep),
        "dense" => check_layer(&Net::parse(case.get("net")), false, false, seed, case, rep),
        "net" | "softmax" => {
            let via = case.opt("via") == Some("set_activation");
            VIA_SET_ACTIVATION.with(|v| v.set(via));
            let mut tmp = Report::new();
            if case.get("kind") == "net" {
                check_net(&Net::parse(case.get("net")), Obj::parse(case.get("obj")), false, seed, case, &mut tmp);
            } else {
                check_net(&Net::parse(case.get("net")), Obj::CE, true, seed, case, &mut tmp);
            }
            VIA_SET_ACTIVATION.with(|v| v.set(false));
            if via {
                for v in tmp.violations.iter_mut() {
                    v.key = format!("{} (network built through set_activation)", v.key);
                }
            }
            rep.merge(tmp);
        }
        _ => unreachable!(),
    }
}

pub fn run(ctx: &Ctx) -> Report {
    let cs = cases(ctx);
    let chunks: Vec<&[Kv]> = cs.chunks(64).collect();
    let seed = ctx.seed;
    let parts = par_map(&chunks, |_, c| {
        let mut r = Report::new();
        for k in c.iter() {
            check(seed, k, &mut r);
        }
        r
    });
    let mut rep = Report::new();
    rep.merge_all(parts);
    for i in [0usize, cs.len() / 4, cs.len() / 2, cs.len() - 1] {
        rep.sample(cs[i].to_json());
    }
    rep.notes.insert("cases".into(), Json::i(cs.len() as i64));
    rep.traces_validated = rep.states;
    rep
}

pub fn replay(ctx: &Ctx, case: &Kv) -> Report {
    let mut r = Report::new();
    check(ctx.seed, case, &mut r);
    r
}
