//! C11 — a feedback block computes the repeated, optionally skip-combined, layer sequence.
use crate::gen::*;
use crate::json::Json;
use crate::refmodel::net::ref_shapes;
use crate::report::{Ctx, Meta, Report};
use crate::spec::*;
use crate::util::{guard, par_map, Kv};

pub fn meta(_ctx: &Ctx) -> Meta {
    Meta {
        rule: "block layer lists {[dense],[dense,dense]} (flat) and {[conv],[conv,conv],[deconv],[conv,deconv],[conv,pool]} (spatial, shape-preserving) x activations {linear, ReLU, tanh} x loops L in 1..4 (1..9 for three of the block lists) x all 4 skip-flag combinations x all 5 accumulations x followed by a dense layer or not x fed by the network input or a preceding layer (dense -> block of spatial layers included) x 2 data valuations (exact small-integer data, inputs multiples of 60 for mean; the second valuation of linear / ReLU blocks scaled by 2^-20) plus the blank sample (all-zero input) for every block, plus identity blocks on inputs near +-3e38 (the mean of such values is representable, their sum is not), plus blocks NEAR A FIXED POINT of their repeated map (x -> g x + (1-g), g in {2, 1/2}, started 1 / 8 ulp from the fixed point, L in {8,16,22}, all flags and accumulations). every block with L <= 3 also AFTER a learn() call on the network (parameters read back), as built and with a dropout rate of 1/2 on every block layer (prediction must be the dropout-free repeated application; tolerance 1e-4 there). Oracles: a block without skips equals, bit for bit, the plain network in which its layer list is written out L times; reference interpreter rep_1=f(x), rep_i=f(comb(rep_{i-1},[x])) with input skips, out=comb(rep_L,[rep_1..rep_{L-1}]) with output skips. Non-trivial = reference output has >= 2 distinct non-zero entries".into(),
        bound: "L <= 4 (9 for three block lists), block lists of <= 2 layers, planes 3x3 and 3x4; complete product (thorough: L in 1..9 for every one of those block lists; block lists of 3 and 4 layers and a block fed by another block with L <= 4)".into(),
        exhaustive: true,
        assumptions: vec!["bit-exact agreement is counted; the verdict uses tolerance 2e-6*max|reference| for linear/ReLU blocks (division by 3 is not exact) and 5e-4*max|reference| for tanh blocks".into()],
    }
}

pub fn nets(thorough: bool) -> Vec<Net> {
    let mut out = Vec::new();
    let acts = [Act::Linear, Act::Relu, Act::Tanh];
    for act in acts {
        let d = |n: usize| L::Dense { n, act, bias: true, drop: None };
        let conv = |f: usize| L::Conv { f, k: (3, 3), s: (1, 1), p: (1, 1), d: (1, 1), act, drop: None };
        let deconv = |f: usize| L::Deconv { f, k: (3, 3), s: (1, 1), p: (1, 1), act, drop: None };
        let conv_up = |f: usize| L::Conv { f, k: (2, 2), s: (1, 1), p: (1, 1), d: (1, 1), act, drop: None };
        let pool = L::Pool { k: (2, 2), s: (1, 1) };
        // (input, preceding layers, block list)
        let mut settings: Vec<(Dims, Vec<L>, Vec<L>)> = Vec::new();
        settings.push((Dims::Flat(4), vec![], vec![d(4)]));
        settings.push((Dims::Flat(4), vec![], vec![d(5), d(4)]));
        settings.push((Dims::Flat(3), vec![L::Dense { n: 4, act: Act::Linear, bias: false, drop: None }], vec![d(4)]));
        for (input, c) in [(Dims::Chw(1, 3, 3), 1usize), (Dims::Chw(2, 3, 4), 2usize)] {
            settings.push((input, vec![], vec![conv(c)]));
            settings.push((input, vec![], vec![conv(c + 1), conv(c)]));
            settings.push((input, vec![], vec![deconv(c)]));
            settings.push((input, vec![], vec![conv(c + 1), deconv(c)]));
            settings.push((input, vec![], vec![conv_up(c), pool.clone()]));
        }
        // a preceding shape-preserving convolution, and a dense layer in front of a block of spatial layers
        settings.push((Dims::Chw(1, 3, 3), vec![L::Conv { f: 1, k: (3, 3), s: (1, 1), p: (1, 1), d: (1, 1), act: Act::Linear, drop: None }], vec![conv(1)]));
        settings.push((Dims::Flat(4), vec![L::Dense { n: 9, act: Act::Linear, bias: false, drop: None }], vec![conv(1)]));
        if thorough {
            // deeper bound: block lists of three and four layers, and two blocks in a row
            settings.push((Dims::Flat(4), vec![], vec![d(5), d(3), d(4)]));
            settings.push((Dims::Flat(4), vec![], vec![d(4), d(4), d(4), d(4)]));
            settings.push((Dims::Chw(1, 3, 3), vec![], vec![conv(2), conv(2), conv(1)]));
            settings.push((Dims::Chw(1, 3, 3), vec![], vec![conv(2), deconv(2), conv(1)]));
            settings.push((Dims::Chw(1, 3, 3), vec![], vec![conv_up(1), pool.clone(), conv(1)]));
            settings.push((Dims::Flat(4), vec![L::Fb { layers: vec![d(4)], loops: 2, inskips: true, outskips: true, acc: Acc::Add }], vec![d(4)]));
        }
        for (si, (input, before, list)) in settings.into_iter().enumerate() {
            // beyond the small bound: L = 5..9 for the dense lists and the first convolutional one
            // (the thorough-only settings - indices 15 and up: longer block lists, a block fed by a block - stay at L <= 4: chains of
            // 30 and more saturating layers amplify single-precision rounding beyond any meaningful tolerance)
            let loop_counts: Vec<usize> = if thorough && si < 15 { (1..=9).collect() } else if !thorough && (si < 2 || si == 3) { (1..=9).collect() } else { (1..=4).collect() };
            for loops in loop_counts {
                for inskips in [false, true] {
                    for outskips in [false, true] {
                        for acc in A5 {
                            for dense_after in [false, true] {
                                let mut layers = before.clone();
                                layers.push(L::Fb { layers: list.clone(), loops, inskips, outskips, acc });
                                if dense_after {
                                    layers.push(L::Dense { n: 3, act: Act::Linear, bias: true, drop: None });
                                }
                                let net = Net::new(input, layers);
                                if ref_shapes(&net).is_ok() {
                                    out.push(net);
                                }
                            }
                        }
                    }
                }
            }
        }
    }
    out
}

/// blocks whose repeated map x -> g x + (1 - g) has a fixed point at 1, started a few units in the last place away
/// from it (g = 2 repelling, g = 1/2 attracting): successive repetitions differ by a few ulp without being equal, and
/// all arithmetic is exact in single precision
pub fn fixed_point_nets() -> Vec<Net> {
    let d = L::Dense { n: 2, act: Act::Linear, bias: true, drop: None };
    let mut out = Vec::new();
    for loops in [8usize, 16, 22] {
        for inskips in [false, true] {
            for outskips in [false, true] {
                for acc in A5 {
                    for dense_after in [false, true] {
                        let mut layers = vec![L::Fb { layers: vec![d.clone()], loops, inskips, outskips, acc }];
                        if dense_after {
                            layers.push(d.clone());
                        }
                        out.push(Net::new(Dims::Flat(2), layers));
                    }
                }
            }
        }
    }
    out
}

fn fixed_point_data(net: &Net, gain: f32) -> (Vec<P<f32>>, Vec<f32>) {
    let one = |g: f32| P { w: vec![vec![g, 0.0, 0.0, g]], b: Some(vec![1.0 - g, 1.0 - g]), inner: vec![] };
    let params = net
        .layers
        .iter()
        .map(|l| match l {
            L::Fb { loops, .. } => P { w: vec![], b: None, inner: (0..*loops).map(|_| one(gain)).collect() },
            _ => one(1.0),
        })
        .collect();
    let u = if gain > 1.0 { f32::EPSILON } else { 8.0 * f32::EPSILON };
    (params, vec![1.0 + u, 1.0 - u])
}

fn fb_of(net: &Net) -> (usize, bool, bool, Acc) {
    for l in &net.layers {
        if let L::Fb { loops, inskips, outskips, acc, .. } = l {
            return (*loops, *inskips, *outskips, *acc);
        }
    }
    panic!("no block")
}

pub fn check(seed: u64, case: &Kv, rep: &mut Report) {
    // "trained=1": the block is judged AFTER a learn() call on the same network (parameters read back through the hook)
    let trained = case.opt("trained").is_some();
    crate::gen::PRETRAIN.with(|p| p.set(trained));
    if trained {
        rep.count("cases_judged_after_a_learn_call", 1);
    }
    check_inner(seed, case, rep);
    crate::gen::PRETRAIN.with(|p| p.set(false));
}

fn check_inner(seed: u64, case: &Kv, rep: &mut Report) {
    let net = Net::parse(case.get("net"));
    let v = case.usize("val");
    rep.states += 1;
    rep.evaluations += 1;
    rep.transitions += 1;
    let shapes = ref_shapes(&net).unwrap();
    let (loops, inskips, outskips, acc) = fb_of(&net);
    let key = format!("{}#{}", net.name(), v);
    // valuation 6: identity blocks (gain 1) on inputs near the end of the range - a mean of values near +-3e38 is
    // representable although their sum is not; the only arithmetic is the accumulation itself
    let fp = if v >= 8 {
        Some(fixed_point_data(&net, if v == 8 { 2.0 } else { 0.5 }))
    } else if v == 6 {
        Some((fixed_point_data(&net, 1.0).0, vec![2.0e38, -3.0e38]))
    } else {
        None
    };
    if fp.is_some() {
        rep.count("near_fixed_point_cases", 1);
    }
    let params = fp.as_ref().map(|d| d.0.clone()).unwrap_or_else(|| structural_params(&net, &shapes, seed, &key));
    // odd valuations of exact (linear / ReLU) blocks use tiny inputs (2^-20): nothing may depend on the magnitude
    let tiny = v % 2 == 1 && !net.name().contains("tanh");
    let unit = if acc == Acc::Mean { 60.0 } else { 1.0 } * if tiny { 9.536_743e-7 } else { 1.0 };
    // valuation 7: the blank sample (every input exactly zero)
    let x = match &fp {
        Some(d) => d.1.clone(),
        None if v == 7 => vec![0.0; net.input.count()],
        None => structural_input(net.input.count(), unit, seed, &key),
    };
    let cls = format!(
        "L{} {}{} {}",
        if loops == 1 { "=1" } else { ">1" },
        if inskips { "inskips " } else { "" },
        if outskips { "outskips" } else { "" },
        acc.name()
    );
    // tanh saturates on integer data and amplifies single-precision rounding: looser tolerance there
    let smooth = net.name().contains("tanh");
    match predict_vs_ref_limit(&net, &params, &x, if smooth { 5e-4 } else { 2e-6 }, if v == 6 { 3.4e38 } else { 1.0e30 }) {
        Ok(ok) => {
            if ok.nontrivial {
                rep.nontrivial += 1;
            }
            if ok.overflow {
                rep.count("reference_outside_f32_range_skipped", 1);
            }
            if ok.exact {
                rep.count("bit_exact_cases", 1);
            }
        }
        Err(Mismatch::Rejected(e)) => rep.violate(format!("C11 builder rejects block [{}]", cls.trim()), format!("{}: {}", net.name(), crate::util::first_line(&e)), case),
        // training is not C11's subject: a learn() call that the library refuses (max-pool inside a trained block, internal
        // skips between unequal widths - both outside the statements, section 9) only means this trained case is not judged
        Err(Mismatch::Panics(e)) if e.starts_with("learn():") => rep.count("trained_cases_whose_learn_call_is_refused_skipped", 1),
        Err(Mismatch::Panics(e)) => rep.violate(format!("C11 forward panics [{}]", cls.trim()), format!("{}: {}", net.name(), crate::util::first_line(&e)), case),
        Err(Mismatch::Shape(e)) => rep.violate(format!("C11 output shape [{}]", cls.trim()), format!("{}: {}", net.name(), e), case),
        Err(Mismatch::Value(e)) => rep.violate(format!("C11 block output [{}]", cls.trim()), format!("{}: {}", net.name(), e), case),
    }
    // without skips the block IS the plain network in which its layer list is written out L times with the unrolled
    // copies' weights: bit for bit
    if !inskips && !outskips {
        let mut layers = Vec::new();
        let mut p2: Vec<P<f32>> = Vec::new();
        for (i, l) in net.layers.iter().enumerate() {
            match l {
                L::Fb { layers: list, loops, .. } => {
                    for r in 0..*loops {
                        for (j, il) in list.iter().enumerate() {
                            layers.push(il.clone());
                            p2.push(params[i].inner[r * list.len() + j].clone());
                        }
                    }
                }
                _ => {
                    layers.push(l.clone());
                    p2.push(params[i].clone());
                }
            }
        }
        let plain = Net::new(net.input, layers);
        if let Ok(sh2) = ref_shapes(&plain) {
            rep.transitions += 1;
            let run = |n: &Net, sh: &[crate::refmodel::net::LShape], p: &[P<f32>]| build_with(n, sh, p).and_then(|lib| guard(|| lib.predict(&crate::libnet::tensor(n.input, &x)))).and_then(|t| crate::libnet::flat_dims(&t));
            if let (Ok((_, a)), Ok((_, b))) = (run(&net, &shapes, &params), run(&plain, &sh2, &p2)) {
                rep.count("unrolled_differential", 1);
                if !crate::util::bits_eq(&a, &b) {
                    rep.violate(format!("C11 block without skips differs from the written-out network [{}]", cls.trim()), format!("{}: block {:?}, written out {:?}", net.name(), &a[..a.len().min(6)], &b[..b.len().min(6)]), case);
                }
            }
        }
    }
}

pub fn run(ctx: &Ctx) -> Report {
    let ns = nets(ctx.tier.thorough());
    let vals = if ctx.tier.thorough() { 4 } else { 2 };
    let mut cs: Vec<Kv> = ns.iter().flat_map(|n| (0..vals).map(move |v| Kv::new().put("net", n.name()).put("val", v))).collect();
    // the block AFTER a learn() call (loops <= 3, blocks of dense / convolution / deconvolution layers): as built, and with
    // a dropout rate of 1/2 on every block layer - prediction after training must be the dropout-free repeated application
    for n in ns.iter() {
        // every block of the network (thorough has networks with two blocks) must satisfy L <= 3: a chain of 18 trained
        // tanh layers amplifies single-precision rounding beyond any tolerance that would still mean something
        let loops = n.layers.iter().filter_map(|l| if let L::Fb { loops, .. } = l { Some(*loops) } else { None }).max().unwrap_or(1);
        if loops > 3 || n.name().contains("pool") {
            continue;
        }
        cs.push(Kv::new().put("net", n.name()).put("val", 0).put("trained", 1));
        let mut m = n.clone();
        for l in m.layers.iter_mut() {
            if let L::Fb { layers, .. } = l {
                for q in layers.iter_mut() {
                    match q {
                        L::Dense { drop, .. } | L::Conv { drop, .. } | L::Deconv { drop, .. } => *drop = Some(0.5),
                        _ => (),
                    }
                }
            }
        }
        cs.push(Kv::new().put("net", m.name()).put("val", 0).put("trained", 1));
    }
    // the blank sample for every block, and blocks near a fixed point of their repeated map
    cs.extend(ns.iter().map(|n| Kv::new().put("net", n.name()).put("val", 7)));
    cs.extend(fixed_point_nets().iter().flat_map(|n| [8usize, 9].into_iter().map(move |v| Kv::new().put("net", n.name()).put("val", v))));
    // identity blocks on inputs near +-3e38 (2, 3 and 8 repetitions, all flags and accumulations)
    for n in fixed_point_nets() {
        let mut m = n.clone();
        for l in m.layers.iter_mut() {
            if let L::Fb { loops, .. } = l {
                *loops = match *loops {
                    8 => 2,
                    16 => 3,
                    x => x / 22 * 8,
                };
            }
        }
        cs.push(Kv::new().put("net", m.name()).put("val", 6));
    }
    let seed = ctx.seed;
    let chunks: Vec<&[Kv]> = cs.chunks(128).collect();
    let parts = par_map(&chunks, |_, c| {
        let mut r = Report::new();
        for k in c.iter() {
            check(seed, k, &mut r);
        }
        r
    });
    let mut rep = Report::new();
    rep.merge_all(parts);
    for i in [0usize, cs.len() / 3, cs.len() / 2, cs.len() - 1] {
        rep.sample(cs[i].to_json());
    }
    rep.notes.insert("cases".into(), Json::i(cs.len() as i64));
    rep.traces_validated = rep.states;
    rep
}

pub fn replay(ctx: &Ctx, case: &Kv) -> Report {
    let mut r = Report::new();
    check(ctx.seed, case, &mut r);
    r
}
