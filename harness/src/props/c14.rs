//! C14 — reshaping and flattening preserve the row-major element sequence.
use crate::libnet::{flat, flat_dims, lib_shape, tensor};
use crate::report::{Ctx, Meta, Report};
use crate::spec::Dims;
use crate::util::{guard, par_map, Kv};
use crate::json::Json;

pub fn meta(_ctx: &Ctx) -> Meta {
    Meta {
        rule: "every shape (c,h,w) in {1..4}^3 plus (1,1,7),(5,1,2),(2,6,1); every ordered 3-D->3-D pair; vector(n)<->3-D for n in 0..=64 against every shape; targets with an extent of 0 (must be refused for a non-empty source); seven large shapes (1024..3072 elements, tall / wide / square) and ten of 2^14..2^16 elements (changing row lengths, channel sizes that are no multiple of the source row length) against each other and their vectors; ops flatten/get_flat/get_triple/reshape and there-and-back (get_triple of a vector as a 3-D shape of another count must be refused like reshape); every case with three kinds of contents: 0,1,2,.. (pairwise distinct); zeros and subnormal numbers only; a cycle through -0, subnormals, 1e-30, +-1e-5, 1+-ulp, +-MAX, +-inf and NaN - compared as bit patterns. Non-trivial = a case with >=2 elements whose target nesting differs from the source nesting".into(),
        bound: "extents <= 4 (thorough 7) plus elongated and large shapes, vector lengths <= 64 (thorough 343); complete within the bound".into(),
        exhaustive: true,
        assumptions: vec!["vector->vector reshape and get_triple are only exercised with equal counts (the refusal clause names vector<->3-D and 3-D<->3-D)".into()],
    }
}

fn shapes(max: usize) -> Vec<Dims> {
    let mut v = Vec::new();
    for c in 1..=max {
        for h in 1..=max {
            for w in 1..=max {
                v.push(Dims::Chw(c, h, w));
            }
        }
    }
    v.extend([Dims::Chw(1, 1, 7), Dims::Chw(5, 1, 2), Dims::Chw(2, 6, 1)]);
    v
}

/// element contents: "idx" = 0,1,2,.. (pairwise distinct); "sub" = zeros and subnormal numbers only (+-k * 2^-149);
/// "special" = a cycle through -0, subnormals, 1e-30, values within 1e-5 of 0 and of 1, +-MAX, +-inf and a NaN.
/// Moving data must not look at it: the comparison is on bit patterns.
fn content(kind: &str, n: usize) -> Vec<f32> {
    const SPECIAL: [u32; 14] = [
        0x8000_0000, 0x0000_0001, 0x8000_0003, 0x0D24_2880, 0x3727_C5AC, 0xB727_C5AC, 0x3F80_0001, 0x3F7F_FFFF, 0x7F7F_FFFF, 0xFF7F_FFFF, 0x7F80_0000,
        0xFF80_0000, 0x7FC0_0001, 0x0000_0000,
    ];
    match kind {
        "sub" => (0..n).map(|i| f32::from_bits(((i % 5) as u32) | if i % 3 == 0 { 0x8000_0000 } else { 0 })).collect(),
        "special" => (0..n).map(|i| f32::from_bits(SPECIAL[i % 14].wrapping_add(if SPECIAL[i % 14] & 0x7F80_0000 == 0x7F80_0000 { 0 } else { (i / 14) as u32 }))).collect(),
        _ => (0..n).map(|i| i as f32).collect(),
    }
}

fn same(a: &[f32], b: &[f32]) -> bool {
    a.len() == b.len() && a.iter().zip(b).all(|(x, y)| x.to_bits() == y.to_bits())
}

/// one case: reshape `from` -> `to` (and back when accepted)
pub fn check(case: &Kv, rep: &mut Report) {
    let from = Dims::parse(case.get("from"));
    let to = Dims::parse(case.get("to"));
    let data = content(case.opt("content").unwrap_or("idx"), from.count());
    let src = tensor(from, &data);
    rep.states += 1;
    rep.evaluations += 1;
    if from.count() >= 2 && from != to {
        rep.nontrivial += 1;
    }
    // flatten / get_flat of the source (of a vector: the vector itself)
    {
        rep.transitions += 2;
        match guard(|| (src.flatten(), src.get_flat())) {
            Ok((f, g)) => {
                match flat_dims(&f) {
                    Ok((d, v)) => {
                        if d != Dims::Flat(from.count()) || !same(&v, &data) {
                            rep.violate("C14 flatten", format!("flatten of {} gave {:?} {}", from.name(), d, brief(&v)), case);
                        }
                    }
                    Err(e) => rep.violate("C14 flatten shape/data", e, case),
                }
                if !same(&g, &data) {
                    rep.violate("C14 get_flat", format!("get_flat of {} gave {}", from.name(), brief(&g)), case);
                }
            }
            Err(e) => rep.violate("C14 flatten panic", e, case),
        }
    }
    rep.transitions += 1;
    let res = guard(|| src.clone().reshape(lib_shape(to)));
    if from.count() != to.count() {
        if let Ok(t) = res {
            rep.violate(
                "C14 reshape accepts unequal counts",
                format!("reshape {} -> {} was not refused; result shape {:?}", from.name(), to.name(), t.shape),
                case,
            );
        }
        // reading a vector as a 3-D shape of another element count must be refused too (it would drop or invent elements)
        if let (Dims::Flat(_), Dims::Chw(..)) = (from, to) {
            rep.transitions += 1;
            if let Ok(d) = guard(|| src.get_triple(&lib_shape(to))) {
                let got: usize = d.iter().map(|c| c.iter().map(|r| r.len()).sum::<usize>()).sum();
                rep.violate(
                    "C14 get_triple accepts unequal counts",
                    format!("get_triple of {} as {} was not refused; {} of {} elements returned", from.name(), to.name(), got, from.count()),
                    case,
                );
            }
        }
        return;
    }
    let t = match res {
        Ok(t) => t,
        Err(e) => {
            rep.violate("C14 reshape refuses equal counts", format!("reshape {} -> {} panicked: {}", from.name(), to.name(), e), case);
            return;
        }
    };
    match flat_dims(&t) {
        Ok((d, v)) => {
            if d != to {
                rep.violate("C14 reshape recorded shape", format!("reshape {} -> {} recorded {:?}", from.name(), to.name(), d), case);
            }
            if !same(&v, &data) {
                rep.violate("C14 reshape order", format!("reshape {} -> {} gave sequence {}", from.name(), to.name(), brief(&v)), case);
            }
        }
        Err(e) => {
            rep.violate("C14 reshape shape/data", e, case);
            return;
        }
    }
    // there and back
    rep.transitions += 1;
    match guard(|| t.clone().reshape(lib_shape(from))) {
        Ok(b) => match flat(&b) {
            Ok((s, v)) => {
                if s != lib_shape(from) || !same(&v, &data) {
                    rep.violate("C14 round trip", format!("{} -> {} -> back gave {:?} {}", from.name(), to.name(), s, brief(&v)), case);
                }
            }
            Err(e) => rep.violate("C14 round trip shape/data", e, case),
        },
        Err(e) => rep.violate("C14 round trip panic", e, case),
    }
    // get_triple from a vector
    if let (Dims::Flat(_), Dims::Chw(c, h, w)) = (from, to) {
        rep.transitions += 1;
        match guard(|| src.get_triple(&lib_shape(to))) {
            Ok(d) => {
                let ok = d.len() == c && d.iter().all(|x| x.len() == h && x.iter().all(|r| r.len() == w));
                let v: Vec<f32> = d.iter().flatten().flatten().copied().collect();
                if !ok || !same(&v, &data) {
                    rep.violate("C14 get_triple", format!("get_triple {} -> {} gave {:?}", from.name(), to.name(), d), case);
                }
            }
            Err(e) => rep.violate("C14 get_triple panic", e, case),
        }
    }
}

/// a long sequence is reported by its first elements and the first position at which it leaves 0, 1, 2, ..
fn brief(v: &[f32]) -> String {
    if v.len() <= 24 {
        return format!("{:?}", v);
    }
    let off = v.iter().enumerate().position(|(i, x)| *x != i as f32);
    format!("{:?}.. ({} elements; first element that is not its own index: {:?})", &v[..12], v.len(), off.map(|i| (i, v[i])))
}

pub fn cases(thorough: bool) -> Vec<Kv> {
    let sh = shapes(if thorough { 7 } else { 4 });
    let max_vec = if thorough { 343usize } else { 64usize };
    let mut out = Vec::new();
    for a in &sh {
        for b in &sh {
            out.push(Kv::new().put("from", a.name()).put("to", b.name()));
        }
    }
    for n in 0..=max_vec {
        for b in &sh {
            out.push(Kv::new().put("from", Dims::Flat(n).name()).put("to", b.name()));
            if n > 0 {
                out.push(Kv::new().put("from", b.name()).put("to", Dims::Flat(n).name()));
            }
        }
        if n > 0 {
            out.push(Kv::new().put("from", Dims::Flat(n).name()).put("to", Dims::Flat(n).name()));
        }
    }
    // targets with an extent of 0 (no elements): a non-empty source must be refused
    for a in sh.iter().take(12) {
        for z in [Dims::Chw(0, 2, 3), Dims::Chw(2, 0, 3), Dims::Chw(2, 3, 0), Dims::Chw(0, a.count().max(1), 1)] {
            out.push(Kv::new().put("from", a.name()).put("to", z.name()));
            out.push(Kv::new().put("from", Dims::Flat(a.count()).name()).put("to", z.name()));
        }
    }
    // beyond the small bound: tensors of 1024+ elements, tall and wide planes
    let big = [Dims::Chw(1, 16, 64), Dims::Chw(4, 32, 8), Dims::Chw(3, 32, 32), Dims::Chw(2, 40, 20), Dims::Chw(3, 20, 40), Dims::Chw(1, 1, 1100), Dims::Chw(1100, 1, 1)];
    for a in &big {
        out.push(Kv::new().put("from", a.name()).put("to", Dims::Flat(a.count()).name()));
        out.push(Kv::new().put("from", Dims::Flat(a.count()).name()).put("to", a.name()));
        out.push(Kv::new().put("from", a.name()).put("to", Dims::Flat(a.count() + 1).name()));
        for b in &big {
            out.push(Kv::new().put("from", a.name()).put("to", b.name()));
        }
    }
    // ... and tensors of 2^14 .. 2^16 elements (where an implementation might switch to a parallel or blocked copy), with
    // row lengths that change and channel sizes that are no multiple of the source row length
    let huge = [
        Dims::Chw(3, 80, 80), Dims::Chw(50, 16, 24), Dims::Chw(16, 32, 32), Dims::Chw(1024, 1, 16), Dims::Chw(4, 64, 64), Dims::Chw(1, 128, 128),
        Dims::Chw(7, 48, 50), Dims::Chw(25, 32, 21), Dims::Chw(3, 150, 145), Dims::Chw(29, 45, 50),
    ];
    for a in &huge {
        out.push(Kv::new().put("from", a.name()).put("to", Dims::Flat(a.count()).name()));
        out.push(Kv::new().put("from", Dims::Flat(a.count()).name()).put("to", a.name()));
        for b in &huge {
            out.push(Kv::new().put("from", a.name()).put("to", b.name()));
        }
    }
    out
}

pub fn run(ctx: &Ctx) -> Report {
    let mut cs = cases(ctx.tier.thorough());
    let extra: Vec<Kv> = cs.iter().flat_map(|c| ["sub", "special"].into_iter().map(move |k| c.clone().put("content", k))).collect();
    cs.extend(extra);
    let parts = par_map(&cs, |_, c| {
        let mut r = Report::new();
        check(c, &mut r);
        r
    });
    let mut rep = Report::new();
    rep.merge_all(parts);
    for i in [0usize, 77, 4500, cs.len() - 60] {
        rep.sample(cs[i.min(cs.len() - 1)].to_json());
    }
    rep.notes.insert("cases".into(), Json::i(cs.len() as i64));
    rep.traces_validated = rep.states;
    rep
}

pub fn replay(_ctx: &Ctx, case: &Kv) -> Report {
    let mut r = Report::new();
    check(case, &mut r);
    r
}
