//! C10 — feedback blocks keep their repeated layers weight-tied.
//! History explorer: states are training histories (sequences of learn() calls) of a network holding a
//! feedback block; the invariant is evaluated in every state, including the initial one.
use crate::gen::*;
use crate::json::Json;
use crate::libnet::{self, tensor};
use crate::refmodel::net::{param_shape, ref_shapes};
use crate::refmodel::optim::OptSpec;
use crate::report::{Ctx, Meta, Report};
use crate::spec::*;
use crate::util::{fnv, guard, par_map, Kv, Rng};
use neurons::tensor::Tensor;

pub fn meta(ctx: &Ctx) -> Meta {
    let d = depth(ctx);
    Meta {
        rule: format!("block layer lists {{[dense],[dense,dense],[conv],[conv,conv],[deconv],[conv,deconv]}} x bias on/off (also lists that mix bias-free and bias-carrying dense layers) x loops 1..3 (5, 6, 8 for three of the lists) x coupling {{add,subtract,multiply,mean}} x optimizers {{SGD, SGD with learning rate 1e-6, SGDM, Adam, AdamW, RMSprop}} x block first / between other layers x the block's input / output skips on / off (loops <= 3); actions {{learn(A, batch 1), learn(B, 3 samples, batch 2), learn(A+B, batch 5, 2 epochs), learn on a sample whose target is the current prediction (all gradients exactly zero)}}; ALL action sequences of length <= {}; WIDE block layers (dense 48 -> 48 and 50 -> 48 with bias, a 16-channel 16-filter 3x3 convolution: more than 2 048 parameters each) under mean / additive coupling, SGD and Adam, three histories; dense first-layer blocks also with one weight of 3e38 on an input component that is always zero (the coupled value leaves the f32 range while loss and gradients stay finite). Invariant in every state (initial state included): all unrolled copies of each block layer hold bit-identical weights, biases and kernels (NaN = NaN), and the `parameters:` line of Display counts each shared parameter once. States = histories; transitions = learn() calls; non-trivial = states in which the block's weights differ from their initial values", d),
        bound: format!("history depth {}; complete over the configuration product", d),
        exhaustive: true,
        assumptions: vec!["overwrite coupling is explicitly unimplemented in the library and outside the statement".into()],
    }
}

fn depth(ctx: &Ctx) -> usize {
    if ctx.tier.thorough() {
        3
    } else {
        2
    }
}

fn optimizers() -> Vec<OptSpec> {
    vec![
        OptSpec::Sgd { lr: 0.01, decay: None },
        // steps far below 1e-5 (the tolerance of the library's own approximate tensor equality)
        OptSpec::Sgd { lr: 1.0e-6, decay: None },
        OptSpec::Sgdm { lr: 0.01, momentum: 0.9, dampening: 0.0, decay: Some(0.01) },
        OptSpec::Adam { lr: 0.001, b1: 0.9, b2: 0.999, eps: 1e-8, decay: None },
        OptSpec::AdamW { lr: 0.001, b1: 0.9, b2: 0.999, eps: 1e-8, decay: 0.01 },
        OptSpec::Rms { lr: 0.001, alpha: 0.99, eps: 1e-8, decay: None, momentum: Some(0.9), centered: true },
    ]
}

pub fn configs() -> Vec<Net> {
    let mut out = Vec::new();
    for bias in [true, false] {
        let d = |n: usize| L::Dense { n, act: Act::Tanh, bias, drop: None };
        let conv = |f: usize| L::Conv { f, k: (3, 3), s: (1, 1), p: (1, 1), d: (1, 1), act: Act::Tanh, drop: None };
        let deconv = |f: usize| L::Deconv { f, k: (3, 3), s: (1, 1), p: (1, 1), act: Act::Tanh, drop: None };
        let head = L::Dense { n: 2, act: Act::Linear, bias: true, drop: None };
        let mut lists: Vec<(Dims, Vec<L>, Vec<L>)> = vec![
            (Dims::Flat(3), vec![], vec![d(3)]),
            (Dims::Flat(3), vec![], vec![d(4), d(3)]),
            (Dims::Flat(2), vec![d(3)], vec![d(3)]),
        ];
        if bias {
            lists.push((Dims::Chw(1, 3, 3), vec![], vec![conv(1)]));
            lists.push((Dims::Chw(1, 3, 3), vec![], vec![conv(2), conv(1)]));
            lists.push((Dims::Chw(1, 3, 3), vec![], vec![deconv(1)]));
            lists.push((Dims::Chw(1, 3, 3), vec![], vec![conv(2), deconv(1)]));
            lists.push((Dims::Chw(1, 3, 3), vec![conv(1)], vec![conv(1)]));
        }
        if bias {
            // lists that mix bias-free and bias-carrying dense layers, in both orders
            let db = |n: usize, bias: bool| L::Dense { n, act: Act::Tanh, bias, drop: None };
            lists.push((Dims::Flat(3), vec![], vec![db(4, false), db(3, true)]));
            lists.push((Dims::Flat(3), vec![], vec![db(4, true), db(3, false)]));
            lists.push((Dims::Flat(3), vec![], vec![db(3, false), db(3, true), db(3, false)]));
        }
        for (li, (input, before, list)) in lists.into_iter().enumerate() {
            // beyond the small bound: 5, 6 and 8 repetitions for the first block lists
            let loop_counts: Vec<usize> = if li < 2 || li == 3 { vec![1, 2, 3, 5, 6, 8] } else { vec![1, 2, 3] };
            for loops in loop_counts {
                for acc in [Acc::Add, Acc::Sub, Acc::Mul, Acc::Mean] {
                    // internal skips (input / output skips of the block) for loops <= 3: training then runs the block's
                    // backward pass through its skip bookkeeping; the tying invariant must not care
                    let flags: &[(bool, bool)] = if loops <= 3 { &[(false, false), (true, false), (false, true), (true, true)] } else { &[(false, false)] };
                    for &(inskips, outskips) in flags {
                        let mut layers = before.clone();
                        layers.push(L::Fb { layers: list.clone(), loops, inskips, outskips, acc });
                        layers.push(head.clone());
                        out.push(Net::new(input, layers));
                    }
                }
            }
        }
    }
    out
}

pub fn wide_configs() -> Vec<Net> {
    let d = |n: usize, bias: bool| L::Dense { n, act: Act::Tanh, bias, drop: None };
    let head = L::Dense { n: 2, act: Act::Linear, bias: true, drop: None };
    let mut out = Vec::new();
    for acc in [Acc::Mean, Acc::Add] {
        for loops in [2usize, 3] {
            out.push(Net::new(Dims::Flat(48), vec![L::Fb { layers: vec![d(48, true)], loops, inskips: false, outskips: false, acc }, head.clone()]));
            out.push(Net::new(Dims::Flat(6), vec![d(48, false), L::Fb { layers: vec![d(50, true), d(48, true)], loops, inskips: false, outskips: false, acc }, head.clone()]));
            out.push(Net::new(
                Dims::Chw(16, 3, 3),
                vec![L::Fb { layers: vec![L::Conv { f: 16, k: (3, 3), s: (1, 1), p: (1, 1), d: (1, 1), act: Act::Tanh, drop: None }], loops, inskips: false, outskips: false, acc }, head.clone()],
            ));
        }
    }
    out
}

fn tied(p: &P<f32>, len: usize) -> Option<String> {
    // p.inner: unrolled copies, copy r of layer j at r*len + j
    for (i, q) in p.inner.iter().enumerate() {
        let first = &p.inner[i % len];
        let a = q.flat();
        let b = first.flat();
        if a.len() != b.len() {
            return Some(format!("copy {} has {} parameters, first repetition {}", i, a.len(), b.len()));
        }
        if let Some(k) = (0..a.len()).find(|&k| a[k].to_bits() != b[k].to_bits() && !(a[k].is_nan() && b[k].is_nan())) {
            return Some(format!("unrolled layer {} parameter {}: {:e} but the first repetition holds {:e}", i, k, a[k], b[k]));
        }
    }
    None
}

pub fn check(seed: u64, case: &Kv, rep: &mut Report) {
    let net = Net::parse(case.get("net"));
    let ospec = OptSpec::parse(case.get("opt"));
    let history: Vec<usize> = case.list("history").iter().map(|s| s.parse().unwrap()).collect();
    rep.states += 1;
    rep.evaluations += 1;
    let shapes = ref_shapes(&net).unwrap();
    let key = net.name();
    let params: Vec<P<f32>> = params_for(&net, &shapes, Valuation::Generic, seed, &key).iter().map(|p| p.map(&|v| v * 0.4)).collect();
    // "huge": one weight of the block's first layer (the one multiplying input component 0, which is exactly zero in every
    // sample) is 3e38 in every copy: under additive coupling the coupled value leaves the single-precision range while the
    // forward pass, the loss and every gradient stay finite - the copies must still end up identical (here: inf)
    let huge = case.opt("data") == Some("huge");
    let mut params = params;
    if huge {
        if let Some(fbp) = params.iter_mut().find(|p| !p.inner.is_empty()) {
            for q in fbp.inner.iter_mut() {
                if let Some(w) = q.w.first_mut().and_then(|w| w.first_mut()) {
                    *w = 3.0e38;
                }
            }
        }
    }
    let mut lib = match build_with(&net, &shapes, &params) {
        Ok(l) => l,
        Err(e) => {
            rep.violate("C10 builder rejects", e, case);
            return;
        }
    };
    lib.set_optimizer(ospec.lib());
    let (bi, len, acc) = net
        .layers
        .iter()
        .enumerate()
        .find_map(|(i, l)| if let L::Fb { layers, acc, .. } = l { Some((i, layers.len(), *acc)) } else { None })
        .unwrap();
    let internal_skips = net.layers.iter().any(|l| matches!(l, L::Fb { inskips: true, .. } | L::Fb { outskips: true, .. }));
    let n_in = net.input.count();
    let mut r = Rng::new(seed, fnv(&key) ^ 0xAAAA);
    let mk = |r: &mut Rng, n: usize| -> Vec<f32> { (0..n).map(|_| r.signed(0.2, 1.0)).collect() };
    let data: Vec<(Tensor, Tensor)> = (0..5)
        .map(|_| {
            let mut x = mk(&mut r, n_in);
            if huge {
                x[0] = 0.0;
            }
            (tensor(net.input, &x), Tensor::single(mk(&mut r, 2)))
        })
        .collect();
    // reference parameter count: shared parameters once
    let want_count: usize = net
        .layers
        .iter()
        .zip(&shapes)
        .map(|(l, sh)| {
            let ps = param_shape(l, sh);
            match l {
                L::Fb { layers, .. } => ps.inner[..layers.len()].iter().map(|p| p.flat().iter().sum::<usize>()).sum::<usize>(),
                _ => ps.flat().iter().sum::<usize>(),
            }
        })
        .sum();
    let cls = format!("{} coupling, {}", acc.name(), ospec.kind());
    let inspect = |lib: &neurons::network::Network, rep: &mut Report, when: &str| -> bool {
        match libnet::get_params(lib) {
            Ok(p) => {
                if let Some(e) = tied(&p[bi], len) {
                    rep.violate(format!("C10 unrolled copies differ [{}]", cls), format!("{} {}: {}", net.name(), when, e), case);
                    return false;
                }
            }
            Err(e) => {
                rep.violate("C10 parameters inconsistent", e, case);
                return false;
            }
        }
        let text = format!("{}", lib);
        let got = text.lines().find_map(|l| l.trim().strip_prefix("parameters: ").and_then(|v| v.trim().parse::<usize>().ok()));
        if got != Some(want_count) {
            rep.violate("C10 reported parameter count", format!("{}: Display says {:?}, shared parameters counted once give {}", net.name(), got, want_count), case);
            return false;
        }
        true
    };
    if !inspect(&lib, rep, "at creation") {
        return;
    }
    for (step, a) in history.iter().enumerate() {
        let (idx, batch, epochs): (Vec<usize>, usize, i32) = match a {
            0 => (vec![0, 1], 1, 1),
            1 => (vec![2, 3, 4], 2, 1),
            2 => (vec![0, 1, 2, 3, 4], 5, 2),
            // a step whose gradients are all exactly zero: the target is the current prediction (MSE gradient 2(p-t)/n = 0);
            // stateful optimizers still move every copy by its own momentum
            _ => (vec![0], 1, 1),
        };
        let zero_target: Option<Tensor> = if *a == 3 { guard(|| lib.predict(&data[0].0)).ok() } else { None };
        let xs: Vec<&Tensor> = idx.iter().map(|i| &data[*i].0).collect();
        let ts: Vec<&Tensor> = match &zero_target {
            Some(t) => vec![t],
            None => idx.iter().map(|i| &data[*i].1).collect(),
        };
        rep.transitions += 1;
        match guard(|| lib.learn(&xs, &ts, None, batch, epochs, None)) {
            Ok(_) => (),
            Err(e) => {
                if e.contains("Loss is NaN") {
                    rep.count("diverged_histories", 1);
                    // the weights are still observable: the invariant must hold in the aborted state too
                    let _ = inspect(&lib, rep, "after a diverged learn()");
                    return;
                }
                if internal_skips {
                    // the statement quantifies over layer lists, loops, couplings, optimizers and data; whether a block
                    // with internal skips can be trained at all is not its subject
                    rep.count("training_a_block_with_internal_skips_refused", 1);
                    let why: String = crate::util::first_line(&e).chars().filter(|c| !c.is_ascii_digit()).take(90).collect();
                    rep.count(&format!("refused: {}", why), 1);
                    let _ = inspect(&lib, rep, "after a refused learn()");
                    return;
                }
                rep.violate(format!("C10 learn panics [{}]", cls), format!("{}: {}", net.name(), crate::util::first_line(&e)), case);
                return;
            }
        }
        if !inspect(&lib, rep, &format!("after action {} of history {:?}", step + 1, history)) {
            return;
        }
    }
    if !history.is_empty() {
        if let Ok(p) = libnet::get_params(&lib) {
            if p[bi].flat().iter().zip(params[bi].flat()).any(|(a, b)| a.to_bits() != b.to_bits()) {
                rep.nontrivial += 1;
            }
        }
    }
}

pub fn cases(ctx: &Ctx) -> Vec<Kv> {
    let d = depth(ctx);
    let mut hist: Vec<Vec<usize>> = vec![vec![]];
    let mut frontier: Vec<Vec<usize>> = vec![vec![]];
    for _ in 0..d {
        let mut next = Vec::new();
        for h in &frontier {
            for a in 0..4 {
                let mut n = h.clone();
                n.push(a);
                next.push(n);
            }
        }
        hist.extend(next.clone());
        frontier = next;
    }
    // a history's prefixes are inspected on the way; only maximal histories (and the empty one) need running
    let maximal: Vec<Vec<usize>> = hist.into_iter().filter(|h| h.len() == d || h.is_empty()).collect();
    let mut out = Vec::new();
    for net in configs() {
        for o in optimizers() {
            for h in &maximal {
                out.push(Kv::new().put("net", net.name()).put("opt", o.name()).put("history", h.iter().map(|a| a.to_string()).collect::<Vec<_>>().join(",")));
            }
        }
    }
    // WIDE block layers (a 48 -> 48 dense layer with bias: 2 352 parameters; a 16-channel 16-filter 3x3 convolution: 2 304):
    // sizes at which an implementation might re-couple through a blocked or parallel path
    for net in wide_configs() {
        for o in [optimizers()[0].clone(), optimizers()[3].clone()] {
            for h in maximal.iter().filter(|h| !h.is_empty()).take(3) {
                out.push(Kv::new().put("net", net.name()).put("opt", o.name()).put("history", h.iter().map(|a| a.to_string()).collect::<Vec<_>>().join(",")));
            }
        }
    }
    // a coupled value that leaves the single-precision range (dense blocks that are the first layer, no internal skips)
    for net in configs() {
        let first_dense_block = matches!(net.layers.first(), Some(L::Fb { layers, inskips: false, outskips: false, .. }) if matches!(layers.first(), Some(L::Dense { .. })));
        if !first_dense_block {
            continue;
        }
        for o in [optimizers()[0].clone(), optimizers()[3].clone()] {
            for h in maximal.iter().filter(|h| !h.is_empty()).take(4) {
                out.push(Kv::new().put("net", net.name()).put("opt", o.name()).put("history", h.iter().map(|a| a.to_string()).collect::<Vec<_>>().join(",")).put("data", "huge"));
            }
        }
    }
    out
}

pub fn run(ctx: &Ctx) -> Report {
    let cs = cases(ctx);
    let seed = ctx.seed;
    let chunks: Vec<&[Kv]> = cs.chunks(16).collect();
    let parts = par_map(&chunks, |_, c| {
        let mut r = Report::new();
        for k in c.iter() {
            check(seed, k, &mut r);
        }
        r
    });
    let mut rep = Report::new();
    rep.merge_all(parts);
    // every prefix of a maximal history is a visited state
    rep.states = rep.evaluations + rep.transitions;
    for i in [1usize, cs.len() / 3, cs.len() / 2, cs.len() - 1] {
        rep.sample(cs[i].to_json());
    }
    rep.notes.insert("maximal_histories_run".into(), Json::i(cs.len() as i64));
    rep.traces_validated = rep.states;
    rep
}

pub fn replay(ctx: &Ctx, case: &Kv) -> Report {
    let mut r = Report::new();
    check(ctx.seed, case, &mut r);
    r
}
