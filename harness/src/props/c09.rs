//! C09 — dropout never leaks into prediction or validation.
use crate::gen::*;
use crate::json::Json;
use crate::libnet::{self, flat_dims, tensor};
use crate::refmodel::net::ref_shapes;
use crate::report::{Ctx, Meta, Report};
use crate::spec::*;
use crate::util::{fnv, guard, par_map, Kv, Rng};
use neurons::tensor::Tensor;

pub fn meta(ctx: &Ctx) -> Meta {
    let t = ctx.tier.thorough();
    Meta {
        rule: format!("every layer sequence of <= {} tokens (one configuration deviation) over 5 input shapes that ends in a dense layer x EVERY subset of droppable layers (dense, convolution, deconvolution, layers inside feedback blocks) of size 1..{} carrying dropout (rates 0.5, 0.1, 0.9 depending on the subset) x epochs {{1,2,3}} x with/without validation data. Differential oracles, bit-exact: (i) the last validation pair returned by learn() equals validate() called right afterwards, and the e-th pair of a 3-epoch run equals the last pair of the e-epoch run; (ii) after learn(), predict equals predict of a twin network built WITHOUT dropout holding the same weights; (iii) validate()/predict() of a never-trained network equal the twin's; (iv) every training flag is off after learn() and after validate(); (v) the same after a run that left learn() through its early-stopping exit (tolerance 1); (vii) on every 16th case a validation set of 300 samples; (ix) every 8th configuration also on inputs of +-3e38 (training aborts with the documented NaN-loss panic; a run that returns instead is held to the same oracles); (viii) every 4th configuration also on data the network already fits exactly (all-zero last layer, targets = its output: training loss exactly 0 in every epoch); (vi) the same along the call sequence validate, learn (with validation), learn (without), learn (with validation), validate. Non-trivial = a case in which the training-mode forward pass differs from the evaluation-mode one (the mask zeroed a non-zero element)", if t { 4 } else { 3 }, if t { "all" } else { "2" }),
        bound: format!("depth <= {}, dropout rates 0.1/0.5/0.9 (fixed-seed mask), 3 samples, batch 2", if t { 4 } else { 3 }),
        exhaustive: true,
        assumptions: vec!["Tensor::dropout uses a fixed seed, so training runs are deterministic and differential comparisons are bit-exact".into()],
    }
}

fn droppable_count(l: &L) -> usize {
    match l {
        L::Dense { .. } | L::Conv { .. } | L::Deconv { .. } => 1,
        L::Pool { .. } => 0,
        L::Fb { layers, .. } => layers.iter().map(droppable_count).sum(),
    }
}

/// set dropout 0.5 on the droppable positions whose index is in `mask`
fn with_dropout(net: &Net, mask: u32) -> Net {
    let mut out = net.clone();
    let mut idx = 0;
    fn set(l: &mut L, idx: &mut usize, mask: u32) {
        match l {
            L::Dense { drop, .. } | L::Conv { drop, .. } | L::Deconv { drop, .. } => {
                if mask & (1 << *idx) != 0 {
                    // rate varies with the subset: 0.5, 0.1, 0.9 (spec strings carry two decimals)
                    *drop = Some([0.5, 0.1, 0.9][(mask as usize + *idx) % 3]);
                }
                *idx += 1;
            }
            L::Pool { .. } => (),
            L::Fb { layers, .. } => {
                for x in layers.iter_mut() {
                    set(x, idx, mask);
                }
            }
        }
    }
    for l in out.layers.iter_mut() {
        set(l, &mut idx, mask);
    }
    out
}

/// where the first dropout layer sits relative to the dense layers (finding key)
fn class(net: &Net) -> String {
    let dense_before_last_drop = {
        let mut dense_seen = 0;
        let mut at_last_drop = 0;
        for l in &net.layers {
            if l.has_dropout() {
                at_last_drop = dense_seen;
            }
            if matches!(l, L::Dense { .. }) {
                dense_seen += 1;
            }
        }
        at_last_drop
    };
    format!("dropout after {} dense layer(s)", if dense_before_last_drop >= 2 { ">=2".to_string() } else { dense_before_last_drop.to_string() })
}

pub fn check(seed: u64, case: &Kv, rep: &mut Report) {
    let net = Net::parse(case.get("net"));
    let twin_spec = net.without_dropout();
    rep.states += 1;
    rep.evaluations += 1;
    let shapes = ref_shapes(&twin_spec).unwrap();
    let key = twin_spec.name();
    let mut params: Vec<P<f32>> = params_for(&twin_spec, &shapes, Valuation::Generic, seed, &key).iter().map(|p| p.map(&|v| v * 0.2)).collect();
    // "zeroloss": a network that already fits its data exactly - the last dense layer is all zero and every target is
    // what that layer then puts out, so every epoch's training loss is exactly 0 and every gradient vanishes
    let zeroloss = case.opt("data") == Some("zeroloss");
    if zeroloss {
        let last = params.len() - 1;
        params[last] = params[last].map(&|_| 0.0);
    }
    let n_in = net.input.count();
    let n_out = shapes.last().unwrap().out.count();
    let mut r = Rng::new(seed, fnv(&key) ^ 0x9999);
    // "diverge": inputs of +-3e38 - the forward pass overflows, the loss is NaN and learn() aborts (its documented
    // "Loss is NaN" panic); should a library ever RETURN from such a run instead, it must still leave evaluation mode behind
    let diverge = case.opt("data") == Some("diverge");
    let mk = |r: &mut Rng, n: usize| -> Vec<f32> { (0..n).map(|_| r.signed(0.2, 1.0) * if diverge { 3.0e38 } else { 1.0 }).collect() };
    let xs: Vec<Tensor> = (0..3).map(|_| tensor(net.input, &mk(&mut r, n_in))).collect();
    let mut ts: Vec<Tensor> = (0..3).map(|_| Tensor::single(mk(&mut r, n_out))).collect();
    let vxs: Vec<Tensor> = (0..2).map(|_| tensor(net.input, &mk(&mut r, n_in))).collect();
    let mut vts: Vec<Tensor> = (0..2).map(|_| Tensor::single(mk(&mut r, n_out))).collect();
    if zeroloss {
        let at_zero = match net.layers.last() {
            Some(L::Dense { act: Act::Sigmoid, .. }) => 0.5f32,
            Some(L::Dense { act: Act::Softmax, .. }) => 1.0f32 / n_out as f32,
            _ => 0.0f32,
        };
        for t in ts.iter_mut().chain(vts.iter_mut()) {
            *t = Tensor::single(vec![at_zero; n_out]);
        }
    }
    let (xr, tr): (Vec<&Tensor>, Vec<&Tensor>) = (xs.iter().collect(), ts.iter().collect());
    let (vxr, vtr): (Vec<&Tensor>, Vec<&Tensor>) = (vxs.iter().collect(), vts.iter().collect());
    let cls = class(&net);
    let fresh = |spec: &Net| -> Result<neurons::network::Network, String> {
        let mut l = build_with(spec, &shapes, &params)?;
        l.set_optimizer(neurons::optimizer::SGD::create(0.002, None));
        Ok(l)
    };
    let bits = |t: &Tensor| -> Vec<u32> { flat_dims(t).map(|d| d.1.iter().map(|v| v.to_bits()).collect()).unwrap_or_default() };

    // (iii) never-trained network vs twin
    let (mut lib, mut twin) = match (fresh(&net), fresh(&twin_spec)) {
        (Ok(a), Ok(b)) => (a, b),
        (Err(e), _) | (_, Err(e)) => {
            rep.violate("C09 builder rejects", e, case);
            return;
        }
    };
    rep.transitions += 4;
    let r0 = guard(|| (lib.predict(&xs[0]), lib.validate(&vxr, &vtr, 0.1), twin.predict(&xs[0]), twin.validate(&vxr, &vtr, 0.1)));
    match r0 {
        Ok((p, v, tp, tv)) => {
            if bits(&p) != bits(&tp) || v.0.to_bits() != tv.0.to_bits() || v.1.to_bits() != tv.1.to_bits() {
                rep.violate(format!("C09 untrained network differs from its dropout-free twin [{}]", cls), net.name(), case);
                return;
            }
        }
        Err(e) => {
            rep.violate("C09 predict/validate panics", crate::util::first_line(&e), case);
            return;
        }
    }
    // non-vacuity: does the mask change the training-mode forward pass?
    {
        let mut probe = fresh(&net).unwrap();
        let eval = bits(&probe.predict(&xs[0]));
        // one training epoch with learning rate 0 would still need learn(); instead compare the first epoch's
        // training loss with that of the twin, which starts from the same weights
        let a = guard(|| probe.learn(&xr, &tr, None, 3, 1, None));
        let mut tprobe = fresh(&twin_spec).unwrap();
        let b = guard(|| tprobe.learn(&xr, &tr, None, 3, 1, None));
        if let (Ok(a), Ok(b)) = (a, b) {
            if a.0[0].to_bits() != b.0[0].to_bits() {
                rep.nontrivial += 1;
            }
        }
        let _ = eval;
    }
    // (i), (ii), (iv) for 1..3 epochs
    let mut per_epoch_last: Vec<(u32, u32)> = Vec::new();
    for epochs in 1..=3i32 {
        for with_val in [true, false] {
            let mut l = fresh(&net).unwrap();
            rep.transitions += epochs as u64 * 3;
            let res = guard(|| if with_val { l.learn(&xr, &tr, Some((&vxr, &vtr, 10)), 2, epochs, None) } else { l.learn(&xr, &tr, None, 2, epochs, None) });
            let (tl, vl, va) = match res {
                Ok(x) => x,
                Err(e) => {
                    if e.contains("Loss is NaN") {
                        // the training data diverged (documented abort), nothing to compare
                        rep.count("diverged_runs_skipped", 1);
                        return;
                    }
                    rep.violate("C09 learn panics", format!("{}: {}", net.name(), crate::util::first_line(&e)), case);
                    return;
                }
            };
            if tl.iter().any(|v| *v == 0.0) {
                rep.count("runs_with_an_exactly_zero_training_loss", 1);
            }
            if tl.len() != epochs as usize {
                // how many epochs run is C13's contract, not this property's
                rep.count("runs_shorter_than_their_budget", 1);
            }
            // (iv)
            if neurons::verif::training_flags(&l).iter().any(|f| *f) {
                rep.violate(format!("C09 training flags still set after learn() [{}]", cls), net.name(), case);
                return;
            }
            // (ii) twin with the trained weights
            let trained = match libnet::get_params(&l) {
                Ok(p) => p,
                Err(e) => {
                    rep.violate("C09 parameters inconsistent", e, case);
                    return;
                }
            };
            let mut tw = build_with(&twin_spec, &shapes, &trained).unwrap();
            rep.transitions += 2;
            let (p, tp) = (guard(|| l.predict(&xs[1])), guard(|| tw.predict(&xs[1])));
            match (p, tp) {
                (Ok(p), Ok(tp)) => {
                    if bits(&p) != bits(&tp) {
                        rep.violate(format!("C09 trained network predicts differently from its dropout-free twin [{}]", cls), net.name(), case);
                        return;
                    }
                }
                _ => {
                    rep.violate("C09 predict panics after learn", net.name(), case);
                    return;
                }
            }
            if with_val {
                // (i)
                if vl.len() != epochs as usize {
                    rep.count("early_stop_or_length", 1);
                    continue;
                }
                rep.transitions += 1;
                match guard(|| l.validate(&vxr, &vtr, 1e-6)) {
                    Ok((loss, acc)) => {
                        let last = (vl[vl.len() - 1], va[va.len() - 1]);
                        if loss.to_bits() != last.0.to_bits() || acc.to_bits() != last.1.to_bits() {
                            rep.violate(
                                format!("C09 validation metrics reported by learn() are not those of the dropout-free network [{}]", cls),
                                format!("{}: learn() reported ({:e}, {}) for epoch {}, validate() right afterwards gives ({:e}, {})", net.name(), last.0, last.1, epochs, loss, acc),
                                case,
                            );
                            return;
                        }
                        if neurons::verif::training_flags(&l).iter().any(|f| *f) {
                            rep.violate(format!("C09 training flags set after validate() [{}]", cls), net.name(), case);
                            return;
                        }
                    }
                    Err(e) => {
                        rep.violate("C09 validate panics", crate::util::first_line(&e), case);
                        return;
                    }
                }
                per_epoch_last.push((vl[vl.len() - 1].to_bits(), va[va.len() - 1].to_bits()));
                if epochs == 3 {
                    for e in 0..3usize {
                        if e < per_epoch_last.len() && (vl[e].to_bits(), va[e].to_bits()) != per_epoch_last[e] {
                            rep.violate(format!("C09 epoch-{} validation pair of a longer run differs from the last pair of the {}-epoch run [{}]", e + 1, e + 1, cls), net.name(), case);
                            return;
                        }
                    }
                }
            }
        }
    }
    // early-stopping exit: tolerance 1 stops after the second epoch on any trajectory (the window of one loss is
    // vacuously increasing), so learn() leaves through its early-stop path
    {
        let mut l = fresh(&net).unwrap();
        rep.transitions += 6;
        match guard(|| l.learn(&xr, &tr, Some((&vxr, &vtr, 1)), 2, 4, None)) {
            Ok((train, _, _)) => {
                if train.len() < 4 {
                    rep.count("early_stop_exits", 1);
                }
                if neurons::verif::training_flags(&l).iter().any(|f| *f) {
                    rep.violate(format!("C09 training flags still set after learn() stopped early [{}]", cls), net.name(), case);
                    return;
                }
                if let Ok(trained) = libnet::get_params(&l) {
                    let mut tw = build_with(&twin_spec, &shapes, &trained).unwrap();
                    if let (Ok(p), Ok(tp)) = (guard(|| l.predict(&xs[2])), guard(|| tw.predict(&xs[2]))) {
                        if bits(&p) != bits(&tp) {
                            rep.violate(format!("C09 network that stopped early predicts differently from its dropout-free twin [{}]", cls), net.name(), case);
                            return;
                        }
                    }
                }
            }
            Err(e) => {
                if !e.contains("Loss is NaN") {
                    rep.violate("C09 learn panics", format!("{}: {}", net.name(), crate::util::first_line(&e)), case);
                    return;
                }
            }
        }
    }
    // beyond the small bound: 300 validation samples (more than four internal chunks), one epoch
    if case.opt("bigval").is_some() {
        let bvx: Vec<Tensor> = (0..300).map(|_| tensor(net.input, &mk(&mut r, n_in))).collect();
        let bvt: Vec<Tensor> = (0..300).map(|_| Tensor::single(mk(&mut r, n_out))).collect();
        let (bx, bt): (Vec<&Tensor>, Vec<&Tensor>) = (bvx.iter().collect(), bvt.iter().collect());
        let mut l = fresh(&net).unwrap();
        rep.transitions += 600;
        match guard(|| {
            let (_, vl, va) = l.learn(&xr, &tr, Some((&bx, &bt, 10)), 2, 1, None);
            let after = l.validate(&bx, &bt, 1e-6);
            (vl, va, after)
        }) {
            Ok((vl, va, after)) => {
                if vl.len() == 1 && (vl[0].to_bits() != after.0.to_bits() || va[0].to_bits() != after.1.to_bits()) {
                    rep.violate(
                        format!("C09 validation metrics on a large validation set are not those of the dropout-free network [{}]", cls),
                        format!("{}: learn() reported ({:e}, {}) on 300 samples, validate() gives ({:e}, {})", net.name(), vl[0], va[0], after.0, after.1),
                        case,
                    );
                    return;
                }
            }
            Err(e) => {
                if !e.contains("Loss is NaN") {
                    rep.violate("C09 learn panics", format!("{}: {}", net.name(), crate::util::first_line(&e)), case);
                    return;
                }
            }
        }
    }
    // a longer life: validate -> learn(with validation) -> learn(without) -> learn(with validation) -> validate
    {
        let mut l = fresh(&net).unwrap();
        rep.transitions += 12;
        let seq = guard(|| {
            let _ = l.validate(&vxr, &vtr, 0.1);
            let _ = l.learn(&xr, &tr, Some((&vxr, &vtr, 10)), 2, 2, None);
            let _ = l.learn(&xr, &tr, None, 3, 1, None);
            let (_, vl, va) = l.learn(&xr, &tr, Some((&vxr, &vtr, 10)), 1, 1, None);
            let after = l.validate(&vxr, &vtr, 1e-6);
            (vl, va, after)
        });
        match seq {
            Ok((vl, va, after)) => {
                if vl.len() == 1 && (vl[0].to_bits() != after.0.to_bits() || va[0].to_bits() != after.1.to_bits()) {
                    rep.violate(
                        format!("C09 validation metrics reported by a later learn() call are not those of the dropout-free network [{}]", cls),
                        format!("{}: reported ({:e}, {}), validate() gives ({:e}, {})", net.name(), vl[0], va[0], after.0, after.1),
                        case,
                    );
                    return;
                }
                if neurons::verif::training_flags(&l).iter().any(|f| *f) {
                    rep.violate(format!("C09 training flags set after a sequence of validate/learn calls [{}]", cls), net.name(), case);
                    return;
                }
                if let Ok(trained) = libnet::get_params(&l) {
                    let mut tw = build_with(&twin_spec, &shapes, &trained).unwrap();
                    if let (Ok(p), Ok(tp)) = (guard(|| l.predict(&xs[0])), guard(|| tw.predict(&xs[0]))) {
                        if bits(&p) != bits(&tp) {
                            rep.violate(format!("C09 network predicts differently from its dropout-free twin after a sequence of calls [{}]", cls), net.name(), case);
                            return;
                        }
                    }
                }
            }
            Err(e) => {
                if !e.contains("Loss is NaN") {
                    rep.violate("C09 learn panics", format!("{}: {}", net.name(), crate::util::first_line(&e)), case);
                    return;
                }
            }
        }
    }
    let _ = &mut lib;
    let _ = &mut twin;
}

pub fn cases(ctx: &Ctx) -> Vec<Kv> {
    let t = ctx.tier.thorough();
    let depth = if t { 4 } else { 3 };
    let mut out = Vec::new();
    for net in sequences(&INPUTS, depth, 1, &TOKS) {
        if !matches!(net.layers.last(), Some(L::Dense { .. })) {
            continue;
        }
        // pool inside a feedback block cannot be trained; gen.rs never produces it
        let slots: usize = net.layers.iter().map(droppable_count).sum();
        if slots == 0 || slots > 10 {
            continue;
        }
        for mask in 1u32..(1 << slots) {
            if !t && mask.count_ones() > 2 {
                continue;
            }
            let mut kv = Kv::new().put("net", with_dropout(&net, mask).name());
            // every 16th case also gets a validation set of 300 samples
            if (out.len() % 16) == 0 {
                kv.set("bigval", 1);
            }
            // every 8th configuration also on data that makes training diverge at once
            if (out.len() % 8) == 3 {
                out.push(kv.clone().put("data", "diverge"));
            }
            // every 4th configuration also on data the network already fits exactly
            if (out.len() % 4) == 1 {
                out.push(kv.clone().put("data", "zeroloss"));
            }
            out.push(kv);
        }
    }
    out
}

pub fn run(ctx: &Ctx) -> Report {
    let cs = cases(ctx);
    let seed = ctx.seed;
    let chunks: Vec<&[Kv]> = cs.chunks(16).collect();
    let parts = par_map(&chunks, |_, c| {
        let mut r = Report::new();
        for k in c.iter() {
            check(seed, k, &mut r);
        }
        r
    });
    let mut rep = Report::new();
    rep.merge_all(parts);
    for i in [0usize, cs.len() / 3, cs.len() / 2, cs.len() - 1] {
        rep.sample(cs[i].to_json());
    }
    rep.notes.insert("cases".into(), Json::i(cs.len() as i64));
    rep.traces_validated = rep.states;
    rep
}

pub fn replay(ctx: &Ctx, case: &Kv) -> Report {
    let mut r = Report::new();
    check(ctx.seed, case, &mut r);
    r
}
