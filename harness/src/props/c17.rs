//! C17 — loop connections compute the accumulated repeated sub-network.
use crate::gen::*;
use crate::json::Json;
use crate::libnet;
use crate::refmodel::net::ref_shapes;
use crate::report::{Ctx, Meta, Report};
use crate::spec::*;
use crate::util::{guard, par_map, Kv};

pub fn meta(_ctx: &Ctx) -> Meta {
    Meta {
        rule: "8 base networks (dense ranges; a size-changing deconvolution as range entry restored by a 2x2 convolution / max-pool, with a flattened exit; shape-preserving conv / deconv ranges; conv(k2,p1)+pool(k2,s1) composite; max-pool as range entry; flat dense output re-read as 1x3x3 at the range entry; range ending in a layer that is flattened for a following dense layer) x EVERY range a <= b whose output shape equals the input shape of a (start / middle / end) x k in 1..3 (4, 5, 6, 9 for two ranges per network) x all 5 accumulations x input skips on/off (with input skips also under a multiplicative / overwrite SKIP-connection accumulation, which must not matter) x 2 exact integer valuations (one of them with inputs scaled by 2^-20; the first also with the network assembled in the other order: each loopback call issued as soon as the layers of its range exist, before the remaining layers are added), plus pairs of disjoint ranges (one or both with input skips) and pairs of OVERLAPPING ranges (nested or sharing a layer; for the outer loop's iterations both readings - plain layers, or layers with the inner loop - are accepted); plus loops NEAR A FIXED POINT: 5 ranges of a 3-layer 2->2 linear network whose repeated map is x -> g x + (1-g) (g = 2 repelling, g = 1/2 attracting) started 1 ulp (8 ulp) from the fixed point, k in {8,16,22}, all 5 accumulations - successive iterates differ by a few ulp and all arithmetic is exact. Oracles: reference interpreter y_0=f(x_a), y_t=f(y_{t-1}[+x_a]), out=comb(y_0;y_1..y_k); with overwrite (no input skips) bit-equality with the plain network in which layers a..b are repeated k+1 times with the same weights. Non-trivial = reference output has >= 2 distinct non-zero entries".into(),
        bound: "k <= 3 (9 for two ranges per network), ranges of <= 3 layers, planes 3x3, one channel (thorough: every k in 1..9 and 12 for every range, ranges of <= 5 layers in a 6-layer network, two-channel convolutions, overlapping pairs with (k1,k2) up to 3 under all 5 accumulations)".into(),
        exhaustive: true,
        assumptions: vec!["tolerance 2e-6*max|reference| (mean over 3 operands is not exact); the unrolled-network differential is bit-exact".into()],
    }
}

fn bases(thorough: bool) -> Vec<Net> {
    let d = |n: usize, act: Act| L::Dense { n, act, bias: true, drop: None };
    let conv = |act: Act| L::Conv { f: 1, k: (3, 3), s: (1, 1), p: (1, 1), d: (1, 1), act, drop: None };
    let deconv = |act: Act| L::Deconv { f: 1, k: (3, 3), s: (1, 1), p: (1, 1), act, drop: None };
    let conv_up = L::Conv { f: 1, k: (2, 2), s: (1, 1), p: (1, 1), d: (1, 1), act: Act::Linear, drop: None };
    let pool = L::Pool { k: (2, 2), s: (1, 1) };
    let pool1 = L::Pool { k: (1, 1), s: (1, 1) };
    let deconv_up = L::Deconv { f: 1, k: (2, 2), s: (1, 1), p: (0, 0), act: Act::Linear, drop: None };
    let conv_down = L::Conv { f: 1, k: (2, 2), s: (1, 1), p: (0, 0), d: (1, 1), act: Act::Linear, drop: None };
    let pool_down = L::Pool { k: (2, 2), s: (1, 1) };
    let mut out = vec![
        Net::new(Dims::Flat(4), vec![d(4, Act::Relu), d(4, Act::Linear), d(4, Act::Linear), d(3, Act::Linear)]),
        Net::new(Dims::Chw(1, 3, 3), vec![conv(Act::Linear), conv(Act::Relu), deconv(Act::Linear), d(3, Act::Linear)]),
        Net::new(Dims::Chw(1, 3, 3), vec![conv_up.clone(), pool.clone(), conv(Act::Linear), d(3, Act::Linear)]),
        Net::new(Dims::Chw(1, 3, 3), vec![pool1.clone(), conv(Act::Relu), d(3, Act::Linear)]),
        Net::new(Dims::Flat(4), vec![d(9, Act::Linear), conv(Act::Linear), conv(Act::Relu), d(3, Act::Linear)]),
        Net::new(Dims::Chw(1, 3, 3), vec![conv(Act::Linear), conv_up, pool, conv(Act::Linear)]),
        // a range whose ENTRY is a deconvolution that changes the spatial extent (3x4 -> 4x5), restored by a later layer
        // (convolution / max-pool with a 2x2 window), and whose exit is flattened for a following dense layer
        Net::new(Dims::Chw(1, 3, 4), vec![deconv_up.clone(), conv_down, d(3, Act::Linear)]),
        Net::new(Dims::Chw(1, 3, 3), vec![conv(Act::Linear), deconv_up, pool_down, d(3, Act::Linear)]),
    ];
    if thorough {
        // deeper bound: ranges of up to 5 layers in a 6-layer dense network, and shape-preserving two-channel convolutions
        let conv2 = |act: Act| L::Conv { f: 2, k: (3, 3), s: (1, 1), p: (1, 1), d: (1, 1), act, drop: None };
        out.push(Net::new(Dims::Flat(4), vec![d(4, Act::Relu), d(4, Act::Linear), d(4, Act::Relu), d(4, Act::Linear), d(4, Act::Linear), d(3, Act::Linear)]));
        out.push(Net::new(Dims::Chw(2, 3, 3), vec![conv2(Act::Linear), conv2(Act::Relu), conv2(Act::Linear), d(3, Act::Linear)]));
    }
    out
}

/// ranges (a,b) with outputs(b) == inputs(a) as announced shapes
fn ranges(net: &Net) -> Vec<(usize, usize)> {
    let sh = ref_shapes(net).unwrap();
    let mut out = Vec::new();
    for a in 0..net.layers.len() {
        for b in a..net.layers.len() {
            if sh[b].out == sh[a].inp {
                out.push((a, b));
            }
        }
    }
    out
}

pub fn nets(thorough: bool) -> Vec<Net> {
    let mut out = Vec::new();
    for base in bases(thorough) {
        let rs = ranges(&base);
        for (ri, &(a, b)) in rs.iter().enumerate() {
            // beyond the small bound: 4, 5, 6 and 9 iterations for the first two ranges of every base network
            let ks: Vec<usize> = if thorough { vec![1, 2, 3, 4, 5, 6, 7, 8, 9, 12] } else if ri < 2 { vec![1, 2, 3, 4, 5, 6, 9] } else { vec![1, 2, 3] };
            for k in ks {
                for acc in A5 {
                    for inskips in [false, true] {
                        let mut n = base.clone();
                        n.loopacc = acc;
                        n.loopbacks = vec![(b, a, k, inskips)];
                        out.push(n.clone());
                        // the accumulation configured for SKIP connections must not leak into loops
                        if inskips && k == 1 {
                            for sk in [Acc::Mul, Acc::Over] {
                                let mut m = n.clone();
                                m.skipacc = sk;
                                out.push(m);
                            }
                        }
                    }
                }
            }
        }
        // two OVERLAPPING ranges (nested, or chained through a shared layer): the statement describes one loop; for the
        // outer loop's iterations both readings are accepted (re-apply the plain layers / re-apply them with the inner loop)
        for &(a1, b1) in &rs {
            for &(a2, b2) in &rs {
                if b1 < b2 && a2 <= b1 {
                    let accs: Vec<Acc> = if thorough { A5.to_vec() } else { vec![Acc::Mean, Acc::Add, Acc::Over] };
                    let kk: Vec<(usize, usize)> = if thorough { vec![(2, 1), (1, 2), (1, 1), (2, 2), (3, 1), (1, 3)] } else { vec![(2, 1), (1, 2)] };
                    for &acc in &accs {
                        for &(k1, k2) in &kk {
                            let mut n = base.clone();
                            n.loopacc = acc;
                            n.loopbacks = vec![(b1, a1, k1, false), (b2, a2, k2, false)];
                            out.push(n.clone());
                            n.loopbacks.reverse();
                            out.push(n);
                        }
                    }
                }
            }
        }
        // two disjoint ranges
        for &(a1, b1) in &rs {
            for &(a2, b2) in &rs {
                if b1 < a2 {
                    for acc in [Acc::Add, Acc::Over, Acc::Mean] {
                        let mut n = base.clone();
                        n.loopacc = acc;
                        n.loopbacks = vec![(b1, a1, 2, false), (b2, a2, 1, true)];
                        out.push(n.clone());
                        // the same two loops registered in the opposite order
                        n.loopbacks.reverse();
                        out.push(n.clone());
                        // both loops with input skips (each must add ITS OWN original input)
                        n.loopbacks = vec![(b1, a1, 1, true), (b2, a2, 2, true)];
                        out.push(n);
                    }
                }
            }
        }
    }
    out
}

/// loops whose repeated map has a fixed point at 1 and whose input is one or two units in the last place away from it:
/// successive iterates differ by a few ulp without being equal, so nothing may be taken as "settled". The map is
/// x -> g x + (1 - g) per layer (g = 2: repelling, g = 1/2: attracting); all arithmetic is exact in single precision.
pub fn fixed_point_nets() -> Vec<Net> {
    let d = L::Dense { n: 2, act: Act::Linear, bias: true, drop: None };
    let base = Net::new(Dims::Flat(2), vec![d.clone(), d.clone(), d]);
    let mut out = Vec::new();
    for (a, b) in [(0usize, 0usize), (1, 1), (0, 1), (1, 2), (2, 2)] {
        for k in [8usize, 16, 22] {
            for acc in A5 {
                let mut n = base.clone();
                n.loopacc = acc;
                n.loopbacks = vec![(b, a, k, false)];
                out.push(n);
            }
        }
    }
    out
}

fn fixed_point_data(net: &Net, gain: f32) -> (Vec<P<f32>>, Vec<f32>) {
    let inside = |i: usize| net.loopbacks.iter().any(|(o, e, _, _)| *e <= i && i <= *o);
    let params = (0..net.layers.len())
        .map(|i| {
            let g = if inside(i) { gain } else { 1.0 };
            P { w: vec![vec![g, 0.0, 0.0, g]], b: Some(vec![1.0 - g, 1.0 - g]), inner: vec![] }
        })
        .collect();
    let u = if gain > 1.0 { f32::EPSILON } else { 8.0 * f32::EPSILON };
    (params, vec![1.0 + u, 1.0 - u])
}

fn class(net: &Net) -> String {
    let sh = ref_shapes(net).unwrap();
    net.loopbacks
        .iter()
        .map(|(o, i, _, sk)| {
            let entry = match &net.layers[*i] {
                L::Pool { .. } => "pool-entry",
                L::Dense { .. } => "dense",
                _ => {
                    if *i > 0 && (sh[*i - 1].out.is_flat()) {
                        "spatial-after-flat"
                    } else {
                        "spatial"
                    }
                }
            };
            format!("{}{}{}", entry, if sh[*o].flatten { " flattened-end" } else { "" }, if *sk { " inskips" } else { "" })
        })
        .collect::<Vec<_>>()
        .join(" & ")
}

pub fn check(seed: u64, case: &Kv, rep: &mut Report) {
    // "order=eager": the same network assembled with every loopback call issued as soon as the layers of its range exist,
    // before the remaining layers are added
    let eager = case.opt("order") == Some("eager");
    libnet::set_eager(eager);
    if eager {
        rep.count("cases_built_with_loopback_calls_before_the_remaining_layers", 1);
    }
    check_inner(seed, case, rep);
    libnet::set_eager(false);
}

fn check_inner(seed: u64, case: &Kv, rep: &mut Report) {
    let net = Net::parse(case.get("net"));
    let v = case.usize("val");
    rep.states += 1;
    rep.evaluations += 1;
    rep.transitions += 1;
    let shapes = ref_shapes(&net).unwrap();
    let key = format!("{}#{}", net.name(), v);
    if v >= 8 {
        rep.count("near_fixed_point_cases", 1);
    }
    let params = if v >= 8 { fixed_point_data(&net, if v == 8 { 2.0 } else { 0.5 }).0 } else { structural_params(&net, &shapes, seed, &key) };
    // valuations 2 and 3 (thorough) and every odd valuation of a linear-only network use tiny inputs (2^-20): a loop
    // iteration then changes the value by far less than 1e-5 without being a fixed point
    let linear_only = !net.name().contains("relu");
    let tiny = v >= 2 || (v == 1 && linear_only);
    let unit = if net.loopacc == Acc::Mean { 12.0 } else { 1.0 } * if tiny { 9.536_743e-7 } else { 1.0 };
    let x = if v >= 8 { fixed_point_data(&net, if v == 8 { 2.0 } else { 0.5 }).1 } else { structural_input(net.input.count(), unit, seed, &key) };
    let cls = format!("{} {}", class(&net), net.loopacc.name());
    let lib_out = match predict_vs_ref(&net, &params, &x, 2e-6) {
        Ok(ok) => {
            if ok.nontrivial {
                rep.nontrivial += 1;
            }
            if ok.overflow {
                rep.count("reference_outside_f32_range_skipped", 1);
            }
            ok.lib_out
        }
        Err(Mismatch::Rejected(e)) => {
            rep.violate(format!("C17 loopback rejects a matching range [{}]", cls), format!("{}: {}", net.name(), crate::util::first_line(&e)), case);
            return;
        }
        Err(Mismatch::Panics(e)) => {
            rep.violate(format!("C17 forward panics [{}]", class(&net)), format!("{}: {}", net.name(), crate::util::first_line(&e)), case);
            return;
        }
        Err(Mismatch::Shape(e)) => {
            rep.violate(format!("C17 output shape [{}]", cls), format!("{}: {}", net.name(), e), case);
            return;
        }
        Err(Mismatch::Value(e)) => {
            let overlapping = net.loopbacks.len() == 2 && {
                let (l1, l2) = (net.loopbacks[0], net.loopbacks[1]);
                let ((b1, _a1), (b2, a2)) = if l1.0 < l2.0 { ((l1.0, l1.1), (l2.0, l2.1)) } else { ((l2.0, l2.1), (l1.0, l1.1)) };
                b1 < b2 && a2 <= b1
            };
            let mut other_reading = None;
            if overlapping {
                // second reading: the outer loop's iterations run the inner loop again
                let x64: Vec<f64> = x.iter().map(|v| *v as f64).collect();
                let want = crate::refmodel::net::forward_nested_loops(&net, &shapes, &crate::refmodel::net::to_f64(&params), &x64);
                let got = build_with(&net, &shapes, &params).and_then(|lib| guard(|| lib.predict(&libnet::tensor(net.input, &x)))).and_then(|t| libnet::flat_dims(&t));
                if let Ok((_, v)) = got {
                    let scale = want.iter().fold(1.0f64, |m, w| m.max(w.abs()));
                    if v.len() == want.len() && (0..v.len()).all(|i| v[i].is_finite() && (v[i] as f64 - want[i]).abs() <= 2e-6 * scale) {
                        other_reading = Some(v);
                    }
                }
            }
            match other_reading {
                Some(v) => {
                    rep.count("overlapping_loops_matching_the_nested_reading", 1);
                    v
                }
                None => {
                    rep.violate(format!("C17 accumulated loop output [{}]", cls), format!("{}: {}", net.name(), e), case);
                    return;
                }
            }
        }
    };
    // overwrite, one loop, no input skips: equals the plain unrolled network, bit for bit
    if net.loopacc == Acc::Over && net.loopbacks.len() == 1 && !net.loopbacks[0].3 {
        let (b, a, k, _) = net.loopbacks[0];
        let mut layers = net.layers[..a].to_vec();
        let mut p2 = params[..a].to_vec();
        for _ in 0..=k {
            layers.extend(net.layers[a..=b].iter().cloned());
            p2.extend(params[a..=b].iter().cloned());
        }
        layers.extend(net.layers[b + 1..].iter().cloned());
        p2.extend(params[b + 1..].iter().cloned());
        let plain = Net::new(net.input, layers);
        if let Ok(sh2) = ref_shapes(&plain) {
            rep.transitions += 1;
            rep.count("unrolled_differential", 1);
            let out = build_with(&plain, &sh2, &p2).and_then(|lib| guard(|| lib.predict(&libnet::tensor(plain.input, &x)))).and_then(|t| libnet::flat_dims(&t));
            match out {
                Ok((_, v2)) => {
                    if !crate::util::bits_eq(&v2, &lib_out) {
                        rep.violate(format!("C17 overwrite loop differs from the unrolled network [{}]", cls), format!("{}: loop {:?} unrolled {:?}", net.name(), lib_out, v2), case);
                    }
                }
                Err(e) => rep.violate("C17 unrolled network fails", format!("{}: {}", plain.name(), crate::util::first_line(&e)), case),
            }
        }
    }
}

pub fn run(ctx: &Ctx) -> Report {
    let ns = nets(ctx.tier.thorough());
    let vals = if ctx.tier.thorough() { 4 } else { 2 };
    let mut cs: Vec<Kv> = ns.iter().flat_map(|n| (0..vals).map(move |v| Kv::new().put("net", n.name()).put("val", v))).collect();
    cs.extend(ns.iter().map(|n| Kv::new().put("net", n.name()).put("val", 0).put("order", "eager")));
    cs.extend(fixed_point_nets().iter().flat_map(|n| [8usize, 9].into_iter().map(move |v| Kv::new().put("net", n.name()).put("val", v))));
    let seed = ctx.seed;
    let chunks: Vec<&[Kv]> = cs.chunks(64).collect();
    let parts = par_map(&chunks, |_, c| {
        let mut r = Report::new();
        for k in c.iter() {
            check(seed, k, &mut r);
        }
        r
    });
    let mut rep = Report::new();
    rep.merge_all(parts);
    for i in [0usize, cs.len() / 3, cs.len() / 2, cs.len() - 1] {
        rep.sample(cs[i].to_json());
    }
    rep.notes.insert("cases".into(), Json::i(cs.len() as i64));
    rep.traces_validated = rep.states;
    rep
}

pub fn replay(ctx: &Ctx, case: &Kv) -> Report {
    let mut r = Report::new();
    check(ctx.seed, case, &mut r);
    r
}
