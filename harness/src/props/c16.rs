//! C16 — skip connections combine source and target inputs as configured.
use crate::gen::*;
use crate::json::Json;
use crate::refmodel::net::ref_shapes;
use crate::refmodel::objective::Obj;
use crate::report::{Ctx, Meta, Report};
use crate::spec::*;
use crate::util::{guard, par_map, Kv};

pub fn meta(ctx: &Ctx) -> Meta {
    Meta {
        rule: format!("networks of depth 2..{} over count-preserving layers {{dense 4->4 (linear, ReLU), conv 1x1 / 3x3 p1, deconv 3x3 p1 on 1x2x2, feedback[dense 4]x2, max-pool 1x1, feedback[conv 1x1]x2, conv 2x2 with 4 filters (1x2x2 -> 4x1x1) and deconv 2x2 (4x1x1 -> 1x2x2)}} from a flat and a spatial input (flat<->spatial neighbours in both directions) x EVERY index pair a <= b x all 5 accumulations, exact small-integer data: predict vs the reference interpreter; connections spanning 5..7 layers of an 8-layer network; EVERY ordered pair of connect calls on the depth-3/4 networks: pairwise distinct sources and targets must be accepted, a second connection onto a used target (or from a used source) must be rejected or both must stay visible in predict; every first connection followed by a connect call with its indices the other way round (source above target): rejected, or the first connection must still act (additive accumulation, generic data: the result must not be bit-equal to that without the first connection); THREE connect calls with pairwise distinct sources and targets on a 5-layer network (quick: every ascending triple; thorough: every ordered triple) under add and mean: accepted, all visible; additive accumulation: Network::backward vs the dual-number derivative of the reference function for every single connection, every accepted pair and every triple; every single connection, every triple and every additive pair ALSO with the network assembled in the other order - each connect call issued as soon as its two layers exist, before the remaining layers are added. Non-trivial = reference output has >= 2 distinct non-zero entries", if ctx.tier.thorough() { 4 } else { 3 }),
        bound: "depth <= 4 (5 for triples, 8 for long spans), element count 4, at most three connections".into(),
        exhaustive: true,
        assumptions: vec![
            "when the source layer is itself a target, its ordinary or its combined input are both accepted as 'the input that was fed to layer a'".into(),
            "a max-pool layer is explored as target and as source of a connection (1x1 window, so that element counts match)".into(),
        ],
    }
}

fn alphabet() -> Vec<L> {
    vec![
        L::Dense { n: 4, act: Act::Linear, bias: true, drop: None },
        L::Dense { n: 4, act: Act::Relu, bias: false, drop: None },
        L::Conv { f: 1, k: (1, 1), s: (1, 1), p: (0, 0), d: (1, 1), act: Act::Linear, drop: None },
        L::Conv { f: 1, k: (3, 3), s: (1, 1), p: (1, 1), d: (1, 1), act: Act::Relu, drop: None },
        L::Deconv { f: 1, k: (3, 3), s: (1, 1), p: (1, 1), act: Act::Linear, drop: None },
        L::Fb { layers: vec![L::Dense { n: 4, act: Act::Linear, bias: true, drop: None }], loops: 2, inskips: false, outskips: false, acc: Acc::Add },
        // a max-pool and a block of spatial layers
        L::Pool { k: (1, 1), s: (1, 1) },
        L::Fb { layers: vec![L::Conv { f: 1, k: (1, 1), s: (1, 1), p: (0, 0), d: (1, 1), act: Act::Linear, drop: None }], loops: 2, inskips: false, outskips: false, acc: Acc::Add },
        // layers that keep the element count but change the arrangement: 1x2x2 -> 4x1x1 and back (connections between
        // spatial tensors of different shape and equal count)
        L::Conv { f: 4, k: (2, 2), s: (1, 1), p: (0, 0), d: (1, 1), act: Act::Linear, drop: None },
        L::Deconv { f: 1, k: (2, 2), s: (1, 1), p: (0, 0), act: Act::Linear, drop: None },
    ]
}

/// every layer kind may be the source of a connection (a max-pool source used to be refused: "Unknown shape!")
fn source_ok(_net: &Net, _a: usize) -> bool {
    true
}

/// the statement quantifies over index pairs with EQUAL element counts (the inputs of layers a and b)
fn counts_match(net: &Net, a: usize, b: usize) -> bool {
    match ref_shapes(net) {
        Ok(sh) => a < sh.len() && b < sh.len() && sh[a].inp.count() == sh[b].inp.count(),
        Err(_) => false,
    }
}

pub fn base_nets(max_depth: usize) -> Vec<Net> {
    let al = alphabet();
    let mut out = Vec::new();
    for input in [Dims::Flat(4), Dims::Chw(1, 2, 2)] {
        for depth in 2..=max_depth {
            for code in 0..al.len().pow(depth as u32) {
                let mut c = code;
                let layers: Vec<L> = (0..depth)
                    .map(|_| {
                        let l = al[c % al.len()].clone();
                        c /= al.len();
                        l
                    })
                    .collect();
                let net = Net::new(input, layers);
                if ref_shapes(&net).is_ok() {
                    out.push(net);
                }
            }
        }
    }
    out
}

fn forward_case(net: &Net, seed: u64, case: &Kv, rep: &mut Report) -> bool {
    rep.states += 1;
    rep.evaluations += 1;
    rep.transitions += 1;
    let shapes = ref_shapes(net).unwrap();
    let key = net.name();
    let params = structural_params(net, &shapes, seed, &key);
    // every third case uses tiny inputs (2^-20): nothing may depend on the magnitude
    let tiny = crate::util::fnv(&key) % 3 == 0;
    let unit = if net.skipacc == Acc::Mean { 2.0 } else { 1.0 } * if tiny { 9.536_743e-7 } else { 1.0 };
    let x = structural_input(net.input.count(), unit, seed, &key);
    let conn = net.connects.iter().map(|(a, b)| if a == b { "a==b" } else { "a<b" }).collect::<Vec<_>>().join(",");
    match predict_vs_ref(net, &params, &x, 2e-6) {
        Ok(ok) => {
            if ok.nontrivial {
                rep.nontrivial += 1;
            }
            if ok.overflow {
                rep.count("reference_outside_f32_range_skipped", 1);
            }
            true
        }
        Err(Mismatch::Rejected(e)) => {
            rep.violate(format!("C16 connect rejects a valid connection [{}]", conn), format!("{}: {}", net.name(), crate::util::first_line(&e)), case);
            false
        }
        Err(Mismatch::Panics(e)) => {
            rep.violate(format!("C16 forward panics [{} {}]", conn, net.skipacc.name()), format!("{}: {}", net.name(), crate::util::first_line(&e)), case);
            false
        }
        Err(Mismatch::Shape(e)) => {
            rep.violate(format!("C16 output shape [{} {}]", conn, net.skipacc.name()), format!("{}: {}", net.name(), e), case);
            false
        }
        Err(Mismatch::Value(e)) => {
            rep.violate(format!("C16 combined input [{} {}]", conn, net.skipacc.name()), format!("{}: {}", net.name(), e), case);
            false
        }
    }
}

fn backward_case(net: &Net, seed: u64, case: &Kv, rep: &mut Report) {
    // the C01 oracle on the network with its connections (vector-Jacobian form, kink-free generic data)
    let mut tmp = Report::new();
    crate::props::c01::check_net(net, Obj::MSE, false, seed, case, &mut tmp);
    rep.transitions += tmp.transitions;
    rep.count("backward_checks", 1);
    for (k, n) in tmp.counters {
        rep.count(&k, n);
    }
    let shape = if net.connects.len() == 1 {
        let (a, b) = net.connects[0];
        if a == b {
            "a==b".to_string()
        } else {
            "a<b".to_string()
        }
    } else {
        let (a1, b1) = net.connects[0];
        let (a2, b2) = net.connects[1];
        format!("two connections{}{}", if a1 == a2 { ", shared source" } else { "" }, if b1 == a2 || b2 == a1 { ", chained" } else { "" })
    };
    for v in tmp.violations {
        let what = v.key.trim_start_matches("C01 ");
        // which layer is wrong relative to the connection: classify by the position of the first bad layer
        rep.violate(format!("C16 backward with additive skip [{}]: {}", shape, what), v.what, case);
    }
}

pub fn check(seed: u64, case: &Kv, rep: &mut Report) {
    // "order=eager": the same network assembled with every connect call issued as soon as its two layers exist, before
    // the remaining layers are added
    let eager = case.opt("order") == Some("eager");
    crate::libnet::set_eager(eager);
    if eager {
        rep.count("cases_built_with_connect_calls_before_the_remaining_layers", 1);
    }
    check_inner(seed, case, rep);
    crate::libnet::set_eager(false);
}

fn check_inner(seed: u64, case: &Kv, rep: &mut Report) {
    match case.get("kind") {
        "single" => {
            let net = Net::parse(case.get("net"));
            let ok = forward_case(&net, seed, case, rep);
            if ok && net.skipacc == Acc::Add {
                backward_case(&net, seed, case, rep);
            }
        }
        "revpair" => {
            // a second connect call with its indices the other way round (source index above target index) after a
            // first connection: rejected, or - if the library accepts it - the first connection must still act
            let net = Net::parse(case.get("net"));
            let (x, y) = (case.usize("from"), case.usize("to"));
            rep.states += 1;
            rep.evaluations += 1;
            rep.transitions += 4;
            let mut plain = net.clone();
            plain.connects.clear();
            let shapes = ref_shapes(&net).unwrap();
            let key = net.name();
            let params = params_for(&net, &shapes, Valuation::Generic, seed, &key);
            let xin = input_values(Valuation::Generic, net.input.count(), seed, &key);
            let run = |spec: &Net, second: bool| -> Result<Vec<f32>, String> {
                let mut lib = build_with(spec, &shapes, &params)?;
                if second {
                    guard(|| lib.connect(x, y))?;
                    guard(|| lib.predict(&crate::libnet::tensor(spec.input, &xin))).and_then(|t| crate::libnet::flat_dims(&t)).map(|d| d.1).map_err(|e| format!("after-accept: {}", e))
                } else {
                    guard(|| lib.predict(&crate::libnet::tensor(spec.input, &xin))).and_then(|t| crate::libnet::flat_dims(&t)).map(|d| d.1)
                }
            };
            match run(&net, true) {
                Err(e) if !e.starts_with("after-accept") => rep.count("reversed_call_rejected", 1),
                Err(e) => rep.violate("C16 forward fails after an accepted connect call", format!("{}: connect({},{}) accepted, then: {}", net.name(), x, y, crate::util::first_line(&e)), case),
                Ok(both) => {
                    rep.count("reversed_call_accepted", 1);
                    if let (Ok(only_second), Ok(only_first), Ok(none)) = (run(&plain, true), run(&net, false), run(&plain, false)) {
                        let first_matters = !crate::util::bits_eq(&only_first, &none);
                        if first_matters && crate::util::bits_eq(&both, &only_second) {
                            rep.nontrivial += 1;
                            rep.violate(
                                "C16 a later connect call silently discards an earlier connection",
                                format!("{}: connect({},{}) was accepted and the network then computes exactly what it computes without the first connection", net.name(), x, y),
                                case,
                            );
                        }
                    }
                }
            }
        }
        "triple" => {
            // three connect calls with pairwise distinct sources and targets, in call order: all accepted, all visible
            let net = Net::parse(case.get("net"));
            rep.states += 1;
            rep.evaluations += 1;
            rep.transitions += 3;
            let shapes = ref_shapes(&net).unwrap();
            let key = net.name();
            let params = structural_params(&net, &shapes, seed, &key);
            let x = structural_input(net.input.count(), if net.skipacc == Acc::Mean { 6.0 } else { 1.0 }, seed, &key);
            match predict_vs_ref(&net, &params, &x, 2e-6) {
                Ok(ok) => {
                    if ok.nontrivial {
                        rep.nontrivial += 1;
                    }
                    if net.skipacc == Acc::Add {
                        backward_case(&net, seed, case, rep);
                    }
                }
                Err(Mismatch::Rejected(e)) => rep.violate("C16 connect rejects pairwise distinct connections (three)", format!("{}: {}", net.name(), crate::util::first_line(&e)), case),
                Err(Mismatch::Value(e)) => rep.violate(format!("C16 three connections: combined input wrong [{}]", net.skipacc.name()), format!("{}: {}", net.name(), e), case),
                Err(Mismatch::Panics(e)) | Err(Mismatch::Shape(e)) => rep.violate(format!("C16 three connections: forward fails [{}]", net.skipacc.name()), format!("{}: {}", net.name(), crate::util::first_line(&e)), case),
            }
        }
        _ => {
            // pair of connect calls, in call order
            let net = Net::parse(case.get("net"));
            let (c1, c2) = (net.connects[0], net.connects[1]);
            rep.states += 1;
            rep.evaluations += 1;
            let distinct = c1.0 != c2.0 && c1.1 != c2.1;
            let same_target = c1.1 == c2.1;
            // does the library accept the second call?
            let mut first = net.clone();
            first.connects = vec![c1];
            rep.transitions += 2;
            let accepted = guard(|| {
                let mut lib = crate::libnet::build(&first);
                lib.connect(c2.0, c2.1);
            });
            match accepted {
                Err(e) => {
                    if distinct {
                        rep.violate(
                            format!("C16 connect rejects pairwise distinct connections{}", if c1.1 == c2.0 || c2.1 == c1.0 { " (chained)" } else { "" }),
                            format!("{}: connect({},{}) then connect({},{}): {}", net.name(), c1.0, c1.1, c2.0, c2.1, crate::util::first_line(&e)),
                            case,
                        );
                    } else {
                        rep.count("second_connection_rejected", 1);
                    }
                }
                Ok(()) => {
                    // both must be visible
                    let shapes = ref_shapes(&net).unwrap();
                    let key = net.name();
                    let params = structural_params(&net, &shapes, seed, &key);
                    let x = structural_input(net.input.count(), if net.skipacc == Acc::Mean { 6.0 } else { 1.0 }, seed, &key);
                    match predict_vs_ref(&net, &params, &x, 2e-6) {
                        Ok(ok) => {
                            if ok.nontrivial {
                                rep.nontrivial += 1;
                            }
                            if net.skipacc == Acc::Add {
                                backward_case(&net, seed, case, rep);
                            }
                        }
                        Err(Mismatch::Value(e)) => {
                            // is the first connection gone?
                            let mut only2 = net.clone();
                            only2.connects = vec![c2];
                            let dropped = predict_vs_ref(&only2, &params, &x, 2e-6).is_ok();
                            rep.violate(
                                if same_target && dropped {
                                    "C16 a second connection onto the same target silently discards the first".to_string()
                                } else {
                                    format!("C16 two connections: combined input wrong [{}]", net.skipacc.name())
                                },
                                format!("{}: {}", net.name(), e),
                                case,
                            );
                        }
                        Err(Mismatch::Panics(e)) | Err(Mismatch::Rejected(e)) | Err(Mismatch::Shape(e)) => {
                            rep.violate(format!("C16 two connections: forward fails [{}]", net.skipacc.name()), format!("{}: {}", net.name(), crate::util::first_line(&e)), case)
                        }
                    }
                }
            }
        }
    }
}

pub fn cases(ctx: &Ctx) -> Vec<Kv> {
    let max_depth = if ctx.tier.thorough() { 4 } else { 3 };
    let mut nets = base_nets(max_depth);
    if max_depth < 4 {
        // chained connections only reach a parameter gradient when the first source is >= 1: depth 4 is the minimum
        let d = L::Dense { n: 4, act: Act::Linear, bias: true, drop: None };
        let r = L::Dense { n: 4, act: Act::Relu, bias: false, drop: None };
        nets.push(Net::new(Dims::Flat(4), vec![d.clone(), r.clone(), d.clone(), d.clone()]));
        nets.push(Net::new(Dims::Flat(4), vec![r, d.clone(), d.clone(), d]));
    }
    let mut out = Vec::new();
    // beyond the small bound: connections that span 5, 6 and 7 layers of an 8-layer network, alone and in pairs
    {
        let d = |act: Act, bias: bool| L::Dense { n: 4, act, bias, drop: None };
        let deep = Net::new(
            Dims::Flat(4),
            vec![d(Act::Linear, true), d(Act::Relu, false), d(Act::Linear, true), d(Act::Linear, false), d(Act::Relu, true), d(Act::Linear, true), d(Act::Linear, false), d(Act::Linear, true)],
        );
        let spans = [(0usize, 5usize), (1, 6), (2, 7), (1, 7), (0, 7), (3, 4)];
        for &(a, b) in &spans {
            for acc in [Acc::Add, Acc::Sub, Acc::Over] {
                let mut m = deep.clone();
                m.connects = vec![(a, b)];
                m.skipacc = acc;
                out.push(Kv::new().put("kind", "single").put("net", m.name()));
                out.push(Kv::new().put("kind", "single").put("net", m.name()).put("order", "eager"));
            }
        }
        for &c1 in &spans {
            for &c2 in &spans {
                if c1.0 != c2.0 && c1.1 != c2.1 {
                    let mut m = deep.clone();
                    m.connects = vec![c1, c2];
                    m.skipacc = Acc::Add;
                    out.push(Kv::new().put("kind", "pair").put("net", m.name()));
                }
            }
        }
    }
    // three connections with pairwise distinct sources and targets on a 5-layer network: every ordered triple
    // (thorough), every triple in ascending order (quick)
    {
        let d = |act: Act, bias: bool| L::Dense { n: 4, act, bias, drop: None };
        let five = Net::new(Dims::Flat(4), vec![d(Act::Linear, true), d(Act::Relu, false), d(Act::Linear, true), d(Act::Relu, true), d(Act::Linear, false)]);
        let pairs: Vec<(usize, usize)> = (0..5usize).flat_map(|b| (0..=b).map(move |a| (a, b))).collect();
        for (i1, &c1) in pairs.iter().enumerate() {
            for (i2, &c2) in pairs.iter().enumerate() {
                for (i3, &c3) in pairs.iter().enumerate() {
                    let distinct = c1.0 != c2.0 && c1.0 != c3.0 && c2.0 != c3.0 && c1.1 != c2.1 && c1.1 != c3.1 && c2.1 != c3.1;
                    if !distinct || (!ctx.tier.thorough() && !(i1 < i2 && i2 < i3)) {
                        continue;
                    }
                    for acc in [Acc::Add, Acc::Mean] {
                        let mut m = five.clone();
                        m.connects = vec![c1, c2, c3];
                        m.skipacc = acc;
                        out.push(Kv::new().put("kind", "triple").put("net", m.name()));
                        out.push(Kv::new().put("kind", "triple").put("net", m.name()).put("order", "eager"));
                    }
                }
            }
        }
    }
    // every first connection x every second call with its indices the other way round
    for net in &nets {
        let n = net.layers.len();
        if n < 3 {
            continue;
        }
        for b in 0..n {
            for a in 0..=b {
                if !source_ok(net, a) || !counts_match(net, a, b) {
                    continue;
                }
                for x in 1..=n {
                    for y in 0..x.min(n) {
                        let mut m = net.clone();
                        m.connects = vec![(a, b)];
                        m.skipacc = Acc::Add;
                        out.push(Kv::new().put("kind", "revpair").put("net", m.name()).put("from", x).put("to", y));
                    }
                }
            }
        }
    }
    for net in &nets {
        let n = net.layers.len();
        let pairs: Vec<(usize, usize)> = (0..n).flat_map(|b| (0..=b).map(move |a| (a, b))).collect();
        let pairs: Vec<(usize, usize)> = pairs.into_iter().filter(|&(a, b)| counts_match(net, a, b)).collect();
        for &(a, b) in &pairs {
            if !source_ok(net, a) {
                continue;
            }
            for acc in A5 {
                let mut m = net.clone();
                m.connects = vec![(a, b)];
                m.skipacc = acc;
                out.push(Kv::new().put("kind", "single").put("net", m.name()));
            }
        }
        if n >= 3 {
            for &c1 in &pairs {
                for &c2 in &pairs {
                    if c1 == c2 || !source_ok(net, c1.0) || !source_ok(net, c2.0) {
                        continue;
                    }
                    for acc in [Acc::Add, Acc::Mul] {
                        let mut m = net.clone();
                        m.connects = vec![c1, c2];
                        m.skipacc = acc;
                        out.push(Kv::new().put("kind", "pair").put("net", m.name()));
                        if acc == Acc::Add {
                            out.push(Kv::new().put("kind", "pair").put("net", m.name()).put("order", "eager"));
                        }
                    }
                }
            }
        }
    }
    out
}

pub fn run(ctx: &Ctx) -> Report {
    let cs = cases(ctx);
    let seed = ctx.seed;
    let chunks: Vec<&[Kv]> = cs.chunks(64).collect();
    let parts = par_map(&chunks, |_, c| {
        let mut r = Report::new();
        for k in c.iter() {
            check(seed, k, &mut r);
        }
        r
    });
    let mut rep = Report::new();
    rep.merge_all(parts);
    for i in [0usize, cs.len() / 3, cs.len() / 2, cs.len() - 1] {
        rep.sample(cs[i].to_json());
    }
    rep.notes.insert("cases".into(), Json::i(cs.len() as i64));
    rep.traces_validated = rep.states;
    rep
}

pub fn replay(ctx: &Ctx, case: &Kv) -> Report {
    let mut r = Report::new();
    check(ctx.seed, case, &mut r);
    r
}
