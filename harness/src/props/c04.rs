//! C04 — training is ordered mini-batch gradient-sum descent.
//! Reference trainer built from per-sample library passes: per epoch, consecutive groups of B in the
//! given order; per group the per-sample (forward, objective, backward) at the weights held before the
//! step, gradients summed, ONE step of a separately created optimizer with step number = epoch index.
use crate::gen::*;
use crate::json::Json;
use crate::libnet::{self, tensor};
use crate::refmodel::net::{ref_shapes, LShape};
use crate::refmodel::objective::Obj;
use crate::refmodel::optim::OptSpec;
use crate::report::{Ctx, Meta, Report};
use crate::spec::*;
use crate::util::{fnv, guard, par_map, Kv, Rng};
use neurons::optimizer::Optimizer;
use neurons::tensor::Tensor;

pub fn meta(_ctx: &Ctx) -> Meta {
    Meta {
        rule: "ALL (N,B,E) with N in 1..6, B in 1..7 (B=1, B not dividing N, B=N, B>N), E in 1..3, plus a 1024->64->2 network with (N,B) in {(32,32),(40,32),(150,32),(70,64)}, plus (N,B) in {(64,64),(65,64),(65,65),(70,128),(130,65),(130,100),(129,64),(130,129),(257,256),(258,257),(300,300),(513,512),(520,520),(700,1000),(1025,1024),(1030,1030),(1100,600)} x networks {dense-linear on one-hot inputs (sample i touches column i only), dense+bias tanh -> dense, conv -> dense, dense -> feedback[dense]x2 -> dense} x optimizers {SGD, SGDM, Adam, RMSprop} x objectives {MSE, AE}; batch sizes usize::MAX, usize::MAX-1, usize::MAX/2+1; a group whose only sample has an exactly zero loss and gradient; pairwise different samples; also two consecutive learn() calls on the same network (16 settings x 4 phase pairs). Oracle: reference trainer (consecutive groups in order, per-sample gradients at the pre-step weights summed, one optimizer step per group with step number = epoch, loss = mean over groups of mean per-sample loss) vs learn()'s final weights and returned loss vector. A state is the weight vector after each optimizer step; non-trivial = runs with >= 2 groups or >= 2 samples per group".into(),
        bound: "N <= 6, B <= 7, E <= 3 (thorough: N <= 16, B <= 17, E <= 6, and every pair of learn() calls with N in {3,5,6}, B, B2 in 1..4, E, E2 in 1..2); complete product".into(),
        exhaustive: true,
        assumptions: vec![
            "per-sample gradients come from the library's own passes (C01 decides them); the separately created optimizer is the library's (C03 decides it): this check isolates grouping, order, sum-vs-mean, remainder group, step numbers and loss averaging".into(),
            "weights compared with tolerance 1e-5*max(1,|w|) (bit-exact agreement is counted)".into(),
        ],
    }
}

fn nets() -> Vec<(&'static str, Net)> {
    vec![
        ("onehot", Net::new(Dims::Flat(9), vec![L::Dense { n: 2, act: Act::Linear, bias: false, drop: None }])),
        (
            "mlp",
            Net::new(Dims::Flat(3), vec![L::Dense { n: 4, act: Act::Tanh, bias: true, drop: None }, L::Dense { n: 2, act: Act::Linear, bias: true, drop: None }]),
        ),
        (
            "cnn",
            Net::new(
                Dims::Chw(1, 3, 3),
                vec![L::Conv { f: 2, k: (2, 2), s: (1, 1), p: (0, 0), d: (1, 1), act: Act::Tanh, drop: None }, L::Dense { n: 2, act: Act::Linear, bias: true, drop: None }],
            ),
        ),
        // 1024 -> 64: 65 600 parameters (beyond any small per-batch memory heuristic)
        ("wide", Net::new(Dims::Flat(1024), vec![L::Dense { n: 64, act: Act::Tanh, bias: true, drop: None }, L::Dense { n: 2, act: Act::Linear, bias: true, drop: None }])),
        (
            "fb",
            Net::new(
                Dims::Flat(3),
                vec![
                    L::Dense { n: 3, act: Act::Tanh, bias: true, drop: None },
                    L::Fb { layers: vec![L::Dense { n: 3, act: Act::Tanh, bias: true, drop: None }], loops: 2, inskips: false, outskips: false, acc: Acc::Mean },
                    L::Dense { n: 2, act: Act::Linear, bias: false, drop: None },
                ],
            ),
        ),
    ]
}

fn n_in_wide(net: &Net) -> bool {
    net.input.count() > 100
}

fn opts() -> Vec<OptSpec> {
    vec![
        OptSpec::Sgd { lr: 0.125, decay: None },
        OptSpec::Sgdm { lr: 0.05, momentum: 0.9, dampening: 0.1, decay: None },
        OptSpec::Adam { lr: 0.01, b1: 0.9, b2: 0.999, eps: 1e-8, decay: None },
        OptSpec::Rms { lr: 0.01, alpha: 0.9, eps: 1e-8, decay: Some(0.01), momentum: Some(0.5), centered: false },
    ]
}

/// state tensors in the layout Network::set_optimizer uses: one entry per layer, LAST layer first
fn slot_layout(net: &Net, shapes: &[LShape]) -> Vec<Vec<Vec<Tensor>>> {
    let mut v = Vec::new();
    for (l, sh) in net.layers.iter().zip(shapes).rev() {
        match l {
            L::Dense { n, bias, .. } => {
                v.push(vec![vec![
                    libnet::matrix(*n, sh.inp.count(), &vec![0.0; n * sh.inp.count()]),
                    if *bias { Tensor::single(vec![0.0; *n]) } else { Tensor::single(vec![]) },
                ]]);
            }
            L::Conv { f, k, .. } | L::Deconv { f, k, .. } => {
                let c = match sh.inp {
                    Dims::Chw(c, _, _) => c,
                    _ => unreachable!(),
                };
                v.push((0..*f).map(|_| vec![tensor(Dims::Chw(c, k.0, k.1), &vec![0.0; c * k.0 * k.1])]).collect());
            }
            _ => v.push(vec![vec![Tensor::single(vec![])]]),
        }
    }
    v
}

fn add_p(a: &mut P<f32>, b: &P<f32>) {
    for (x, y) in a.w.iter_mut().zip(&b.w) {
        for (p, q) in x.iter_mut().zip(y) {
            *p += *q;
        }
    }
    if let (Some(x), Some(y)) = (a.b.as_mut(), b.b.as_ref()) {
        for (p, q) in x.iter_mut().zip(y) {
            *p += *q;
        }
    }
    for (x, y) in a.inner.iter_mut().zip(&b.inner) {
        add_p(x, y);
    }
}

/// one documented optimizer step on a plain (non-feedback) layer's parameters
fn step_layer(opt: &mut Optimizer, slot: usize, stepnr: i32, l: &L, sh: &LShape, p: &mut P<f32>, g: &P<f32>) -> Result<(), String> {
    match l {
        L::Dense { n, .. } => {
            let mut w = libnet::matrix(*n, sh.inp.count(), &p.w[0]);
            let mut gw = libnet::matrix(*n, sh.inp.count(), &g.w[0]);
            guard(|| opt.update(slot, 0, false, stepnr, &mut w, &mut gw))?;
            p.w[0] = libnet::flat(&w)?.1;
            if let (Some(b), Some(gb)) = (p.b.as_mut(), g.b.as_ref()) {
                let mut bt = Tensor::single(b.clone());
                let mut gt = Tensor::single(gb.clone());
                guard(|| opt.update(slot, 0, true, stepnr, &mut bt, &mut gt))?;
                *b = libnet::flat(&bt)?.1;
            }
        }
        L::Conv { k, .. } | L::Deconv { k, .. } => {
            let c = match sh.inp {
                Dims::Chw(c, _, _) => c,
                _ => unreachable!(),
            };
            for f in 0..p.w.len() {
                let mut w = tensor(Dims::Chw(c, k.0, k.1), &p.w[f]);
                let mut gw = tensor(Dims::Chw(c, k.0, k.1), &g.w[f]);
                guard(|| opt.update(slot, f, false, stepnr, &mut w, &mut gw))?;
                p.w[f] = libnet::flat(&w)?.1;
            }
        }
        _ => (),
    }
    Ok(())
}

pub fn check(seed: u64, case: &Kv, rep: &mut Report) {
    let (n, b, e) = (case.usize("n"), case.usize("b"), case.usize("e"));
    let (_, net) = nets().into_iter().find(|(k, _)| *k == case.get("net")).expect("net");
    let ospec = OptSpec::parse(case.get("opt"));
    let o = Obj::parse(case.get("obj"));
    rep.evaluations += 1;
    let groups = (n - 1) / b + 1;
    if groups >= 2 || b.min(n) >= 2 {
        rep.nontrivial += 1;
    }
    let shapes = ref_shapes(&net).unwrap();
    let key = format!("{}/{}", case.get("net"), case.get("opt"));
    let onehot = case.get("net") == "onehot";
    let has_fb = net.layers.iter().any(|l| matches!(l, L::Fb { .. }));
    let params0: Vec<P<f32>> = if onehot {
        params_for(&net, &shapes, Valuation::Dyadic, seed, &key)
    } else {
        params_for(&net, &shapes, Valuation::Generic, seed, &key).iter().map(|p| p.map(&|v| v * if n_in_wide(&net) { 0.02 } else { 0.5 })).collect()
    };
    let mut r = Rng::new(seed, fnv(&key) ^ 0x8888);
    let n_in = net.input.count();
    let n_out = shapes.last().unwrap().out.count();
    // "identical": every sample is the first one (input and target); "same-input": every odd sample repeats the input
    // of the sample before it with a different target (replicate measurements / noisy labels)
    let identical = case.opt("data") == Some("identical");
    let same_input = case.opt("data") == Some("same-input");
    let mut xs: Vec<Tensor> = (0..n)
        .map(|i| {
            if onehot {
                Tensor::one_hot(i, n_in)
            } else {
                tensor(net.input, &(0..n_in).map(|j| r.signed(0.1, 1.0) + 0.01 * (i * n_in + j) as f32).collect::<Vec<_>>())
            }
        })
        .collect();
    let mut ts: Vec<Tensor> = (0..n)
        .map(|i| Tensor::single((0..n_out).map(|j| if onehot { (i as f32 + 1.0) * 0.5 - j as f32 } else { r.signed(0.1, 1.0) }).collect()))
        .collect();
    // "zero-sample": sample 1 is the zero vector with a zero target (bias-free linear network: its loss and its gradient
    // are exactly 0) - its group still gets its optimizer step (momentum, running averages and decay act on a zero gradient)
    if case.opt("data") == Some("zero-sample") && n >= 2 {
        xs[1] = tensor(net.input, &vec![0.0; n_in]);
        ts[1] = Tensor::single(vec![0.0; n_out]);
    }
    for i in 1..n {
        if identical {
            xs[i] = xs[0].clone();
            ts[i] = ts[0].clone();
        } else if same_input && i % 2 == 1 {
            xs[i] = xs[i - 1].clone();
        }
    }
    let xr: Vec<&Tensor> = xs.iter().collect();
    let tr: Vec<&Tensor> = ts.iter().collect();

    // --- the real learn() ---
    let mut lib = match build_with(&net, &shapes, &params0) {
        Ok(l) => l,
        Err(er) => {
            rep.violate("C04 builder rejects", er, case);
            return;
        }
    };
    lib.set_objective(o.lib(), None);
    lib.set_optimizer(ospec.lib());
    // one or two consecutive learn() calls on the same network (optimizer state survives, step numbers restart)
    let mut phases: Vec<(usize, usize)> = vec![(b, e)];
    if let (Some(b2), Some(e2)) = (case.opt("b2"), case.opt("e2")) {
        phases.push((b2.parse().unwrap(), e2.parse().unwrap()));
    }
    let mut train_loss: Vec<f32> = Vec::new();
    for &(pb, pe) in &phases {
        match guard(|| lib.learn(&xr, &tr, None, pb, pe as i32, None)) {
            Ok((t, _, _)) => train_loss.extend(t),
            Err(er) => {
                rep.violate("C04 learn panics", crate::util::first_line(&er), case);
                return;
            }
        }
    }
    let got = match libnet::get_params(&lib) {
        Ok(p) => p,
        Err(er) => {
            rep.violate("C04 parameters inconsistent after learn", er, case);
            return;
        }
    };

    // --- the reference trainer ---
    let mut scratch = build_with(&net, &shapes, &params0).unwrap();
    scratch.set_objective(o.lib(), None);
    // installs a validated optimizer copy inside feedback blocks (Feedback::update uses it)
    scratch.set_optimizer(ospec.lib());
    let objf = neurons::objective::Function::create(o.lib(), None);
    let mut params = params0.clone();
    let mut opt = ospec.lib();
    opt.validate(slot_layout(&net, &shapes));
    // feedback blocks own a copy of the optimizer and re-couple their copies: let a twin network's block do its
    // own update (Feedback::update is public) — only plain layers are stepped by hand
    let mut want_loss: Vec<f64> = Vec::new();
    let nl = net.layers.len();
    for &(b, e) in &phases {
    let groups = (n - 1) / b + 1;
    for epoch in 1..=e {
        let mut loss_epoch = 0.0f64;
        let mut start = 0;
        while start < n {
            let end = (start + b).min(n);
            let mut sum: Option<Vec<P<f32>>> = None;
            let mut raw_fb: Vec<Option<(Tensor, Tensor)>> = vec![None; nl];
            let mut losses = Vec::new();
            for i in start..end {
                let step = guard(|| {
                    let (pre, post, max, fbs) = scratch.forward(&xs[i]);
                    let (loss, grad) = objf.loss(post.last().unwrap(), &ts[i]);
                    let (wg, bg) = neurons::verif::backward(&scratch, grad, &pre, &post, &max, fbs);
                    (loss, wg, bg)
                });
                let (loss, wg, bg) = match step {
                    Ok(x) => x,
                    Err(er) => {
                        rep.violate("C04 reference pass panics", crate::util::first_line(&er), case);
                        return;
                    }
                };
                losses.push(loss as f64);
                // nested feedback gradients are summed as tensors (add_inplace), like any accumulation would
                for (li, l) in net.layers.iter().enumerate() {
                    if matches!(l, L::Fb { .. }) {
                        let w = wg[nl - 1 - li].clone();
                        let bb = bg[nl - 1 - li].clone().unwrap();
                        match raw_fb[li].as_mut() {
                            None => raw_fb[li] = Some((w, bb)),
                            Some((sw, sb)) => {
                                sw.add_inplace(&w);
                                sb.add_inplace(&bb);
                            }
                        }
                    }
                }
                let g = match libnet::grads_from_lib(&wg, &bg, &net) {
                    Ok(g) => g,
                    Err(er) => {
                        rep.violate("C04 reference gradients inconsistent", er, case);
                        return;
                    }
                };
                match sum.as_mut() {
                    None => sum = Some(g),
                    Some(s) => {
                        for (a, bb) in s.iter_mut().zip(&g) {
                            add_p(a, bb);
                        }
                    }
                }
            }
            loss_epoch += losses.iter().sum::<f64>() / losses.len() as f64;
            let sum = sum.unwrap();
            // one step; slot index = position counted from the LAST layer
            for li in (0..nl).rev() {
                let slot = nl - 1 - li;
                if matches!(net.layers[li], L::Fb { .. }) {
                    let (mut w, mut bb) = raw_fb[li].take().unwrap();
                    if let neurons::network::Layer::Feedback(block) = &mut scratch.layers[li] {
                        if let Err(er) = guard(|| block.update(epoch as i32, &mut w, &mut bb)) {
                            rep.violate("C04 reference feedback update panics", crate::util::first_line(&er), case);
                            return;
                        }
                    }
                } else if let Err(er) = step_layer(&mut opt, slot, epoch as i32, &net.layers[li], &shapes[li], &mut params[li], &sum[li]) {
                    rep.violate("C04 reference optimizer step panics", er, case);
                    return;
                }
            }
            // install the stepped plain-layer weights, keep the block's own
            let cur = libnet::get_params(&scratch).unwrap();
            for li in 0..nl {
                if matches!(net.layers[li], L::Fb { .. }) {
                    params[li] = cur[li].clone();
                }
            }
            libnet::set_params(&mut scratch, &net, &shapes, &params);
            rep.states += 1;
            rep.transitions += (end - start) as u64;
            start = end;
        }
        want_loss.push(loss_epoch / groups as f64);
    }
    }
    let e: usize = phases.iter().map(|p| p.1).sum();
    let _ = has_fb;

    // --- compare ---
    if train_loss.len() != e {
        rep.violate("C04 number of training-loss entries", format!("{} for {} epochs", train_loss.len(), e), case);
        return;
    }
    for ep in 0..e {
        let w = want_loss[ep];
        if !((train_loss[ep] as f64 - w).abs() <= 1e-5 * w.abs().max(1.0)) {
            rep.violate(
                "C04 epoch training loss is not the mean over groups of the mean per-sample loss",
                format!("N={} B={} epoch {}: reported {:e}, expected {:e}", n, b, ep + 1, train_loss[ep], w),
                case,
            );
            return;
        }
    }
    let gf: Vec<f32> = got.iter().flat_map(|p| p.flat()).collect();
    let wf: Vec<f32> = params.iter().flat_map(|p| p.flat()).collect();
    if gf.len() != wf.len() {
        rep.violate("C04 parameter count changed", format!("{} vs {}", gf.len(), wf.len()), case);
        return;
    }
    let mut exact = true;
    for i in 0..gf.len() {
        if gf[i].to_bits() != wf[i].to_bits() {
            exact = false;
            if !((gf[i] as f64 - wf[i] as f64).abs() <= 1e-5 * (wf[i].abs() as f64).max(1.0)) {
                rep.violate(
                    format!("C04 final weights differ from ordered mini-batch gradient-sum descent [{}]", ospec.kind()),
                    format!("N={} B={} E={} {} {}: parameter {}: learn() {:e}, reference trainer {:e}", n, b, e, case.get("net"), o.name(), i, gf[i], wf[i]),
                    case,
                );
                return;
            }
        }
    }
    if exact {
        rep.count("bit_exact_runs", 1);
    }
}

pub fn cases(thorough: bool) -> Vec<Kv> {
    let (nmax, bmax, emax) = if thorough { (16usize, 17usize, 6usize) } else { (6usize, 7usize, 3usize) };
    let mut out = Vec::new();
    for (name, _) in nets() {
        if name == "wide" {
            continue;
        }
        for ospec in opts() {
            for o in [Obj::MSE, Obj::AE] {
                for n in 1..=nmax {
                    if name == "onehot" && n > 9 {
                        continue; // sample i is the i-th unit vector of a 9-dimensional input
                    }
                    for b in 1..=bmax {
                        for e in 1..=emax {
                            out.push(Kv::new().put("net", name).put("opt", ospec.name()).put("obj", o.name()).put("n", n).put("b", b).put("e", e));
                        }
                    }
                }
            }
        }
    }
    // two consecutive learn() calls on the same network: the optimizer's running statistics carry over, the step
    // numbers start again at 1
    for (name, _) in nets() {
        if name == "wide" {
            continue;
        }
        for ospec in opts() {
            let mut seqs: Vec<(usize, usize, usize, usize, usize)> = vec![(5, 2, 1, 3, 2), (4, 4, 2, 1, 1), (3, 2, 2, 2, 2), (6, 7, 1, 4, 1)];
            if thorough {
                for n in [3usize, 5, 6] {
                    for b in 1..=4usize {
                        for e in 1..=2usize {
                            for b2 in 1..=4usize {
                                for e2 in 1..=2usize {
                                    seqs.push((n, b, e, b2, e2));
                                }
                            }
                        }
                    }
                }
            }
            for (n, b, e, b2, e2) in seqs {
                out.push(Kv::new().put("net", name).put("opt", ospec.name()).put("obj", "MSE").put("n", n).put("b", b).put("e", e).put("b2", b2).put("e2", e2));
            }
        }
    }
    // a data set of identical samples (duplicates must still contribute once each)
    for ospec in opts() {
        for (n, b, e) in [(4usize, 2usize, 2usize), (5, 3, 1), (6, 6, 1)] {
            out.push(Kv::new().put("net", "mlp").put("opt", ospec.name()).put("obj", "MSE").put("n", n).put("b", b).put("e", e).put("data", "identical"));
            out.push(Kv::new().put("net", "mlp").put("opt", ospec.name()).put("obj", "MSE").put("n", n).put("b", b).put("e", e).put("data", "same-input"));
        }
    }
    // a group whose samples all have an exactly zero loss (and gradient), between ordinary groups, under stateful optimizers
    for ospec in opts() {
        for (n, b, e) in [(3usize, 1usize, 2usize), (4, 1, 3), (2, 1, 2)] {
            out.push(Kv::new().put("net", "onehot").put("opt", ospec.name()).put("obj", "MSE").put("n", n).put("b", b).put("e", e).put("data", "zero-sample"));
            out.push(Kv::new().put("net", "onehot").put("opt", ospec.name()).put("obj", "AE").put("n", n).put("b", b).put("e", e).put("data", "zero-sample"));
        }
    }
    // "one group": batch sizes at the very end of usize (B > N in its most extreme form)
    for ospec in [opts()[0], opts()[2]] {
        for b in [usize::MAX, usize::MAX - 1, usize::MAX / 2 + 1] {
            for (n, e) in [(3usize, 2usize), (1, 1)] {
                out.push(Kv::new().put("net", "mlp").put("opt", ospec.name()).put("obj", "MSE").put("n", n).put("b", b).put("e", e));
            }
        }
    }
    // a wide layer with ordinary batch sizes (32, 64) and 150 samples
    for (n, b, e) in [(32usize, 32usize, 1usize), (40, 32, 2), (150, 32, 1), (70, 64, 1)] {
        out.push(Kv::new().put("net", "wide").put("opt", opts()[0].name()).put("obj", "MSE").put("n", n).put("b", b).put("e", e));
    }
    // groups larger than the internal evaluation chunk size (64): N and B around and above it
    for ospec in [opts()[0], opts()[2]] {
        // ... and around the larger powers of two (128 .. 1024) a blocked implementation might use: one group just above
        // the block size, a group that is a block and a remainder, a data set smaller than the requested batch
        for (n, b) in [(64usize, 64usize), (65, 64), (65, 65), (70, 128), (130, 65), (130, 100), (129, 64), (130, 129), (257, 256), (258, 257), (300, 300), (513, 512), (520, 520), (700, 1000), (1025, 1024), (1030, 1030), (1100, 600)] {
            out.push(Kv::new().put("net", "mlp").put("opt", ospec.name()).put("obj", "MSE").put("n", n).put("b", b).put("e", 1));
        }
    }
    out
}

pub fn run(ctx: &Ctx) -> Report {
    let cs = cases(ctx.tier.thorough());
    let seed = ctx.seed;
    let chunks: Vec<&[Kv]> = cs.chunks(32).collect();
    let parts = par_map(&chunks, |_, c| {
        let mut r = Report::new();
        for k in c.iter() {
            check(seed, k, &mut r);
        }
        r
    });
    let mut rep = Report::new();
    rep.merge_all(parts);
    for i in [0usize, cs.len() / 3, cs.len() / 2, cs.len() - 1] {
        rep.sample(cs[i].to_json());
    }
    rep.notes.insert("cases".into(), Json::i(cs.len() as i64));
    rep.traces_validated = rep.evaluations;
    rep
}

pub fn replay(ctx: &Ctx, case: &Kv) -> Report {
    let mut r = Report::new();
    check(ctx.seed, case, &mut r);
    r
}
