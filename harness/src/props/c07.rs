//! C07 — activations: defined function, exact derivative, total on finite floats.
use crate::json::Json;
use crate::libnet::{flat, lib_act};
use crate::report::{Ctx, Meta, Report};
use crate::spec::{Act, E5};
use crate::util::{guard, par_map, ulp32, Kv};
use neurons::activation::Function;
use neurons::tensor::{Data, Shape, Tensor};

pub fn meta(ctx: &Ctx) -> Meta {
    Meta {
        rule: if ctx.tier.thorough() {
            "ALL 2^32 bit patterns (the finite ones) x {ReLU, leaky ReLU, sigmoid, tanh, linear} x {forward, backward} through the public Function API as vectors; the same values as CxHxW tensors must give bit-identical results (differential). Soft-max: all vectors of length 1..4 over {0,+-0.5,+-1,+-10,+-88,+-1e4,+-MAX,1e-40}, plus lengths 5..1003 (alphabet rotations, one large logit at every position, all-negative), vector and CxHxW, shift invariance for exact shifts. Non-trivial = every distinct finite pattern".into()
        } else {
            "every exponent x sign x all 2^7 leading-mantissa patterns x 8 low-bit fillings, plus +-4096-pattern neighbourhoods of 0, of the exp/cosh thresholds (16.6,17.3,44.4,87.3,88.7,103.9) and of MAX, x 5 activations x {forward, backward}, vector and CxHxW (bit-identical). Soft-max: all vectors of length 1..4 over a 14-value alphabet incl. +-MAX, plus lengths 5..1003 (alphabet rotations, one large logit at every position, all-negative), shift invariance. Non-trivial = every distinct finite pattern".into()
        },
        bound: if ctx.tier.thorough() { "complete over the 2^32 patterns".into() } else { "structured cover of the float lattice (about 6.4e5 patterns); thorough tier is complete".into() },
        exhaustive: ctx.tier.thorough(),
        assumptions: vec![
            "tolerance: max(4 ulp, 32*|f32 transcription - f64 reference|) plus an absolute floor (2.5e-7 for sigmoid', 1e-37 for underflowing values)".into(),
            "at the kink 0 of ReLU / leaky ReLU either one-sided derivative is accepted".into(),
        ],
    }
}

fn f32_formula(a: Act, fwd: bool, x: f32) -> f32 {
    match (a, fwd) {
        (Act::Sigmoid, true) => 1.0 / (1.0 + (-x).exp()),
        (Act::Sigmoid, false) => {
            let y = 1.0 / (1.0 + (-x).exp());
            y * (1.0 - y)
        }
        (Act::Tanh, true) => x.tanh(),
        (Act::Tanh, false) => 1.0 / x.cosh().powi(2),
        (Act::Leaky, true) => {
            if x > 0.0 {
                x
            } else {
                0.01 * x
            }
        }
        _ => unreachable!(),
    }
}

fn f64_ref(a: Act, fwd: bool, x: f64) -> f64 {
    match (a, fwd) {
        (Act::Sigmoid, true) => 1.0 / (1.0 + (-x).exp()),
        (Act::Sigmoid, false) => {
            let y = 1.0 / (1.0 + (-x).exp());
            let z = 1.0 / (1.0 + x.exp());
            y * z
        }
        (Act::Tanh, true) => x.tanh(),
        (Act::Tanh, false) => {
            let t = x.tanh();
            if x.abs() > 15.0 {
                // 1 - tanh^2 cancels; use 4 e^{-2|x|} / (1+e^{-2|x|})^2
                let e = (-2.0 * x.abs()).exp();
                4.0 * e / ((1.0 + e) * (1.0 + e))
            } else {
                1.0 - t * t
            }
        }
        (Act::Leaky, true) => {
            if x > 0.0 {
                x
            } else {
                0.01 * x
            }
        }
        _ => unreachable!(),
    }
}

/// Some(reason) if `got` is not an acceptable value of activation `a` (fwd/bwd) at `x`
fn judge(a: Act, fwd: bool, x: f32, got: f32) -> Option<String> {
    if !got.is_finite() {
        return Some(format!("non-finite result {}", got));
    }
    match (a, fwd) {
        (Act::Linear, true) => (got.to_bits() != x.to_bits()).then(|| "identity changed the value".to_string()),
        (Act::Linear, false) => (got != 1.0).then(|| "derivative of identity is not 1".to_string()),
        (Act::Relu, true) => {
            let ok = if x > 0.0 { got.to_bits() == x.to_bits() } else { got == 0.0 };
            (!ok).then(|| "not max(0,x)".to_string())
        }
        (Act::Relu, false) => {
            let ok = if x > 0.0 {
                got == 1.0
            } else if x < 0.0 {
                got == 0.0
            } else {
                got == 0.0 || got == 1.0
            };
            (!ok).then(|| "not the derivative of max(0,x)".to_string())
        }
        (Act::Leaky, false) => {
            let slope_ok = |g: f32| (g as f64 - 0.01).abs() < 1e-8;
            let ok = if x > 0.0 {
                got == 1.0
            } else if x < 0.0 {
                slope_ok(got)
            } else {
                got == 1.0 || slope_ok(got)
            };
            (!ok).then(|| "not the derivative of leaky ReLU (slope 0.01)".to_string())
        }
        (Act::Leaky, true) if x > 0.0 => (got.to_bits() != x.to_bits()).then(|| "positive input changed".to_string()),
        _ => {
            let r64 = f64_ref(a, fwd, x as f64);
            let r32 = f32_formula(a, fwd, x);
            let floor = match (a, fwd) {
                (Act::Sigmoid, false) => 2.5e-7,
                (Act::Sigmoid, true) => 1e-37,
                (Act::Tanh, false) => 1e-37,
                _ => 3e-45,
            };
            let r32_err = if r32.is_finite() { (r32 as f64 - r64).abs() } else { 0.0 };
            let tol = (4.0 * ulp32(r64 as f32) as f64).max(32.0 * r32_err) + floor;
            if (got as f64 - r64).abs() > tol {
                return Some(format!("expected {:e} (f64 reference), tolerance {:e}", r64, tol));
            }
            if a == Act::Sigmoid && fwd && !(got >= 0.0 && got <= 1.0) {
                return Some("sigmoid outside [0,1]".to_string());
            }
            if a == Act::Tanh && fwd && !(got >= -1.0 && got <= 1.0) {
                return Some("tanh outside [-1,1]".to_string());
            }
            None
        }
    }
}

fn as_triple(xs: &[f32]) -> Tensor {
    // xs.len() is a multiple of 8: shape (2, len/8, 4)
    let h = xs.len() / 8;
    let mut it = xs.iter();
    let data: Vec<Vec<Vec<f32>>> = (0..2).map(|_| (0..h).map(|_| (0..4).map(|_| *it.next().unwrap()).collect()).collect()).collect();
    Tensor { shape: Shape::Triple(2, h, 4), data: Data::Triple(data) }
}

/// all finite values of `bits` through activation `a`, both directions, both ranks
fn check_block(a: Act, bits: &[u32], rep: &mut Report) {
    let mut xs: Vec<f32> = bits.iter().map(|b| f32::from_bits(*b)).filter(|x| x.is_finite()).collect();
    if xs.is_empty() {
        return;
    }
    let real = xs.len();
    while xs.len() % 8 != 0 {
        xs.push(*xs.last().unwrap());
    }
    let f = Function::create(&lib_act(a));
    let case = |x: f32, dir: &str| Kv::new().put("act", a.name()).put("bits", format!("{:#010x}", x.to_bits())).put("dir", dir);
    for fwd in [true, false] {
        let dir = if fwd { "forward" } else { "backward" };
        let tv = Tensor::single(xs.clone());
        let t3 = as_triple(&xs);
        rep.transitions += 2 * real as u64;
        let out = guard(|| if fwd { (f.forward(&tv), f.forward(&t3)) } else { (f.backward(&tv), f.backward(&t3)) });
        let (ov, o3) = match out {
            Ok(o) => o,
            Err(e) => {
                // locate the element
                for &x in xs.iter().take(real) {
                    let one = Tensor::single(vec![x]);
                    if guard(|| if fwd { f.forward(&one) } else { f.backward(&one) }).is_err() {
                        rep.violate(format!("C07 {} {} panics", a.name(), dir), format!("x = {:e}: {}", x, e), &case(x, dir));
                        break;
                    }
                }
                continue;
            }
        };
        let (sv, vv) = match flat(&ov) {
            Ok(x) => x,
            Err(e) => {
                rep.violate(format!("C07 {} {} shape", a.name(), dir), e, &case(xs[0], dir));
                continue;
            }
        };
        if sv != Shape::Single(xs.len()) {
            rep.violate(format!("C07 {} {} shape", a.name(), dir), format!("vector of {} gave {:?}", xs.len(), sv), &case(xs[0], dir));
            continue;
        }
        match flat(&o3) {
            Ok((s3, v3)) => {
                if s3 != t3.shape {
                    rep.violate(format!("C07 {} {} 3-D shape", a.name(), dir), format!("{:?} -> {:?}", t3.shape, s3), &case(xs[0], dir));
                } else if let Some(i) = (0..real).find(|&i| v3[i].to_bits() != vv[i].to_bits() && !(v3[i] == 0.0 && vv[i] == 0.0)) {
                    rep.violate(
                        format!("C07 {} {} 3-D path differs", a.name(), dir),
                        format!("x = {:e}: vector path {:e}, CxHxW path {:e}", xs[i], vv[i], v3[i]),
                        &case(xs[i], dir),
                    );
                }
            }
            Err(e) => rep.violate(format!("C07 {} {} 3-D shape", a.name(), dir), e, &case(xs[0], dir)),
        }
        for i in 0..real {
            if let Some(why) = judge(a, fwd, xs[i], vv[i]) {
                rep.violate(format!("C07 {} {} value", a.name(), dir), format!("x = {:e} ({:#010x}) -> {:e}: {}", xs[i], xs[i].to_bits(), vv[i], why), &case(xs[i], dir));
                break;
            }
        }
    }
    rep.states += real as u64;
}

fn quick_patterns() -> Vec<u32> {
    let mut v = Vec::new();
    let fills: [u32; 8] = [0, 0xFFFF, 0xAAAA, 0x5555, 0x1234, 0xBEEF, 0x7F01, 0x8001];
    for sign in 0..2u32 {
        for exp in 0..255u32 {
            for lead in 0..128u32 {
                for f in fills {
                    v.push((sign << 31) | (exp << 23) | (lead << 16) | f);
                }
            }
        }
    }
    let around = |c: f32, v: &mut Vec<u32>| {
        let b = c.to_bits();
        for d in 0..4096u32 {
            v.push(b.wrapping_add(d));
            v.push(b.wrapping_sub(d));
        }
    };
    for c in [16.6f32, 17.3, 44.4, 87.3, 88.7, 103.9, 9.01, 0.5, 1.0] {
        around(c, &mut v);
        around(-c, &mut v);
    }
    for d in 0..4096u32 {
        v.push(d); // +0 and denormals
        v.push(0x8000_0000 | d);
        v.push(0x7F7F_FFFF - d); // MAX and below
        v.push(0xFF7F_FFFF - d);
        v.push(0x0080_0000 + d); // smallest normals
        v.push(0x8080_0000 + d);
    }
    v.sort_unstable();
    v.dedup();
    v
}

// ------------------------------------------------------------------------------------------------
// soft-max
// ------------------------------------------------------------------------------------------------
const SM: [f32; 14] = [0.0, 0.5, -0.5, 1.0, -1.0, 10.0, -10.0, 88.0, -88.0, 1.0e4, -1.0e4, f32::MAX, -f32::MAX, 1.0e-40];

fn softmax_case(x: &[f32], rep: &mut Report) {
    let f = Function::create(&lib_act(Act::Softmax));
    let n = x.len();
    let case = Kv::new().put("act", "softmax").put("x", x.iter().map(|v| format!("{:e}", v)).collect::<Vec<_>>().join(","));
    rep.states += 1;
    rep.transitions += 1;
    let y = match guard(|| f.forward(&Tensor::single(x.to_vec()))) {
        Ok(t) => t,
        Err(e) => {
            rep.violate("C07 softmax panics", e, &case);
            return;
        }
    };
    let yv = match flat(&y) {
        Ok((Shape::Single(m), v)) if m == n => v,
        Ok((s, _)) => {
            rep.violate("C07 softmax shape", format!("{:?}", s), &case);
            return;
        }
        Err(e) => {
            rep.violate("C07 softmax shape", e, &case);
            return;
        }
    };
    if yv.iter().any(|v| !v.is_finite() || *v < 0.0) {
        rep.violate("C07 softmax non-finite or negative", format!("{:?}", yv), &case);
        return;
    }
    let sum: f64 = yv.iter().map(|v| *v as f64).sum();
    if (sum - 1.0).abs() > 2.0 * n as f64 * f32::EPSILON as f64 {
        rep.violate("C07 softmax does not sum to one", format!("{:?} sums to {}", yv, sum), &case);
        return;
    }
    // reference
    let m = x.iter().cloned().fold(f32::NEG_INFINITY, f32::max) as f64;
    let e: Vec<f64> = x.iter().map(|v| (*v as f64 - m).exp()).collect();
    let s: f64 = e.iter().sum();
    for i in 0..n {
        let r = e[i] / s;
        if (yv[i] as f64 - r).abs() > 1e-6 * r + 1e-37 {
            rep.violate("C07 softmax value", format!("{:?}: component {} = {:e}, reference {:e}", yv, i, yv[i], r), &case);
            return;
        }
    }
    // CxHxW representations
    for (c, h, w) in [(1usize, 1usize, n), (n, 1, 1), (1, n, 1)] {
        rep.transitions += 1;
        let t = crate::libnet::tensor(crate::spec::Dims::Chw(c, h, w), x);
        match guard(|| f.forward(&t)) {
            Ok(o) => match flat(&o) {
                Ok((sh, v)) => {
                    if sh != Shape::Triple(c, h, w) || !crate::util::bits_eq(&v, &yv) {
                        rep.violate("C07 softmax 3-D path differs", format!("{:?} as {}x{}x{} -> {:?} {:?}", x, c, h, w, sh, v), &case);
                        return;
                    }
                }
                Err(e) => {
                    rep.violate("C07 softmax 3-D shape", e, &case);
                    return;
                }
            },
            Err(e) => {
                rep.violate("C07 softmax 3-D panics", e, &case);
                return;
            }
        }
    }
    // shift invariance for exact shifts
    for c in [1.0f32, -1.0, 64.0, -64.0, 1048576.0] {
        let shifted: Vec<f32> = x.iter().map(|v| v + c).collect();
        let exact = x.iter().zip(&shifted).all(|(v, s)| s.is_finite() && (*s as f64) == (*v as f64 + c as f64));
        if !exact {
            continue;
        }
        rep.transitions += 1;
        rep.count("softmax_shift_cases", 1);
        match guard(|| f.forward(&Tensor::single(shifted.clone()))) {
            Ok(o) => match flat(&o) {
                Ok((_, v)) => {
                    if !crate::util::bits_eq(&v, &yv) {
                        rep.violate("C07 softmax not shift-invariant", format!("softmax({:?}) = {:?} but softmax(x + {}) = {:?}", x, yv, c, v), &case);
                        return;
                    }
                }
                Err(e) => rep.violate("C07 softmax shape", e, &case),
            },
            Err(e) => rep.violate("C07 softmax panics", e, &case),
        }
    }
}

fn softmax_all() -> Report {
    let mut vecs: Vec<Vec<f32>> = Vec::new();
    for n in 1..=4usize {
        let total = 14usize.pow(n as u32);
        for mut code in 0..total {
            let mut v = Vec::with_capacity(n);
            for _ in 0..n {
                v.push(SM[code % 14]);
                code /= 14;
            }
            vecs.push(v);
        }
    }
    // longer vectors (10 classes, lengths around 8 / 16 / 32 / 64, 100, 1003): alphabet cycled with every rotation,
    // one large logit at every position, all-negative vectors
    for n in [5usize, 7, 8, 9, 10, 12, 15, 16, 17, 31, 33, 64, 65, 100, 1003] {
        for rot in 0..14usize {
            for stride in [1usize, 3, 5] {
                vecs.push((0..n).map(|e| SM[(rot + e * stride) % 14]).collect());
            }
        }
        for big in [100.0f32, 1.0e4, f32::MAX] {
            for p in (0..n).filter(|p| n <= 17 || *p < 3 || *p + 9 >= n || *p % 8 == 0) {
                let mut v = vec![0.0f32; n];
                v[p] = big;
                vecs.push(v.clone());
                let mut v = vec![-big; n];
                v[p] = -0.5 * big;
                vecs.push(v);
            }
        }
    }
    let chunks: Vec<&[Vec<f32>]> = vecs.chunks(512).collect();
    let parts = par_map(&chunks, |_, c| {
        let mut r = Report::new();
        for v in c.iter() {
            softmax_case(v, &mut r);
        }
        r
    });
    let mut rep = Report::new();
    rep.merge_all(parts);
    rep.count("softmax_vectors", vecs.len() as u64);
    rep
}

pub fn run(ctx: &Ctx) -> Report {
    let mut rep = Report::new();
    if ctx.tier.thorough() {
        // 2^32 patterns in blocks of 2^18
        let blocks: Vec<u32> = (0..(1u32 << 14)).collect();
        let parts = par_map(&blocks, |_, b| {
            let mut r = Report::new();
            let base = (*b as u64) << 18;
            let bits: Vec<u32> = (0..(1u64 << 18)).map(|i| (base + i) as u32).collect();
            for a in E5 {
                check_block(a, &bits, &mut r);
            }
            r
        });
        rep.merge_all(parts);
    } else {
        let pats = quick_patterns();
        let chunks: Vec<&[u32]> = pats.chunks(1 << 14).collect();
        let parts = par_map(&chunks, |_, c| {
            let mut r = Report::new();
            for a in E5 {
                check_block(a, c, &mut r);
            }
            r
        });
        rep.merge_all(parts);
        rep.count("patterns", pats.len() as u64);
    }
    rep.merge(softmax_all());
    rep.evaluations = rep.transitions;
    rep.nontrivial = rep.states;
    rep.traces_validated = rep.states;
    rep.sample(Kv::new().put("act", "sigmoid").put("bits", "0xc2b00000").put("dir", "backward").to_json());
    rep.sample(Kv::new().put("act", "tanh").put("bits", "0x42319999").put("dir", "backward").to_json());
    rep.sample(Kv::new().put("act", "softmax").put("x", "3.4028235e38,-3.4028235e38,1e-40").to_json());
    rep.notes.insert("activations".into(), Json::s("relu,leaky,sigmoid,tanh,linear,softmax"));
    rep
}

pub fn replay(_ctx: &Ctx, case: &Kv) -> Report {
    let mut rep = Report::new();
    if case.get("act") == "softmax" {
        let x: Vec<f32> = case.get("x").split(',').map(|s| s.parse().unwrap()).collect();
        softmax_case(&x, &mut rep);
    } else {
        let bits = u32::from_str_radix(case.get("bits").trim_start_matches("0x"), 16).unwrap();
        check_block(Act::parse(case.get("act")), &[bits], &mut rep);
    }
    rep
}
