pub mod c14;
pub mod c15;
pub mod c18;
