pub mod c14;
