pub mod c02;
pub mod c03;
pub mod c06;
pub mod c07;
pub mod c08;
pub mod c14;
pub mod c15;
pub mod c18;
