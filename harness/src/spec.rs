//! Vocabulary shared by the library builder and the reference interpreter: network descriptions,
//! their textual form (used in case descriptors / replay files) and parameter containers.

#[derive(Clone, Copy, PartialEq, Eq, Debug, Hash)]
pub enum Act {
    Linear,
    Relu,
    Leaky,
    Sigmoid,
    Tanh,
    Softmax,
}
pub const E5: [Act; 5] = [Act::Linear, Act::Relu, Act::Leaky, Act::Sigmoid, Act::Tanh];

impl Act {
    pub fn name(&self) -> &'static str {
        match self {
            Act::Linear => "linear",
            Act::Relu => "relu",
            Act::Leaky => "leaky",
            Act::Sigmoid => "sigmoid",
            Act::Tanh => "tanh",
            Act::Softmax => "softmax",
        }
    }
    pub fn parse(s: &str) -> Act {
        match s {
            "linear" => Act::Linear,
            "relu" => Act::Relu,
            "leaky" => Act::Leaky,
            "sigmoid" => Act::Sigmoid,
            "tanh" => Act::Tanh,
            "softmax" => Act::Softmax,
            _ => panic!("unknown activation {:?}", s),
        }
    }
    pub fn exact(&self) -> bool {
        matches!(self, Act::Linear | Act::Relu)
    }
}

#[derive(Clone, Copy, PartialEq, Eq, Debug, Hash)]
pub enum Acc {
    Add,
    Sub,
    Mul,
    Mean,
    Over,
}
pub const A5: [Acc; 5] = [Acc::Add, Acc::Sub, Acc::Mul, Acc::Mean, Acc::Over];
impl Acc {
    pub fn name(&self) -> &'static str {
        match self {
            Acc::Add => "add",
            Acc::Sub => "sub",
            Acc::Mul => "mul",
            Acc::Mean => "mean",
            Acc::Over => "over",
        }
    }
    pub fn parse(s: &str) -> Acc {
        match s {
            "add" => Acc::Add,
            "sub" => Acc::Sub,
            "mul" => Acc::Mul,
            "mean" => Acc::Mean,
            "over" => Acc::Over,
            _ => panic!("unknown accumulation {:?}", s),
        }
    }
}

#[derive(Clone, Copy, PartialEq, Eq, Debug, Hash)]
pub enum Dims {
    Flat(usize),
    Chw(usize, usize, usize),
}
impl Dims {
    pub fn count(&self) -> usize {
        match self {
            Dims::Flat(n) => *n,
            Dims::Chw(c, h, w) => c * h * w,
        }
    }
    pub fn name(&self) -> String {
        match self {
            Dims::Flat(n) => format!("{}", n),
            Dims::Chw(c, h, w) => format!("{}x{}x{}", c, h, w),
        }
    }
    pub fn parse(s: &str) -> Dims {
        let p: Vec<usize> = s.split('x').map(|x| x.parse().unwrap()).collect();
        match p.len() {
            1 => Dims::Flat(p[0]),
            3 => Dims::Chw(p[0], p[1], p[2]),
            _ => panic!("bad dims {:?}", s),
        }
    }
    pub fn flat(&self) -> Dims {
        Dims::Flat(self.count())
    }
    pub fn is_flat(&self) -> bool {
        matches!(self, Dims::Flat(_))
    }
}

pub type P2 = (usize, usize);

#[derive(Clone, PartialEq, Debug)]
pub enum L {
    Dense { n: usize, act: Act, bias: bool, drop: Option<f32> },
    Conv { f: usize, k: P2, s: P2, p: P2, d: P2, act: Act, drop: Option<f32> },
    Deconv { f: usize, k: P2, s: P2, p: P2, act: Act, drop: Option<f32> },
    Pool { k: P2, s: P2 },
    Fb { layers: Vec<L>, loops: usize, inskips: bool, outskips: bool, acc: Acc },
}

fn p2(p: P2) -> String {
    format!("{}x{}", p.0, p.1)
}
fn parse_p2(s: &str) -> P2 {
    let mut it = s.split('x');
    (it.next().unwrap().parse().unwrap(), it.next().unwrap().parse().unwrap())
}
fn drop_name(d: &Option<f32>) -> String {
    match d {
        None => "d0".to_string(),
        Some(r) => format!("d{}", (r * 100.0).round() as i32),
    }
}
fn parse_drop(s: &str) -> Option<f32> {
    let n: i32 = s[1..].parse().unwrap();
    if n == 0 {
        None
    } else {
        Some(n as f32 / 100.0)
    }
}

impl L {
    pub fn name(&self) -> String {
        match self {
            L::Dense { n, act, bias, drop } => {
                format!("dense:{}:{}:b{}:{}", n, act.name(), *bias as u8, drop_name(drop))
            }
            L::Conv { f, k, s, p, d, act, drop } => format!(
                "conv:f{}:k{}:s{}:p{}:d{}:{}:{}",
                f,
                p2(*k),
                p2(*s),
                p2(*p),
                p2(*d),
                act.name(),
                drop_name(drop)
            ),
            L::Deconv { f, k, s, p, act, drop } => {
                format!("deconv:f{}:k{}:s{}:p{}:{}:{}", f, p2(*k), p2(*s), p2(*p), act.name(), drop_name(drop))
            }
            L::Pool { k, s } => format!("pool:k{}:s{}", p2(*k), p2(*s)),
            L::Fb { layers, loops, inskips, outskips, acc } => format!(
                "fb[{}]:L{}:i{}:o{}:{}",
                layers.iter().map(|l| l.name()).collect::<Vec<_>>().join(";"),
                loops,
                *inskips as u8,
                *outskips as u8,
                acc.name()
            ),
        }
    }
    pub fn parse(s: &str) -> L {
        if let Some(rest) = s.strip_prefix("fb[") {
            let close = rest.rfind(']').expect("fb]");
            let inner = &rest[..close];
            let tail: Vec<&str> = rest[close + 1..].split(':').filter(|x| !x.is_empty()).collect();
            return L::Fb {
                layers: inner.split(';').map(L::parse).collect(),
                loops: tail[0][1..].parse().unwrap(),
                inskips: &tail[1][1..] == "1",
                outskips: &tail[2][1..] == "1",
                acc: Acc::parse(tail[3]),
            };
        }
        let t: Vec<&str> = s.split(':').collect();
        match t[0] {
            "dense" => L::Dense {
                n: t[1].parse().unwrap(),
                act: Act::parse(t[2]),
                bias: t[3] == "b1",
                drop: parse_drop(t[4]),
            },
            "conv" => L::Conv {
                f: t[1][1..].parse().unwrap(),
                k: parse_p2(&t[2][1..]),
                s: parse_p2(&t[3][1..]),
                p: parse_p2(&t[4][1..]),
                d: parse_p2(&t[5][1..]),
                act: Act::parse(t[6]),
                drop: parse_drop(t[7]),
            },
            "deconv" => L::Deconv {
                f: t[1][1..].parse().unwrap(),
                k: parse_p2(&t[2][1..]),
                s: parse_p2(&t[3][1..]),
                p: parse_p2(&t[4][1..]),
                act: Act::parse(t[5]),
                drop: parse_drop(t[6]),
            },
            "pool" => L::Pool { k: parse_p2(&t[1][1..]), s: parse_p2(&t[2][1..]) },
            _ => panic!("unknown layer {:?}", s),
        }
    }
    pub fn kind(&self) -> &'static str {
        match self {
            L::Dense { .. } => "dense",
            L::Conv { .. } => "conv",
            L::Deconv { .. } => "deconv",
            L::Pool { .. } => "pool",
            L::Fb { .. } => "fb",
        }
    }
    pub fn act(&self) -> Option<Act> {
        match self {
            L::Dense { act, .. } | L::Conv { act, .. } | L::Deconv { act, .. } => Some(*act),
            _ => None,
        }
    }
    pub fn has_dropout(&self) -> bool {
        match self {
            L::Dense { drop, .. } | L::Conv { drop, .. } | L::Deconv { drop, .. } => drop.is_some(),
            L::Pool { .. } => false,
            L::Fb { layers, .. } => layers.iter().any(|l| l.has_dropout()),
        }
    }
    pub fn without_dropout(&self) -> L {
        let mut l = self.clone();
        match &mut l {
            L::Dense { drop, .. } | L::Conv { drop, .. } | L::Deconv { drop, .. } => *drop = None,
            L::Pool { .. } => (),
            L::Fb { layers, .. } => {
                for x in layers.iter_mut() {
                    *x = x.without_dropout();
                }
            }
        }
        l
    }
}

#[derive(Clone, Debug, PartialEq)]
pub struct Net {
    pub input: Dims,
    pub layers: Vec<L>,
    /// skip connections (infrom, into) in call order
    pub connects: Vec<(usize, usize)>,
    /// loop connections (outof, into, iterations, inskips)
    pub loopbacks: Vec<(usize, usize, usize, bool)>,
    pub skipacc: Acc,
    pub loopacc: Acc,
}

impl Net {
    pub fn new(input: Dims, layers: Vec<L>) -> Net {
        Net { input, layers, connects: Vec::new(), loopbacks: Vec::new(), skipacc: Acc::Add, loopacc: Acc::Mean }
    }
    pub fn name(&self) -> String {
        let mut s = format!("{}|{}", self.input.name(), self.layers.iter().map(|l| l.name()).collect::<Vec<_>>().join("|"));
        if !self.connects.is_empty() {
            s.push_str(&format!(
                "|connect:{}:{}",
                self.skipacc.name(),
                self.connects.iter().map(|(a, b)| format!("{}>{}", a, b)).collect::<Vec<_>>().join(",")
            ));
        }
        if self.connects.is_empty() && self.skipacc != Acc::Add {
            s.push_str(&format!("|skipacc:{}", self.skipacc.name()));
        }
        if !self.loopbacks.is_empty() {
            s.push_str(&format!(
                "|loop:{}:{}",
                self.loopacc.name(),
                self.loopbacks
                    .iter()
                    .map(|(o, i, k, sk)| format!("{}>{}*{}{}", o, i, k, if *sk { "+" } else { "" }))
                    .collect::<Vec<_>>()
                    .join(",")
            ));
        }
        s
    }
    pub fn parse(s: &str) -> Net {
        // split on top-level '|' (none occur inside fb[...])
        let parts: Vec<&str> = s.split('|').collect();
        let mut net = Net::new(Dims::parse(parts[0]), Vec::new());
        for p in &parts[1..] {
            if let Some(r) = p.strip_prefix("connect:") {
                let (acc, list) = r.split_once(':').unwrap();
                net.skipacc = Acc::parse(acc);
                for c in list.split(',') {
                    let (a, b) = c.split_once('>').unwrap();
                    net.connects.push((a.parse().unwrap(), b.parse().unwrap()));
                }
            } else if let Some(r) = p.strip_prefix("skipacc:") {
                net.skipacc = Acc::parse(r);
            } else if let Some(r) = p.strip_prefix("loop:") {
                let (acc, list) = r.split_once(':').unwrap();
                net.loopacc = Acc::parse(acc);
                for c in list.split(',') {
                    let sk = c.ends_with('+');
                    let c = c.trim_end_matches('+');
                    let (o, rest) = c.split_once('>').unwrap();
                    let (i, k) = rest.split_once('*').unwrap();
                    net.loopbacks.push((o.parse().unwrap(), i.parse().unwrap(), k.parse().unwrap(), sk));
                }
            } else {
                net.layers.push(L::parse(p));
            }
        }
        net
    }
    pub fn without_dropout(&self) -> Net {
        let mut n = self.clone();
        n.layers = n.layers.iter().map(|l| l.without_dropout()).collect();
        n
    }
}

/// Parameters of one layer, generic over the scalar; mirrors neurons::verif::LayerParams.
/// dense: w = [row-major out x in]; conv/deconv: w = one row-major (c,kh,kw) block per filter.
#[derive(Clone, Debug)]
pub struct P<N> {
    pub w: Vec<Vec<N>>,
    pub b: Option<Vec<N>>,
    pub inner: Vec<P<N>>,
}

impl<N: Copy> P<N> {
    pub fn empty() -> P<N> {
        P { w: Vec::new(), b: None, inner: Vec::new() }
    }
    pub fn map<M>(&self, f: &impl Fn(N) -> M) -> P<M> {
        P {
            w: self.w.iter().map(|v| v.iter().map(|x| f(*x)).collect()).collect(),
            b: self.b.as_ref().map(|v| v.iter().map(|x| f(*x)).collect()),
            inner: self.inner.iter().map(|p| p.map(f)).collect(),
        }
    }
    /// all scalars in a fixed order (w blocks, then bias, then inner)
    pub fn flat(&self) -> Vec<N> {
        let mut out = Vec::new();
        for v in &self.w {
            out.extend(v.iter().copied());
        }
        if let Some(b) = &self.b {
            out.extend(b.iter().copied());
        }
        for p in &self.inner {
            out.extend(p.flat());
        }
        out
    }
    pub fn len(&self) -> usize {
        self.w.iter().map(|v| v.len()).sum::<usize>()
            + self.b.as_ref().map(|b| b.len()).unwrap_or(0)
            + self.inner.iter().map(|p| p.len()).sum::<usize>()
    }
    /// mutable access to the i-th scalar in `flat` order
    pub fn at_mut(&mut self, mut i: usize) -> &mut N {
        for v in self.w.iter_mut() {
            if i < v.len() {
                return &mut v[i];
            }
            i -= v.len();
        }
        if let Some(b) = self.b.as_mut() {
            if i < b.len() {
                return &mut b[i];
            }
            i -= b.len();
        }
        for p in self.inner.iter_mut() {
            let n = p.len();
            if i < n {
                return p.at_mut(i);
            }
            i -= n;
        }
        panic!("P::at_mut out of range")
    }
}
