//! Shared plumbing: case descriptors, deterministic data, panic capture, stdout diversion, parallel map.
use crate::json::Json;
use std::collections::BTreeMap;
use std::io::Write;
use std::panic::{catch_unwind, AssertUnwindSafe};
use std::sync::atomic::{AtomicI32, Ordering};

// ---------------------------------------------------------------------------------------------
// Case descriptor: ordered key=value map (what is enumerated, what a replay file stores).
// ---------------------------------------------------------------------------------------------
#[derive(Clone, Debug, Default, PartialEq)]
pub struct Kv(pub BTreeMap<String, String>);

impl Kv {
    pub fn new() -> Kv {
        Kv(BTreeMap::new())
    }
    pub fn put(mut self, k: &str, v: impl ToString) -> Kv {
        self.0.insert(k.to_string(), v.to_string());
        self
    }
    pub fn set(&mut self, k: &str, v: impl ToString) {
        self.0.insert(k.to_string(), v.to_string());
    }
    pub fn get(&self, k: &str) -> &str {
        self.0.get(k).map(|s| s.as_str()).unwrap_or_else(|| panic!("case has no key {:?}: {:?}", k, self.0))
    }
    pub fn opt(&self, k: &str) -> Option<&str> {
        self.0.get(k).map(|s| s.as_str())
    }
    pub fn usize(&self, k: &str) -> usize {
        self.get(k).parse().unwrap_or_else(|_| panic!("case key {:?} not usize: {:?}", k, self.get(k)))
    }
    pub fn u64(&self, k: &str) -> u64 {
        self.get(k).parse().unwrap_or_else(|_| panic!("case key {:?} not u64", k))
    }
    pub fn i64(&self, k: &str) -> i64 {
        self.get(k).parse().unwrap_or_else(|_| panic!("case key {:?} not i64", k))
    }
    pub fn f32(&self, k: &str) -> f32 {
        self.get(k).parse().unwrap_or_else(|_| panic!("case key {:?} not f32", k))
    }
    pub fn bool(&self, k: &str) -> bool {
        matches!(self.get(k), "1" | "true")
    }
    /// "2x3" -> (2,3)
    pub fn pair(&self, k: &str) -> (usize, usize) {
        let s = self.get(k);
        let mut it = s.split('x');
        (it.next().unwrap().parse().unwrap(), it.next().unwrap().parse().unwrap())
    }
    pub fn list(&self, k: &str) -> Vec<String> {
        let s = self.get(k);
        if s.is_empty() {
            Vec::new()
        } else {
            s.split(',').map(|x| x.to_string()).collect()
        }
    }
    pub fn to_json(&self) -> Json {
        Json::Obj(self.0.iter().map(|(k, v)| (k.clone(), Json::Str(v.clone()))).collect())
    }
    pub fn from_json(j: &Json) -> Kv {
        let mut m = BTreeMap::new();
        if let Json::Obj(o) = j {
            for (k, v) in o {
                m.insert(
                    k.clone(),
                    match v {
                        Json::Str(s) => s.clone(),
                        other => other.dump(),
                    },
                );
            }
        }
        Kv(m)
    }
    pub fn short(&self) -> String {
        self.0.iter().map(|(k, v)| format!("{}={}", k, v)).collect::<Vec<_>>().join(" ")
    }
}

pub fn pr(p: (usize, usize)) -> String {
    format!("{}x{}", p.0, p.1)
}

// ---------------------------------------------------------------------------------------------
// Deterministic data: SplitMix64
// ---------------------------------------------------------------------------------------------
#[derive(Clone)]
pub struct Rng(pub u64);
impl Rng {
    pub fn new(seed: u64, stream: u64) -> Rng {
        let mut r = Rng(seed ^ stream.wrapping_mul(0x9E3779B97F4A7C15).rotate_left(17) ^ 0xD1B54A32D192ED03);
        r.next();
        r
    }
    pub fn next(&mut self) -> u64 {
        self.0 = self.0.wrapping_add(0x9E3779B97F4A7C15);
        let mut z = self.0;
        z = (z ^ (z >> 30)).wrapping_mul(0xBF58476D1CE4E5B9);
        z = (z ^ (z >> 27)).wrapping_mul(0x94D049BB133111EB);
        z ^ (z >> 31)
    }
    pub fn below(&mut self, n: usize) -> usize {
        (self.next() % n as u64) as usize
    }
    pub fn pick<'a, T>(&mut self, xs: &'a [T]) -> &'a T {
        &xs[self.below(xs.len())]
    }
    /// uniform in [lo,hi) on a 2^-10 grid (exactly representable in f32 for |x|<8)
    pub fn grid(&mut self, lo: f32, hi: f32) -> f32 {
        let steps = ((hi - lo) * 1024.0) as usize;
        lo + (self.below(steps.max(1)) as f32) / 1024.0
    }
    /// generic non-dyadic float in [lo,hi)
    pub fn float(&mut self, lo: f32, hi: f32) -> f32 {
        let u = (self.next() >> 40) as f32 / (1u64 << 24) as f32;
        lo + (hi - lo) * u
    }
    /// magnitude in [lo,hi) with random sign
    pub fn signed(&mut self, lo: f32, hi: f32) -> f32 {
        let m = self.float(lo, hi);
        if self.next() & 1 == 0 {
            m
        } else {
            -m
        }
    }
}

pub fn fnv(s: &str) -> u64 {
    let mut h: u64 = 0xcbf29ce484222325;
    for b in s.bytes() {
        h ^= b as u64;
        h = h.wrapping_mul(0x100000001b3);
    }
    h
}

// ---------------------------------------------------------------------------------------------
// Panic capture
// ---------------------------------------------------------------------------------------------
pub fn silence_panics() {
    if std::env::var_os("VERIF_SHOW_PANICS").is_some() {
        return; // development aid: keep the default hook so that a panic of the harness itself shows its location
    }
    std::panic::set_hook(Box::new(|_| {}));
}

/// Run `f`, turning a panic into Err(message).
pub fn guard<T>(f: impl FnOnce() -> T) -> Result<T, String> {
    match catch_unwind(AssertUnwindSafe(f)) {
        Ok(v) => Ok(v),
        Err(e) => Err(if let Some(s) = e.downcast_ref::<&str>() {
            s.to_string()
        } else if let Some(s) = e.downcast_ref::<String>() {
            s.clone()
        } else {
            "panic (non-string payload)".to_string()
        }),
    }
}

pub fn first_line(s: &str) -> String {
    let l = s.lines().next().unwrap_or("");
    if l.len() > 160 {
        format!("{}...", &l[..l.char_indices().take_while(|(i, _)| *i < 160).last().map(|(i, _)| i).unwrap_or(0)])
    } else {
        l.to_string()
    }
}

// ---------------------------------------------------------------------------------------------
// stdout diversion: the library prints from learn(); our own output goes to the saved descriptor.
// ---------------------------------------------------------------------------------------------
extern "C" {
    fn dup(fd: i32) -> i32;
    fn dup2(a: i32, b: i32) -> i32;
    fn open(path: *const std::os::raw::c_char, flags: i32, ...) -> i32;
    fn write(fd: i32, buf: *const u8, n: usize) -> isize;
}
static REAL_STDOUT: AtomicI32 = AtomicI32::new(1);

pub fn divert_stdout() {
    unsafe {
        let _ = std::io::stdout().flush();
        let saved = dup(1);
        let null = open(b"/dev/null\0".as_ptr() as *const _, 1);
        if saved >= 0 && null >= 0 {
            dup2(null, 1);
            REAL_STDOUT.store(saved, Ordering::SeqCst);
        }
    }
}

pub fn say(s: &str) {
    let fd = REAL_STDOUT.load(Ordering::SeqCst);
    let mut line = s.to_string();
    line.push('\n');
    let b = line.as_bytes();
    let mut off = 0;
    while off < b.len() {
        let n = unsafe { write(fd, b[off..].as_ptr(), b.len() - off) };
        if n <= 0 {
            break;
        }
        off += n as usize;
    }
}

#[macro_export]
macro_rules! say {
    ($($arg:tt)*) => { $crate::util::say(&format!($($arg)*)) };
}

// ---------------------------------------------------------------------------------------------
// Parallel map with deterministic result order (static interleaved partition over N threads).
// ---------------------------------------------------------------------------------------------
pub fn threads() -> usize {
    std::env::var("VERIF_THREADS").ok().and_then(|s| s.parse().ok()).unwrap_or_else(|| {
        std::thread::available_parallelism().map(|n| n.get()).unwrap_or(4).min(16)
    })
}

pub fn par_map<T: Sync, R: Send>(items: &[T], f: impl Fn(usize, &T) -> R + Sync) -> Vec<R> {
    let n = threads().max(1).min(items.len().max(1));
    let mut slots: Vec<Option<R>> = (0..items.len()).map(|_| None).collect();
    if n <= 1 {
        for (i, it) in items.iter().enumerate() {
            slots[i] = Some(f(i, it));
        }
    } else {
        let parts: Vec<Vec<(usize, R)>> = std::thread::scope(|sc| {
            let hs: Vec<_> = (0..n)
                .map(|t| {
                    let f = &f;
                    sc.spawn(move || {
                        let mut out = Vec::new();
                        let mut i = t;
                        while i < items.len() {
                            out.push((i, f(i, &items[i])));
                            i += n;
                        }
                        out
                    })
                })
                .collect();
            hs.into_iter().map(|h| h.join().expect("worker thread panicked outside guard")).collect()
        });
        for p in parts {
            for (i, r) in p {
                slots[i] = Some(r);
            }
        }
    }
    slots.into_iter().map(|s| s.unwrap()).collect()
}

// ---------------------------------------------------------------------------------------------
// float helpers
// ---------------------------------------------------------------------------------------------
pub fn ulp32(x: f32) -> f32 {
    if !x.is_finite() {
        return f32::NAN;
    }
    let a = x.abs();
    if a == 0.0 {
        return f32::from_bits(1);
    }
    let b = a.to_bits();
    f32::from_bits(b + 1) - a
}

pub fn bits_eq(a: &[f32], b: &[f32]) -> bool {
    a.len() == b.len() && a.iter().zip(b).all(|(x, y)| x.to_bits() == y.to_bits())
}

/// a == b as numbers (so -0 == 0) or both NaN
pub fn num_eq(a: f32, b: f32) -> bool {
    a == b || (a.is_nan() && b.is_nan())
}

pub fn fmt_vec(v: &[f32]) -> String {
    let mut s = String::from("[");
    for (i, x) in v.iter().enumerate() {
        if i > 0 {
            s.push_str(", ");
        }
        if i >= 24 {
            s.push_str(&format!("... ({} total)", v.len()));
            break;
        }
        s.push_str(&format!("{}", x));
    }
    s.push(']');
    s
}
