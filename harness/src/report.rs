//! Coverage accounting, violations, known findings, evidence and replay files.
use crate::json::Json;
use crate::util::{fnv, Kv};
use std::collections::BTreeMap;

#[derive(Clone, Copy, PartialEq, Debug)]
pub enum Tier {
    Quick,
    Thorough,
}
impl Tier {
    pub fn name(&self) -> &'static str {
        match self {
            Tier::Quick => "quick",
            Tier::Thorough => "thorough",
        }
    }
    pub fn thorough(&self) -> bool {
        *self == Tier::Thorough
    }
}

pub struct Ctx {
    pub prop: String,
    pub tier: Tier,
    pub seed: u64,
    pub root: String,
    pub verbose: bool,
}

#[derive(Clone, Debug)]
pub struct Violation {
    /// finding key: call site + failing condition class (what known_findings.json lists)
    pub key: String,
    pub what: String,
    pub case: Kv,
}

#[derive(Default)]
pub struct Report {
    pub states: u64,
    pub transitions: u64,
    pub evaluations: u64,
    pub nontrivial: u64,
    pub traces_validated: u64,
    pub samples: Vec<Json>,
    pub violations: Vec<Violation>,
    pub violation_count: u64,
    pub counters: BTreeMap<String, u64>,
    pub notes: BTreeMap<String, Json>,
    pub caps: Vec<String>,
}

const MAX_KEPT_VIOLATIONS: usize = 400;

impl Report {
    pub fn new() -> Report {
        Report::default()
    }
    pub fn count(&mut self, name: &str, n: u64) {
        *self.counters.entry(name.to_string()).or_insert(0) += n;
    }
    pub fn violate(&mut self, key: impl Into<String>, what: impl Into<String>, case: &Kv) {
        self.violation_count += 1;
        let key = key.into();
        // keep the first case per key (the smallest in enumeration order) plus a bounded tail
        let have = self.violations.iter().filter(|v| v.key == key).count();
        if have < 3 && self.violations.len() < MAX_KEPT_VIOLATIONS {
            self.violations.push(Violation { key, what: what.into(), case: case.clone() });
        }
    }
    pub fn sample(&mut self, j: Json) {
        if self.samples.len() < 6 {
            self.samples.push(j);
        }
    }
    pub fn merge(&mut self, o: Report) {
        self.states += o.states;
        self.transitions += o.transitions;
        self.evaluations += o.evaluations;
        self.nontrivial += o.nontrivial;
        self.traces_validated += o.traces_validated;
        self.violation_count += o.violation_count;
        for s in o.samples {
            self.sample(s);
        }
        for v in o.violations {
            let have = self.violations.iter().filter(|x| x.key == v.key).count();
            if have < 3 && self.violations.len() < MAX_KEPT_VIOLATIONS {
                self.violations.push(v);
            }
        }
        for (k, n) in o.counters {
            *self.counters.entry(k).or_insert(0) += n;
        }
        for (k, n) in o.notes {
            self.notes.entry(k).or_insert(n);
        }
        for c in o.caps {
            if !self.caps.contains(&c) {
                self.caps.push(c);
            }
        }
    }
    pub fn merge_all(&mut self, parts: Vec<Report>) {
        for p in parts {
            self.merge(p);
        }
    }
}

/// Static description of a check, filled by the property module.
pub struct Meta {
    pub rule: String,
    pub bound: String,
    pub exhaustive: bool,
    pub assumptions: Vec<String>,
}

pub struct Findings {
    pub open: Vec<(String, String, String)>,  // (property, key, what)
    pub fixed: Vec<(String, String, String)>, // (property, key, commit+what)
}

pub fn load_findings(root: &str) -> Findings {
    let path = format!("{}/known_findings.json", root);
    let mut f = Findings { open: Vec::new(), fixed: Vec::new() };
    let text = match std::fs::read_to_string(&path) {
        Ok(t) => t,
        Err(_) => return f,
    };
    let j = Json::parse(&text).unwrap_or_else(|e| {
        eprintln!("machinery error: cannot parse {}: {}", path, e);
        std::process::exit(3);
    });
    let field = |e: &Json, k: &str| e.get(k).and_then(|x| x.as_str()).unwrap_or("").to_string();
    if let Some(a) = j.get("open").and_then(|x| x.as_arr()) {
        for e in a {
            f.open.push((field(e, "property"), field(e, "key"), field(e, "what")));
        }
    }
    if let Some(a) = j.get("fixed").and_then(|x| x.as_arr()) {
        for e in a {
            f.fixed.push((field(e, "property"), field(e, "key"), format!("{} {}", field(e, "commit"), field(e, "what"))));
        }
    }
    f
}

/// Prints KNOWN-FINDING / VIOLATION lines, writes replay files and the evidence file.
/// Returns the process exit code.
pub fn finish(ctx: &Ctx, meta: &Meta, rep: &Report, wall_s: f64) -> i32 {
    let findings = load_findings(&ctx.root);
    let mut by_key: Vec<(String, Vec<&Violation>)> = Vec::new();
    for v in &rep.violations {
        if let Some(e) = by_key.iter_mut().find(|(k, _)| *k == v.key) {
            e.1.push(v);
        } else {
            by_key.push((v.key.clone(), vec![v]));
        }
    }
    let mut new_violations = 0;
    let mut known = 0;
    let mut printed = 0;
    let _ = std::fs::create_dir_all(format!("{}/replays", ctx.root));
    for (key, vs) in &by_key {
        if let Some((_, _, what)) = findings.open.iter().find(|(p, k, _)| *p == ctx.prop && k == key) {
            crate::say!("KNOWN-FINDING: property={} {} [{}] e.g. {}", ctx.prop, what, key, vs[0].case.short());
            known += 1;
            continue;
        }
        new_violations += 1;
        let v = vs[0];
        let h = fnv(&format!("{}|{}|{}", ctx.prop, key, v.case.short()));
        let path = format!("{}/replays/{}-{:016x}.json", ctx.root, ctx.prop, h);
        let j = Json::obj()
            .with("property", Json::s(ctx.prop.clone()))
            .with("key", Json::s(key.clone()))
            .with("what", Json::s(v.what.clone()))
            .with("case", v.case.to_json())
            .with("tier", Json::s(ctx.tier.name()))
            .with("seed", Json::i(ctx.seed as i64))
            .with("replay_cmd", Json::s(format!("./check {} --replay {}", ctx.prop, path)));
        if let Err(e) = std::fs::write(&path, j.pretty()) {
            eprintln!("machinery error: cannot write replay {}: {}", path, e);
        }
        if printed < 20 {
            crate::say!("VIOLATION property={} replay={}", ctx.prop, path);
            crate::say!("  key: {}\n  what: {}\n  case: {}", key, v.what, v.case.short());
            printed += 1;
        }
    }

    // evidence
    let mut cov = Json::obj();
    cov.set("states", Json::i(rep.states.max(0)));
    cov.set("transitions", Json::i(rep.transitions));
    cov.set("traces_validated_against_impl", Json::i(rep.traces_validated));
    cov.set("evaluations", Json::i(rep.evaluations));
    cov.set("distinct_nontrivial", Json::i(rep.nontrivial));
    cov.set("rule", Json::s(meta.rule.clone()));
    cov.set("bound", Json::s(meta.bound.clone()));
    cov.set("exhaustive", Json::Bool(meta.exhaustive && rep.caps.is_empty()));
    cov.set("caps_hit", Json::Arr(rep.caps.iter().map(|c| Json::s(c.clone())).collect()));
    cov.set(
        "samples",
        Json::Arr(if rep.samples.is_empty() { vec![Json::s("(no case explored)")] } else { rep.samples.clone() }),
    );
    cov.set("counters", Json::Obj(rep.counters.iter().map(|(k, v)| (k.clone(), Json::i(*v))).collect()));
    for (k, v) in &rep.notes {
        cov.set(k, v.clone());
    }
    cov.set("known_findings_reported", Json::i(known as i64));
    let ev = Json::obj()
        .with("property_id", Json::s(ctx.prop.clone()))
        .with("tier", Json::s(ctx.tier.name()))
        .with("seed", Json::i(ctx.seed as i64))
        .with("level", Json::s("model_checking"))
        .with("coverage", cov)
        .with("assumptions", Json::Arr(meta.assumptions.iter().map(|a| Json::s(a.clone())).collect()))
        .with("wall_s", Json::Num((wall_s * 1000.0).round() / 1000.0))
        .with("violations", Json::i(new_violations as i64));
    let _ = std::fs::create_dir_all(format!("{}/evidence", ctx.root));
    let path = format!("{}/evidence/{}.json", ctx.root, ctx.prop);
    if let Err(e) = std::fs::write(&path, ev.pretty()) {
        eprintln!("machinery error: cannot write {}: {}", path, e);
        return 3;
    }
    crate::say!(
        "{} {}: states={} transitions={} evaluations={} nontrivial={} violations={} (distinct keys new={} known={}) wall={:.1}s{}",
        ctx.prop,
        ctx.tier.name(),
        rep.states,
        rep.transitions,
        rep.evaluations,
        rep.nontrivial,
        rep.violation_count,
        new_violations,
        known,
        wall_s,
        if rep.caps.is_empty() { String::new() } else { format!(" caps={:?}", rep.caps) }
    );
    if new_violations > 0 {
        1
    } else {
        0
    }
}
