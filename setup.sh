#!/bin/bash
# MANIFEST.setup_cmd: offline release build of the harness workspaces (dependencies come from the cargo cache).
set -e
ROOT="$(cd "$(dirname "${BASH_SOURCE[0]}")" && pwd)"
export CARGO_NET_OFFLINE=true
mkdir -p "$ROOT/target" "$ROOT/evidence" "$ROOT/replays"
(cd "$ROOT/harness" && cargo build --release --offline)
if [ -d "$ROOT/sched" ]; then (cd "$ROOT/sched" && cargo build --release --offline); fi
echo "setup ok"
