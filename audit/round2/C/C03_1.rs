// C03_1 — Adam, AdamW and RMSprop square the gradient in single precision (`gradients[i].powf(2.0)`).
// For a finite gradient with |g| >= ~1.85e19 the square overflows to +inf although the documented
// result of the step is perfectly representable; the step is then silently wrong:
//   * Adam / AdamW / RMSprop (non-centred): v = inf -> update = lr * m / inf = 0, the parameter does not
//     move at all (and `velocity` stays inf for ever, so it never moves again).
//   * RMSprop centred, |g| large enough that ((1-alpha) g)^2 overflows too: inf - inf = NaN, clamped to 0
//     by `.max(0.0)`, so the step is lr * g / eps: parameter -1.0e30 after one step for g = 1e25, and -inf
//     (an infinite parameter from finite inputs) for g = 1e38.
//
// Expected values (documented equations, evaluated in f64; first step from fresh state, w = 1):
//   Adam  : m^ = g, v^ = g^2            -> w = 1 - lr * g / (|g| + eps)        = 0.999      (lr = 0.001)
//   RMSprop(alpha 0.9, not centred): v = 0.1 g^2 -> w = 1 - lr / sqrt(0.1)     = 0.99683772
//   RMSprop(alpha 0.9, centred): v - gavg^2 = 0.1 g^2 - 0.01 g^2 = 0.09 g^2 -> w = 1 - lr / 0.3 = 0.99666667
// Observed: Adam 1.0, AdamW 1.0, RMSprop 1.0 (g = 2e19);  centred RMSprop -1.0e30 (g = 1e25), -inf (g = 1e38).
//
// Source: src/optimizer.rs, `gradients[..].powf(2.0)` in Adam::update (l. 465/483/503), AdamW::update
// (l. 609/625/643), RMSprop::update (l. 761/787/818) and `gradient[..].powf(2.0)` (l. 766/793/824).
// Quantifier: "all gradient sequences (... tiny, large)"; the gradient, the parameter and the exact result
// are finite, only an intermediate overflows. (2e19 is admittedly not "moderate"; the statement restricts
// only its NaN/inf clause to moderate magnitudes, not the equality with the documented equations.)
//
// cargo test --offline --test C03_1
use neurons::optimizer;
use neurons::tensor::{Data, Tensor};

fn slot() -> Vec<Vec<Vec<Tensor>>> { vec![vec![vec![Tensor::single(vec![0.0]), Tensor::single(vec![0.0])]]] }
fn step(mut opt: optimizer::Optimizer, g: f32) -> f32 {
    opt.validate(slot());
    let mut w = Tensor::single(vec![1.0]);
    let mut gr = Tensor::single(vec![g]);
    opt.update(0, 0, false, 1, &mut w, &mut gr);
    match w.data { Data::Single(d) => d[0], _ => unreachable!() }
}
fn close(a: f32, b: f64) -> bool { ((a as f64) - b).abs() < 1e-5 }

#[test]
fn adam_large_gradient() {
    let w = step(optimizer::Adam::create(0.001, 0.9, 0.999, 1e-8, None), 2e19);
    assert!(close(w, 0.999), "Adam: expected 0.999, got {}", w);
}
#[test]
fn adamw_large_gradient() {
    let w = step(optimizer::AdamW::create(0.001, 0.9, 0.999, 1e-8, 0.0), 2e19);
    assert!(close(w, 0.999), "AdamW: expected 0.999, got {}", w);
}
#[test]
fn rmsprop_large_gradient() {
    let w = step(optimizer::RMSprop::create(0.001, 0.9, 1e-8, None, None, false), 2e19);
    assert!(close(w, 1.0 - 0.001 / 0.1f64.sqrt()), "RMSprop: expected 0.99683772, got {}", w);
}
#[test]
fn rmsprop_centred_large_gradient() {
    for g in [1e25f32, 1e38] {
        let w = step(optimizer::RMSprop::create(0.001, 0.9, 1e-8, None, None, true), g);
        assert!(close(w, 1.0 - 0.001 / 0.3), "centred RMSprop, g = {:e}: expected 0.99666667, got {}", g, w);
    }
}
#[test]
fn control_moderate_gradient() {
    assert!(close(step(optimizer::Adam::create(0.001, 0.9, 0.999, 1e-8, None), 1e19), 0.999));
    assert!(close(step(optimizer::RMSprop::create(0.001, 0.9, 1e-8, None, None, true), 1e10), 1.0 - 0.001 / 0.3));
}
