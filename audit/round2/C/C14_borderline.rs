// C14 — NOT confirmed violations: three observations at the edge of / outside the statement's wording,
// kept as executable notes. Each test asserts the behaviour one might expect and currently fails.
//
// (a) zero-sized dimensions. `Tensor::zeros(Shape::Triple(0,2,2))`, `Triple(2,0,2)`, `Triple(1,0,1)`,
//     `Triple(0,0,0)` are constructible and consistent, `get_flat` returns [] for them and
//     `Single(0) -> Triple(..)` reshapes work, but `flatten()` and `reshape(Shape::Single(0))` panic with
//     "index out of bounds" (src/tensor.rs l. 571: `data[0].len() * data[0][0].len()` is evaluated only to
//     size the Vec). So "reshaping there and back is the identity" fails by panic for these shapes. The
//     quantifier says "all shapes (including dimensions of size 1 and non-square)"; whether size 0 is meant
//     is not clear. (`Triple(2,2,0)` works.)
// (b) `reshape` between two vectors of different length (Single(3) -> Single(5)) is not refused; the tensor
//     is returned unchanged with shape Single(3) (src/tensor.rs l. 689). The statement only names
//     vector <-> 3-D and 3-D <-> 3-D reshapes, so this is outside it; shape and data stay consistent.
// (c) `get_triple(&shape)` on 3-D data ignores `shape` completely, also when the element count differs
//     (src/tensor.rs l. 659), whereas for a vector a mismatch is refused since the last repair. Documented
//     ("If the data is a vector, the output shape must be provided"), and get_triple returns a bare Vec, so
//     no recorded shape is wrong.
//
// cargo test --offline --test C14_borderline
use neurons::tensor::{Shape, Tensor};

#[test]
fn a_zero_sized_dimension_roundtrip() {
    for (c, h, w) in [(0usize, 2usize, 2usize), (2, 0, 2), (1, 0, 1), (0, 0, 0)] {
        let t = Tensor::zeros(Shape::Triple(c, h, w));
        assert_eq!(t.get_flat().len(), 0);
        let f = t.flatten(); // panics: index out of bounds
        assert_eq!(f.shape, Shape::Single(0));
        let back = t.clone().reshape(Shape::Single(0)).reshape(Shape::Triple(c, h, w));
        assert_eq!(back.shape, Shape::Triple(c, h, w));
    }
}

#[test]
#[should_panic]
fn b_vector_to_longer_vector_is_refused() {
    let _ = Tensor::single(vec![1.0, 2.0, 3.0]).reshape(Shape::Single(5));
}

#[test]
#[should_panic]
fn c_get_triple_with_other_count_is_refused() {
    let t = Tensor::triple(vec![vec![vec![1.0], vec![2.0], vec![3.0]], vec![vec![4.0], vec![5.0], vec![6.0]]]);
    let _ = t.get_triple(&Shape::Triple(1, 1, 1));
}
