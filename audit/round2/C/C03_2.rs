// C03_2 — the mirror image of C03_1: for a tiny (but normal, finite) gradient the single-precision square
// `gradients[i].powf(2.0)` underflows (to a subnormal below |g| ~ 1e-19, to exactly 0 below ~2.6e-23).
// sqrt(v) is then 0 instead of |g| (times a constant), and the step becomes lr * g / eps. That is
// harmless while eps >> |g| (the default 1e-8), but with a small epsilon (any eps > 0 is a valid
// hyper-parameter) the step is wrong by orders of magnitude.
//
// Configuration: Adam(lr 0.001, beta1 0.9, beta2 0.999, eps 1e-30), fresh state, w = 1, g = 1e-25, step 1.
// Expected (documented equations in f64): m^ = g, v^ = g^2, w = 1 - lr * g / (|g| + eps) = 0.99900001
// Observed: w = -99.0  (v = 0, step = lr * 1e-25 / 1e-30 = 100)
// RMSprop(lr 0.001, alpha 0.9, eps 1e-30, not centred): expected 1 - lr / sqrt(0.1) = 0.99683782, observed -99.00001.
// With g = 1e-21, eps = 1e-26 the square is a subnormal with few significant bits: Adam gives 0.9991552
// instead of 0.9990000 (15 % error of the step).
//
// Source: src/optimizer.rs, same `powf(2.0)` sites as C03_1.
// Quantifier: "all gradient sequences (random, constant, sparse, sign-flipping, tiny, large)", "hyper-parameter
// settings in their valid ranges"; parameter, gradient, hyper-parameters and the exact result are finite and
// the result is of order 1.
//
// cargo test --offline --test C03_2
use neurons::optimizer;
use neurons::tensor::{Data, Tensor};

fn slot() -> Vec<Vec<Vec<Tensor>>> { vec![vec![vec![Tensor::single(vec![0.0]), Tensor::single(vec![0.0])]]] }
fn step(mut opt: optimizer::Optimizer, g: f32) -> f32 {
    opt.validate(slot());
    let mut w = Tensor::single(vec![1.0]);
    let mut gr = Tensor::single(vec![g]);
    opt.update(0, 0, false, 1, &mut w, &mut gr);
    match w.data { Data::Single(d) => d[0], _ => unreachable!() }
}

#[test]
fn adam_tiny_gradient_small_epsilon() {
    let w = step(optimizer::Adam::create(0.001, 0.9, 0.999, 1e-30, None), 1e-25);
    assert!((w as f64 - 0.99900001).abs() < 1e-5, "Adam: expected 0.99900001, got {}", w);
}
#[test]
fn rmsprop_tiny_gradient_small_epsilon() {
    let w = step(optimizer::RMSprop::create(0.001, 0.9, 1e-30, None, None, false), 1e-25);
    assert!((w as f64 - 0.99683782).abs() < 1e-5, "RMSprop: expected 0.99683782, got {}", w);
}
#[test]
fn adam_subnormal_square() {
    let w = step(optimizer::Adam::create(0.001, 0.9, 0.999, 1e-26, None), 1e-21);
    assert!((w as f64 - 0.9990000).abs() < 1e-5, "Adam: expected 0.9990000, got {}", w);
}
