// C10_2 — a convolutional (or deconvolutional) feedback block with internal skips (inskips or
// outskips) and loops >= 2 cannot be trained when a dense layer follows it: `Feedback::backward`
// panics in the first training step.
//
// Configuration: input Triple(1,4,4); block [Convolution(1 filter, 3x3, stride 1, padding 1)],
// loops = 2, inskips = true, outskips = false, accumulation Mean; then dense(2, Linear);
// default SGD; MSE; one sample; one epoch.  (Same with inskips = false, outskips = true and loops = 3;
// with outskips and loops = 2 the flat gradient is only added to itself, so nothing panics.)
//
// Expected: one update is made and both repetitions hold bit-identical kernels afterwards (this is
//           what happens without the trailing dense layer, or with both skip flags false).
// Observed: panic at src/tensor.rs:819 (add_inplace):
//           assertion failed: `left == right` (left: `Triple(1, 4, 4)`, right: `Single(16)`)
// Cause: src/feedback.rs Feedback::backward, lines ~549-564: the skip gradient is taken from
//        `gradients[self.layers.len() - idx - 1]`, which for the last repetition is gradients[0],
//        the gradient handed in by the following dense layer. Because `Network::dense` set
//        `block.flatten = true`, that gradient is flat (Single(16)) while the gradient it is added to
//        is spatial (Triple(1,4,4)). `Convolution::backward` accepts the flat gradient (get_triple),
//        the skip path does not reshape it.
//
// cargo test --offline --features verif --test C10_2
use neurons::{activation::Activation, feedback, network::Network, objective, tensor::{Shape, Tensor}, verif};

fn run(inskips: bool, outskips: bool, loops: usize) {
    let mut n = Network::new(Shape::Triple(1, 4, 4));
    n.feedback(
        vec![feedback::Layer::Convolution(1, Activation::Tanh, (3, 3), (1, 1), (1, 1), (1, 1), None)],
        loops,
        inskips,
        outskips,
        feedback::Accumulation::Mean,
    );
    n.dense(2, Activation::Linear, false, None);
    n.set_objective(objective::Objective::MSE, None);
    let before = format!("{:?}", verif::params(&n)[0].inner[0].weights[0].data);
    let x = Tensor::triple(vec![(0..4).map(|i| (0..4).map(|j| 0.1 * (i as f32) - 0.07 * (j as f32)).collect()).collect()]);
    let y = Tensor::single(vec![0.3, -0.4]);
    n.learn(&vec![&x], &vec![&y], None, 1, 1, None); // panics here
    let p = verif::params(&n);
    let a = format!("{:?}", p[0].inner[0].weights[0].data);
    for l in 1..loops {
        assert_eq!(a, format!("{:?}", p[0].inner[l].weights[0].data));
    }
    assert_ne!(a, before);
}

#[test]
fn conv_block_with_inskips_before_dense() { run(true, false, 2); }

#[test]
fn conv_block_with_outskips_before_dense() { run(false, true, 3); }

#[test]
fn control_without_skips() { run(false, false, 3); }
