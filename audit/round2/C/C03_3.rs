// C03_3 — `Optimizer::validate` (called by `Network::set_optimizer`: "Override to default values if wrongly
// set") replaces a hyper-parameter given as 0 by a default, but for SGD, SGDM and RMSprop the substituted
// value is not the default documented on the corresponding `create` function:
//
//                      documented default (`create`, "# Default values")    substituted by `validate`
//   SGD     learning_rate   0.001  (src/optimizer.rs l. 178)                   0.1   (l. 96-98)
//   SGDM    learning_rate   0.001  (l. 256)                                    0.1   (l. 101-103)
//   RMSprop learning_rate   0.001  (l. 687)                                    0.01  (l. 143-145)
//   RMSprop alpha           0.9    (l. 688)                                    0.99  (l. 146-148)
//   RMSprop epsilon         1e-7   (l. 689)                                    1e-8  (l. 149-151)
// (Adam and AdamW substitute exactly their documented defaults.)  This is the same kind of divergence as
// the already repaired "validate overrides an explicit SGDM momentum of 0 with 0.9" (documented default 0).
//
// Expected values: one step from fresh state, w = 1, with the documented default in place of the 0:
//   SGD(lr 0), g = 1:                 w = 1 - 0.001 * 1                 = 0.999         observed 0.9
//   SGDM(lr 0, momentum 0), g = 1:    w = 1 - 0.001 * 1                 = 0.999         observed 0.9
//   RMSprop(lr 0, alpha 0.9, eps 1e-7), g = 1:  v = 0.1,  w = 1 - 0.001/sqrt(0.1) = 0.99683772   observed 0.96837723
//   RMSprop(lr 0.001, alpha 0, eps 1e-7), g = 1: alpha 0.9 -> 0.99683772                          observed 0.99 (alpha 0.99)
//   RMSprop(lr 0.001, alpha 0.9, eps 0), g = 1e-9: w = 1 - 0.001*1e-9/(sqrt(0.1)*1e-9 + 1e-7) = 0.99999003   observed 0.9999031 (eps 1e-8)
// (If instead a learning rate of 0 is read literally, the expected value is 1.0; the observed value matches
// neither reading.)
//
// Quantifier: "all optimizer kinds and hyper-parameter settings in their valid ranges"; the mechanism
// "default substitution for zero hyper-parameters (Optimizer::validate)" is named in the property.
//
// cargo test --offline --test C03_3
use neurons::optimizer;
use neurons::tensor::{Data, Tensor};

fn slot() -> Vec<Vec<Vec<Tensor>>> { vec![vec![vec![Tensor::single(vec![0.0]), Tensor::single(vec![0.0])]]] }
fn step(mut opt: optimizer::Optimizer, g: f32) -> f64 {
    opt.validate(slot());
    let mut w = Tensor::single(vec![1.0]);
    let mut gr = Tensor::single(vec![g]);
    opt.update(0, 0, false, 1, &mut w, &mut gr);
    match w.data { Data::Single(d) => d[0] as f64, _ => unreachable!() }
}

#[test]
fn sgd_learning_rate_default() {
    let w = step(optimizer::SGD::create(0.0, None), 1.0);
    assert!((w - 0.999).abs() < 1e-6, "SGD: documented default 0.001 -> 0.999, got {}", w);
}
#[test]
fn sgdm_learning_rate_default() {
    let w = step(optimizer::SGDM::create(0.0, 0.0, 0.0, None), 1.0);
    assert!((w - 0.999).abs() < 1e-6, "SGDM: documented default 0.001 -> 0.999, got {}", w);
}
#[test]
fn rmsprop_learning_rate_default() {
    let w = step(optimizer::RMSprop::create(0.0, 0.9, 1e-7, None, None, false), 1.0);
    assert!((w - (1.0 - 0.001 / 0.1f64.sqrt())).abs() < 1e-6, "RMSprop lr: expected 0.99683772, got {}", w);
}
#[test]
fn rmsprop_alpha_default() {
    let w = step(optimizer::RMSprop::create(0.001, 0.0, 1e-7, None, None, false), 1.0);
    assert!((w - (1.0 - 0.001 / 0.1f64.sqrt())).abs() < 1e-6, "RMSprop alpha: expected 0.99683772, got {}", w);
}
#[test]
fn rmsprop_epsilon_default() {
    let w = step(optimizer::RMSprop::create(0.001, 0.9, 0.0, None, None, false), 1e-9);
    let want = 1.0 - 0.001 * 1e-9 / (0.1f64.sqrt() * 1e-9 + 1e-7);
    assert!((w - want).abs() < 2e-6, "RMSprop epsilon: expected {}, got {}", want, w);
}
#[test]
fn control_adam_defaults_match() {
    let w = step(optimizer::Adam::create(0.0, 0.0, 0.0, 0.0, None), 1.0);
    assert!((w - 0.999).abs() < 1e-6);
}
