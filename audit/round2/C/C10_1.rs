// C10_1 — a feedback block of several layers whose inner widths differ cannot be trained with
// output skips (`outskips = true`, loops >= 2): `Feedback::backward` panics, so no training step
// (and hence no weight-tied state "after any number of training steps") is ever reached.
//
// Configuration: input Single(4); block [Dense(3, bias), Dense(4, no bias)], loops = 2,
// inskips = false, outskips = true, accumulation Mean; default SGD; MSE; one sample; one epoch.
//
// Expected: `learn` performs one update; afterwards both repetitions of each block layer hold
//           bit-identical weights/biases that differ from the initial ones (this is what happens for
//           the same block with outskips = false, or for [Dense(4), Dense(4)] with outskips = true).
// Observed: panic at src/tensor.rs:819 (add_inplace):
//           assertion failed: `left == right` (left: `Single(3)`, right: `Single(4)`)
// Cause: src/feedback.rs Feedback::backward, lines ~549-564. For a skip source `idx` (an index into
//        `activated`, i.e. the INPUT of layer idx) the skip gradient is added to `gradients.last()`
//        BEFORE layer idx is back-propagated, i.e. to the gradient w.r.t. the OUTPUT of layer idx
//        (width 3) instead of its input (width 4). With equal widths the same code runs without a panic.
//        The same happens for convolutional blocks whose filter counts differ, e.g.
//        Triple(2,3,4) -> [Conv(3 filters, 1x1), Conv(2 filters, 3x3 pad 1)].
//
// cargo test --offline --features verif --test C10_1
use neurons::{activation::Activation, feedback, network::Network, objective, tensor::{Shape, Tensor}, verif};

fn bits(t: &Tensor) -> String { format!("{:?}", t.data) }

#[test]
fn multilayer_block_with_outskips_trains_and_stays_tied() {
    let mut n = Network::new(Shape::Single(4));
    n.feedback(
        vec![
            feedback::Layer::Dense(3, Activation::Tanh, true, None),
            feedback::Layer::Dense(4, Activation::Tanh, false, None),
        ],
        2,
        false,
        true,
        feedback::Accumulation::Mean,
    );
    n.set_objective(objective::Objective::MSE, None);
    let before = verif::params(&n);
    let x = Tensor::single(vec![0.3, -0.2, 0.5, 0.1]);
    let y = Tensor::single(vec![0.1, 0.2, -0.3, 0.4]);
    n.learn(&vec![&x], &vec![&y], None, 1, 1, None); // panics here
    let after = verif::params(&n);
    let inner = &after[0].inner;
    assert_eq!(inner.len(), 4);
    for j in 0..2 {
        assert_eq!(bits(&inner[j].weights[0]), bits(&inner[j + 2].weights[0]));
    }
    assert_ne!(bits(&before[0].inner[0].weights[0]), bits(&inner[0].weights[0]));
}
