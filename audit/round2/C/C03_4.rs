// C03_4 — call order: `Network::set_optimizer` hands the optimizer to the feedback blocks that exist at that
// moment (`block.copy_optimizer`, src/network.rs l. 777-782). A block added afterwards keeps the optimizer
// it was created with, `SGD(0.1)` (src/feedback.rs l. 253), and `Network::update` delegates to
// `block.update`, which uses that private optimizer (src/feedback.rs l. 607). So with
//     net.set_optimizer(Adam(0.001, ..)); net.feedback(..);
// the block is silently trained by plain SGD with learning rate 0.1, not by the optimizer that was set.
// (For ordinary layers the same order is at least loud: the state vectors are too short and `learn` panics
// with "index out of bounds" in Adam::update.)
//
// Oracle: three networks with identical initial parameters (copied with verif::set_params), one sample,
// two epochs: (a) Adam set after the block, (b) Adam set before the block, (c) SGD(0.1) set after the block.
// Expected: (b) == (a) bit for bit (same optimizer, same data, same start; Adam(0.001) moves every weight by
//           about 0.001 per step), and (b) != (c).
// Observed: (b) == (c) bit for bit and (b) != (a); e.g. first weight row
//           (a) [0.5290952, 0.48988053, -0.973838, -0.13322523]
//           (b) [0.5202647, 0.49267322, -0.98648024, -0.13045609]   (= (c))
//
// Scope note: the statement's quantifier does not mention the build order; this is reported because the
// parameters of the block then do not follow the update rule of the optimizer the network was given, without
// any diagnostic.
//
// cargo test --offline --features verif --test C03_4
use neurons::{activation::Activation, feedback, network::Network, objective, optimizer, tensor::{Shape, Tensor}, verif};

fn net(set_late: bool, opt: fn() -> optimizer::Optimizer) -> Network {
    let mut n = Network::new(Shape::Single(4));
    if !set_late { n.set_optimizer(opt()); }
    n.feedback(vec![feedback::Layer::Dense(4, Activation::Tanh, true, None)], 2, false, false, feedback::Accumulation::Mean);
    if set_late { n.set_optimizer(opt()); }
    n.set_objective(objective::Objective::MSE, None);
    n
}

#[test]
fn optimizer_set_before_feedback_block_is_used_by_the_block() {
    let adam: fn() -> optimizer::Optimizer = || optimizer::Adam::create(0.001, 0.9, 0.999, 1e-8, None);
    let sgd: fn() -> optimizer::Optimizer = || optimizer::SGD::create(0.1, None);
    let mut a = net(true, adam);
    let mut b = net(false, adam);
    let mut c = net(true, sgd);
    let p = verif::params(&a);
    verif::set_params(&mut b, &p);
    verif::set_params(&mut c, &p);
    let x = Tensor::single(vec![0.3, -0.2, 0.5, 0.1]);
    let y = Tensor::single(vec![0.1, 0.2, -0.3, 0.4]);
    for n in [&mut a, &mut b, &mut c] { n.learn(&vec![&x], &vec![&y], None, 1, 2, None); }
    let w = |n: &Network| format!("{:?}", verif::params(n)[0].inner[0].weights[0].data);
    assert_ne!(w(&b), w(&c), "block trained by SGD(0.1) although Adam was set");
    assert_eq!(w(&a), w(&b), "Adam set before vs after adding the block");
}
