// C06 violation 3 (size edge): for tensors with more than 2^24 elements the reported AE / MAE / MSE / RMSE loss
// stops growing -- the naive single-precision running sum saturates.
//
// Input: prediction = 2^25 ones, target = 2^25 zeros (flat; every residual is exactly 1).
// Expected by the documented formulas (exact, all representable):
//     AE = sum |a - p| = 33554432,   MAE = 1,   MSE = 1,   RMSE = 1
// Observed: AE = 16777216 (= 2^24: 2^24 + 1 is not representable, every further `+ 1.0` is rounded away),
//           MAE = 0.5,   MSE = 0.5 (the terms 1/n = 2^-25 are half an ulp of 0.5 and are rounded away),  RMSE = 0.70710677.
// Cause: src/objective.rs: `.map(..).sum::<f32>()` over the flattened pairs (sequential f32 accumulation, no compensation,
// no pairwise/f64 accumulator).  Mixed magnitudes show the same at smaller sizes (a residual of 2^24 followed by 2^20
// residuals of 1 is reported as 2^24, 6 % low).
// Quantifier: "every prediction/target pair of flat or 3-D shape" -- no size limit is stated.
// (Takes ~10 s and ~1 GB in a debug build.)
use neurons::objective::{Function, Objective};
use neurons::tensor::Tensor;

#[test]
fn losses_of_a_tensor_with_2_pow_25_elements() {
    let n = 1usize << 25;
    let p = Tensor::single(vec![1.0; n]);
    let t = Tensor::single(vec![0.0; n]);
    let mut bad = Vec::new();
    for (name, o, expected) in [("AE", Objective::AE, n as f32), ("MAE", Objective::MAE, 1.0), ("MSE", Objective::MSE, 1.0), ("RMSE", Objective::RMSE, 1.0)] {
        let (loss, _) = Function::create(o, None).loss(&p, &t);
        println!("{name}: loss {loss}, expected {expected}");
        if ((loss - expected) / expected).abs() > 1e-3 { bad.push(name); }
    }
    assert!(bad.is_empty(), "wrong by a factor: {bad:?}");
}
