// C01 violation 1: a feedback block that contains a max-pool layer cannot be back-propagated.
//
// Configuration (public API only, no internal skips, element-wise activations):
//   Network::new(Triple(1,2,2))
//   feedback([Deconvolution(1 filter, k 2x2, s 2x2, p 0, tanh), Maxpool(k 2x2, s 2x2)], loops = 1,
//            inskips = false, outskips = false)
// The block maps 1x2x2 -> 1x4x4 -> 1x2x2, so it is accepted by the builder, `forward`/`predict`
// work and return finite values.  The statement covers it ("sequential network built from dense,
// convolution, deconvolution and max-pool layers (and feedback blocks without internal skips)";
// `feedback::Layer::Maxpool` is a first-class variant of the block builder).
//
// Expected: `learn` (forward + backward + update for one sample) runs and the deconvolution kernel
//           gradient equals the finite-difference derivative of the MSE of that sample.
// Observed: panic `Unsupported layer type.` at src/feedback.rs:576 (Feedback::backward has match arms for
//           Dense / Convolution / Deconvolution only; the max-pool indices returned by Feedback::forward
//           are never handed to Feedback::backward).  Same for a block [Convolution(3x3, p1), Maxpool(1x1, s1)].
use neurons::activation::Activation;
use neurons::feedback;
use neurons::network::Network;
use neurons::tensor::{Shape, Tensor};

fn block(layers: Vec<feedback::Layer>, input: Shape, x: Tensor) {
    let mut net = Network::new(input);
    net.feedback(layers, 1, false, false, feedback::Accumulation::Add);
    let y = net.predict(&x);
    assert!(y.get_flat().iter().all(|v| v.is_finite()), "forward works");
    let t = y.clone(); // any target of the output's shape
    net.learn(&vec![&x], &vec![&t], None, 1, 1, None); // panics: "Unsupported layer type."
}

#[test]
fn feedback_block_with_maxpool_deconv() {
    block(
        vec![
            feedback::Layer::Deconvolution(1, Activation::Tanh, (2, 2), (2, 2), (0, 0), None),
            feedback::Layer::Maxpool((2, 2), (2, 2)),
        ],
        Shape::Triple(1, 2, 2),
        Tensor::triple(vec![vec![vec![0.1, -0.2], vec![0.3, 0.4]]]),
    );
}

#[test]
fn feedback_block_with_maxpool_conv() {
    block(
        vec![
            feedback::Layer::Convolution(1, Activation::Tanh, (3, 3), (1, 1), (1, 1), (1, 1), None),
            feedback::Layer::Maxpool((1, 1), (1, 1)),
        ],
        Shape::Triple(1, 3, 3),
        Tensor::triple(vec![vec![vec![0.1, -0.2, 0.5], vec![0.3, 0.4, -0.6], vec![0.7, -0.8, 0.9]]]),
    );
}
