// C16 violation 1 (edge of single precision): with `Accumulation::Mean` the input processed by the target of a skip
// connection is +inf although the mean of the two (finite) inputs is a finite single-precision number.
//
// Configuration: Network::new(Single(1)); dense(1, Linear, no bias) with weight 1.0 (layer 0, identity);
// dense(1, Linear, no bias) with weight 1e-38 (layer 1); connect(0, 1); set_accumulation(Mean, _).  Input x = [3e38].
// Ordinary input of layer 1 = output of layer 0 = 3e38; input fed to layer 0 = 3e38.
// Expected: layer 1 processes mean(3e38, 3e38) = 3e38 (the mean of two representable numbers is always representable),
//           output = 1e-38 * 3e38 = 3.0.   For x = [1e38] the library indeed returns 1.0.
// Observed: output = inf.
// Cause: src/tensor.rs Tensor::mean_inplace: `*val = (*val + sum) / n` adds first (6e38 overflows), then divides;
//        called from src/network.rs Network::forward (`Accumulation::Mean => x.mean_inplace(&vec![&_x])`) and from
//        `Network::accumulate` on the backward side.
// Quantifier: "all five accumulations, all inputs and weights".  (Add/Subtract/Multiply overflow only when the documented
// result itself is not representable; Mean is the one accumulation whose result always is.)
use neurons::activation::Activation;
use neurons::feedback::Accumulation;
use neurons::network::Network;
use neurons::tensor::{Shape, Tensor};
use neurons::verif;

fn output(x: f32) -> f32 {
    let mut net = Network::new(Shape::Single(1));
    net.dense(1, Activation::Linear, false, None);
    net.dense(1, Activation::Linear, false, None);
    net.connect(0, 1);
    net.set_accumulation(Accumulation::Mean, Accumulation::Mean);
    let mut p = verif::params(&net);
    p[0].weights[0] = Tensor::double(vec![vec![1.0]]);
    p[1].weights[0] = Tensor::double(vec![vec![1e-38]]);
    verif::set_params(&mut net, &p);
    net.predict(&Tensor::single(vec![x])).get_flat()[0]
}

#[test]
fn mean_skip_of_large_finite_inputs() {
    assert!((output(1e38) - 1.0).abs() < 1e-5);
    let y = output(3e38);
    assert!((y - 3.0).abs() < 1e-5, "expected 3.0 = 1e-38 * mean(3e38, 3e38), observed {y}");
}
