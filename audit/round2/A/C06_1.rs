// C06 violation 1: MSE reports an infinite loss / infinite gradient component for finite inputs whose
// documented loss and gradient are finite, representable single-precision numbers.
//
// Documented formulas (src/objective.rs, MSE::loss): loss = sum((a - p)^2) / n,  gradient_i = -2 (a_i - p_i) / n.
// The statement claims for MSE: "the loss is finite for all finite in-domain inputs" (domain of MSE: all finite reals) and
// "the gradient is the derivative of the reported loss".
//
// (a) prediction [2e19, 0, 0, 0], target [0, 0, 0, 0]:
//       expected loss  = (2e19)^2 / 4 = 1.0e38   (< f32::MAX = 3.4e38),   expected gradient_0 = 2 * 2e19 / 4 = 1e19
//       observed loss  = inf  (flat and 3-D),  gradient_0 = 1e19  -> a finite gradient of an infinite loss
//     cause: `(actual - predicted).powi(2) / length` squares first: 4e38 overflows before the division by n.
// (b) prediction [0, 0, 0, 0], target [3e38, 0, 0, 0]:
//       expected gradient_0 = -2 * 3e38 / 4 = -1.5e38 (representable);  observed -inf
//     cause: `-2.0 * (actual - predicted) / length` multiplies by 2 before dividing by n.
// Both tensor ranks (the 3-D arm is a second copy of the same expression).
use neurons::objective::{Function, Objective};
use neurons::tensor::Tensor;

fn both(p: Vec<f32>, t: Vec<f32>) -> Vec<(f32, Vec<f32>)> {
    let f = Function::create(Objective::MSE, None);
    let (l1, g1) = f.loss(&Tensor::single(p.clone()), &Tensor::single(t.clone()));
    let (l3, g3) = f.loss(&Tensor::triple(vec![vec![p[..2].to_vec(), p[2..].to_vec()]]), &Tensor::triple(vec![vec![t[..2].to_vec(), t[2..].to_vec()]]));
    vec![(l1, g1.get_flat()), (l3, g3.get_flat())]
}

#[test]
fn mse_loss_is_finite_when_the_mean_is_representable() {
    for (loss, gradient) in both(vec![2e19, 0.0, 0.0, 0.0], vec![0.0; 4]) {
        assert!((gradient[0] - 1e19).abs() < 1e13);
        // expected 1.0e38 = (2e19)^2 / 4, computed by hand / in f64: 4e38 / 4
        let expected = ((2e19f64 * 2e19f64) / 4.0) as f32;
        assert!(expected.is_finite());
        assert!(loss.is_finite() && ((loss - expected) / expected).abs() < 1e-5, "loss {loss}, expected {expected}");
    }
}

#[test]
fn mse_gradient_is_finite_when_representable() {
    for (_, gradient) in both(vec![0.0; 4], vec![3e38, 0.0, 0.0, 0.0]) {
        let expected = (-2.0 * 3e38f64 / 4.0) as f32; // -1.5e38
        assert!(gradient[0].is_finite() && ((gradient[0] - expected) / expected).abs() < 1e-5, "gradient {}, expected {expected}", gradient[0]);
    }
}
