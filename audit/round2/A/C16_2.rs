// C16 candidate 2 (depends on how the statement is read for networks that also have a loop connection):
// a skip connection whose target lies inside a loop connection is applied in the first pass only; in every
// repetition of the loop the target layer processes its ordinary input WITHOUT the source's input.
//
// Configuration: three 2->2 dense layers, Linear, no bias, identity weights; connect(0, 2) with Accumulation::Add;
// loopback(outof = 2, into = 1, iterations = 1); loop accumulation Overwrite (so the network output is the output of the
// repetition).  Input x = [1, 10].
// First pass: layer 0 -> x; layer 1 -> x; layer 2 processes x + x = 2x -> 2x.
// Repetition: layer 1 processes 2x -> 2x; layer 2's ordinary input is 2x and the input fed to layer 0 is x, so by the
//             statement ("the input processed by layer b is the configured accumulation of its ordinary input with the
//             input that was fed to layer a", quantifier "for all networks") it processes 3x -> output 3x = [3, 30].
// Observed: [2, 20] -- the repetition runs `Network::_forward(&current, into, i + 1)` (src/network.rs, inside
//           `Network::forward`, loop-connection branch), which never consults `self.connect`; only the outer layer walk
//           of `forward` applies skip connections.
// If the intended reading is "skip connections apply to the first pass only", this is not a violation; nothing in the
// documentation says so, and with Mean/Add loop accumulation the stored activations then mix passes with and without the skip.
use neurons::activation::Activation;
use neurons::feedback::Accumulation;
use neurons::network::Network;
use neurons::tensor::{Shape, Tensor};
use neurons::verif;
use std::sync::Arc;

#[test]
fn skip_target_inside_loop_connection() {
    let mut net = Network::new(Shape::Single(2));
    for _ in 0..3 {
        net.dense(2, Activation::Linear, false, None);
    }
    net.connect(0, 2);
    net.loopback(2, 1, 1, Arc::new(|_| 1.0), false);
    net.set_accumulation(Accumulation::Add, Accumulation::Overwrite);
    let mut p = verif::params(&net);
    for l in p.iter_mut() {
        l.weights[0] = Tensor::double(vec![vec![1.0, 0.0], vec![0.0, 1.0]]);
    }
    verif::set_params(&mut net, &p);
    let y = net.predict(&Tensor::single(vec![1.0, 10.0])).get_flat();
    assert_eq!(y, vec![3.0, 30.0], "skip connection dropped in the loop repetition (2x instead of 3x)");
}
