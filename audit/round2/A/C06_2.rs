// C06 violation 2: RMSE loss under-/overflows, and its gradient is 0 or NaN, for finite inputs whose documented
// loss and gradient are ordinary single-precision numbers.
//
// Documented (src/objective.rs, RMSE::loss): loss = sqrt(sum((a - p)^2) / n);
// gradient_i = -(a_i - p_i) / (sqrt((a_i - p_i)^2) * n) = sign(p_i - a_i) / n   (the unit test pins 0.25 for n = 4).
//
// (a) tiny residual: p = [1e-25, 0, 0, 0], t = 0:  expected loss = 1e-25 / sqrt(4) = 5e-26 (a normal f32);
//     observed loss = 0   ((1e-25)^2 = 1e-50 underflows to 0 before the square root).  Gradient 0.25 is right.
// (b) large residual: p = [1e38, 0, 0, 0], t = 0:  expected loss = 1e38 / 2 = 5e37, expected gradient_0 = +0.25;
//     observed loss = inf, gradient_0 = 0.0.
//     p = [1e30, 0, 0, 0]: expected loss 5e29; observed inf (gradient 0.25 is right).
// (c) p = [-3e38, 0, 0, 0], t = [3e38, 0, 0, 0]: expected loss = 6e38 / 2 = 3e38 (< f32::MAX), gradient_0 = -0.25;
//     observed loss = inf, gradient_0 = NaN.
// Causes: the loss squares every residual in f32 (`powi(2)`) before summing; the gradient (rewritten by the earlier
// fix for tiny residuals) divides by `(actual - predicted).abs() * length`, which overflows to inf for |a - p| > f32::MAX / n
// (-> x / inf = 0) and is inf / inf = NaN when `actual - predicted` itself overflows.  Both rank arms are identical.
// Quantifier: "all finite predictions and targets in the objective's domain" -- RMSE has no domain restriction.
use neurons::objective::{Function, Objective};
use neurons::tensor::Tensor;

fn both(p: Vec<f32>, t: Vec<f32>) -> Vec<(f32, Vec<f32>)> {
    let f = Function::create(Objective::RMSE, None);
    let (l1, g1) = f.loss(&Tensor::single(p.clone()), &Tensor::single(t.clone()));
    let (l3, g3) = f.loss(&Tensor::triple(vec![vec![p.clone()]]), &Tensor::triple(vec![vec![t.clone()]]));
    vec![(l1, g1.get_flat()), (l3, g3.get_flat())]
}
fn expected_loss(p: &[f32], t: &[f32]) -> f32 {
    (p.iter().zip(t).map(|(p, a)| (*a as f64 - *p as f64).powi(2)).sum::<f64>() / p.len() as f64).sqrt() as f32
}

#[test]
fn rmse_loss_tiny_residual() {
    let (p, t) = (vec![1e-25, 0.0, 0.0, 0.0], vec![0.0; 4]);
    let e = expected_loss(&p, &t); // 5e-26
    for (loss, g) in both(p.clone(), t.clone()) {
        assert_eq!(g[0], 0.25);
        assert!(((loss - e) / e).abs() < 1e-5, "loss {loss:e}, expected {e:e}");
    }
}

#[test]
fn rmse_large_residual_loss_and_gradient() {
    let (p, t) = (vec![1e38, 0.0, 0.0, 0.0], vec![0.0; 4]);
    let e = expected_loss(&p, &t); // 5e37
    for (loss, g) in both(p.clone(), t.clone()) {
        println!("loss {loss:e} (expected {e:e}), gradient {:?} (expected [0.25, 0, 0, 0])", g);
        assert_eq!(g[0], 0.25, "gradient component must be sign(p - a) / n = 0.25");
        assert!(((loss - e) / e).abs() < 1e-5, "loss {loss:e}, expected {e:e}");
    }
}

#[test]
fn rmse_gradient_nan_when_difference_overflows() {
    let (p, t) = (vec![-3e38, 0.0, 0.0, 0.0], vec![3e38, 0.0, 0.0, 0.0]);
    let e = expected_loss(&p, &t); // 3e38, finite
    assert!(e.is_finite());
    for (loss, g) in both(p.clone(), t.clone()) {
        println!("loss {loss:e} (expected {e:e}), gradient {:?} (expected [-0.25, 0, 0, 0])", g);
        assert_eq!(g[0], -0.25);
        assert!(loss.is_finite());
    }
}
