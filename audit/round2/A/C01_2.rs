// C01 violation 2 (numerical): the derivative of a sigmoid unit is badly wrong for positive pre-activations
// above ~10 (17 % off at z = 15, exactly 0 from z ~ 17), while the mirrored negative pre-activation is exact.
//
// Configuration: Network::new(Single(1)); dense(1, Sigmoid, bias = false); weight w = z; input x = [1.0];
// target t = [0.25]; objective MSE (n = 1).  Needs the `verif` feature only to set the weight and read dL/dw.
//
// Expected (analytic, evaluated in f64):  dL/dw = 2 (s(z) - t) * s(z) (1 - s(z)) * x,  s(z) = 1/(1+e^-z)
//     z =  12: 9.216130e-6      z =  15: 4.588530e-7      z =  17: 6.2099e-8      z = -15: -1.529509e-7
// Observed (library):
//     z =  12: 9.298191e-6 (0.9 % off)   z = 15: 5.364414e-7 (16.9 % off)   z = 17: 0 (100 % off)
//     z = -15: -1.529509e-7 (6e-8 relative: correct)
// All expected values are normal single-precision numbers, so "equal up to single-precision rounding" fails by
// 5 to 7 orders of magnitude in relative terms; s'(z) is an even function, yet the library is exact for -z and wrong for +z.
//
// Cause: src/activation.rs Sigmoid::backward (both the Single and the Triple arm) evaluates
//     y = 1 / (1 + exp(-v));  y * (1 - y)
// For v > 0, y is within a few ulp of 1 and `1 - y` cancels catastrophically (for v >= 16.7, y == 1.0 and the derivative is 0).
// A cancellation-free form is e = exp(-|v|); e / ((1 + e) * (1 + e)).
// Inside the quantifier: "all weights, all inputs away from activation kinks" -- the sigmoid has no kink.
use neurons::activation::Activation;
use neurons::network::Network;
use neurons::objective::{Function, Objective};
use neurons::tensor::{Shape, Tensor};
use neurons::verif;

fn lib_gradient(z: f32) -> f64 {
    let mut net = Network::new(Shape::Single(1));
    net.dense(1, Activation::Sigmoid, false, None);
    let mut p = verif::params(&net);
    p[0].weights[0] = Tensor::double(vec![vec![z]]);
    verif::set_params(&mut net, &p);
    let x = Tensor::single(vec![1.0]);
    let t = Tensor::single(vec![0.25]);
    let (pre, post, max, fb) = net.forward(&x);
    let (_, g) = Function::create(Objective::MSE, None).loss(post.last().unwrap(), &t);
    let (wg, _) = verif::backward(&net, g, &pre, &post, &max, fb);
    match &wg[0].data {
        neurons::tensor::Data::Double(w) => w[0][0] as f64,
        _ => unreachable!(),
    }
}

fn exact(z: f64) -> f64 {
    let e = (-z.abs()).exp();
    let s = if z >= 0.0 { 1.0 / (1.0 + e) } else { e / (1.0 + e) };
    2.0 * (s - 0.25) * (e / ((1.0 + e) * (1.0 + e)))
}

#[test]
fn sigmoid_derivative_negative_side_is_exact() {
    for z in [-12.0f32, -15.0, -17.0, -30.0] {
        let (l, e) = (lib_gradient(z), exact(z as f64));
        assert!(((l - e) / e).abs() < 1e-5, "z = {z}: library {l:e}, exact {e:e}");
    }
}

#[test]
fn sigmoid_derivative_positive_side() {
    let mut failed = false;
    for z in [8.0f32, 10.0, 12.0, 15.0, 17.0] {
        let (l, e) = (lib_gradient(z), exact(z as f64));
        let rel = ((l - e) / e).abs();
        println!("z = {z}: library {l:e}, exact {e:e}, relative error {rel:.3e}");
        if rel > 1e-3 { failed = true; }
    }
    assert!(!failed, "sigmoid derivative off by more than 0.1 % for a positive pre-activation");
}
