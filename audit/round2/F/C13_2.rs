// C13, reading-dependent (NOT counted as a confirmed violation): with tolerance = 1 learn() always stops after epoch 2,
// also when the validation loss falls.
//
// Run: cp found/C13_2.rs tests/ && cargo test --offline --features verif --test C13_2 -- --nocapture
//
// Configuration: Single(1) -> dense(1, Linear, no bias, weight 0), SGD(0.05), MSE, training and validation sample
//   x = [1], t = [1]; the validation loss is (1 - w)^2 with w -> 1: 0.81, 0.6561, ... strictly FALLING. tolerance 1, 9 epochs.
// Observed: "Validation loss has increased for the last 1 epochs. Stopping training (at epoch 2)."; 2 entries returned.
//   src/network.rs:958-967: the window holds `tolerance` = 1 value, the loop `0..tolerance - 1` is empty and
//   `increasing` stays true.
// Whether this violates the statement depends on how "strictly increased throughout the last `tolerance` recorded
// epochs" is read for tolerance = 1: as "the last 1 recorded value forms a strictly increasing sequence" (vacuously
// true - the reading of the mechanism note "window of the last `threshold` losses must be strictly increasing") it
// holds; as "the loss went up in the last epoch" (v[e] > v[e-1]) it is violated: 0.6561 < 0.81.
use neurons::verif::{params, set_params};
use neurons::{activation::Activation, network::Network, optimizer, tensor::Shape, tensor::Tensor};

#[test]
fn tolerance_one_falling_validation_loss() {
    let mut n = Network::new(Shape::Single(1));
    n.dense(1, Activation::Linear, false, None);
    n.set_optimizer(optimizer::SGD::create(0.05, None));
    let mut p = params(&n);
    p[0].weights[0] = Tensor::double(vec![vec![0.0]]);
    set_params(&mut n, &p);
    let (x, y) = (Tensor::single(vec![1.0]), Tensor::single(vec![1.0]));
    let (train, val, _) = n.learn(&vec![&x], &vec![&y], Some((&vec![&x], &vec![&y], 1)), 1, 9, None);
    println!("val {:?}", val);
    assert!(val.windows(2).all(|p| p[1] < p[0]), "validation loss is falling");
    assert_eq!(train.len(), 9, "a falling validation loss must not stop training (second reading)"); // observed: 2
}
