// C12 violation 1: validate() returns +inf as mean loss although every per-sample loss, and their mean, is finite.
//
// Run: cp found/C12_1.rs tests/ && cargo test --offline --features verif --test C12_1
//
// Configuration: network Single(1) -> dense(1, Linear, no bias) with weight 0 (prediction 0 for every input),
//   objective MAE, two samples (x = [1.0], target = [3.0e38]).
// Expected: each sample's loss is |3e38 - 0| / 1 = 3e38 (finite, checked below with one sample and with
//   objective::Function::loss on predict()); the arithmetic mean of {3e38, 3e38} is 3e38, representable in f32.
// Observed: validate() returns inf. src/network.rs:1575 computes `loss.iter().sum::<f32>() / loss.len() as f32`;
//   the intermediate sum 6e38 overflows f32 (max 3.4e38).
// Quantifier: "all objectives, ... all data-set sizes, all inputs" - finite inputs/targets, finite documented result.
use neurons::verif::{params, set_params};
use neurons::{activation::Activation, network::Network, objective, tensor::Shape, tensor::Tensor};

#[test]
fn mean_of_finite_losses_is_finite() {
    let mut net = Network::new(Shape::Single(1));
    net.dense(1, Activation::Linear, false, None);
    net.set_objective(objective::Objective::MAE, None);
    let mut p = params(&net);
    p[0].weights[0] = Tensor::double(vec![vec![0.0]]);
    set_params(&mut net, &p);

    let x = Tensor::single(vec![1.0]);
    let t = Tensor::single(vec![3.0e38]);

    // per-sample loss, independently: prediction is 0, loss is 3e38
    let prediction = net.predict(&x);
    assert_eq!(prediction.get_flat(), vec![0.0]);
    let (single, _) = objective::Function::create(objective::Objective::MAE, None).loss(&prediction, &t);
    assert_eq!(single, 3.0e38);

    let (one, _) = net.validate(&[&x], &[&t], 0.1);
    assert_eq!(one, 3.0e38);

    let (two, _) = net.validate(&[&x, &x], &[&t, &t], 0.1);
    assert_eq!(two, 3.0e38, "mean of two losses of 3e38"); // observed: inf
}
