// C13 violation 1: learn() stops early on a validation-loss history that has not increased at all: every NaN in the
// window counts as "strictly increasing".
//
// Run: cp found/C13_1.rs tests/ && cargo test --offline --features verif --test C13_1 -- --nocapture
//
// Configuration: Single(1) -> dense(2, Linear, no bias, weights [[2],[2]]) -> dense(1, Linear, no bias, weights [[1,-1]]),
//   SGD(1e-3), MSE. Training data: x = [1.0], t = [0.5] (ordinary values; the training loss is finite in every epoch:
//   0.25, 0.2401, 0.2306, ...). Validation data: one sample x = [3.0e38] (finite), t = [0.0].
//   The hidden layer overflows to (+inf, +inf) for the validation sample, the output is inf - inf = NaN, so the
//   validation loss is NaN in every epoch. tolerance = 3, epochs = 10.
// Expected: 10 epochs: a history [NaN, NaN, ...] has not "strictly increased throughout the last 3 recorded epochs"
//   (no pair a < b holds), so the only-if condition of the statement is false at every epoch.
//   Oracle: the predicate `window.windows(2).all(|p| p[0] < p[1])` evaluated on the returned history.
// Observed: learn() prints "Validation loss has increased for the last 3 epochs. Stopping training (at epoch 4)."
//   and returns 4 entries. src/network.rs:962-967 tests `history[i] <= history[i + 1]` to *refute* the increase;
//   with a NaN operand the comparison is false, so `increasing` stays true.
//   The same happens with an empty validation set (validate() returns 0/0 = NaN): second test.
use neurons::verif::{params, set_params};
use neurons::{activation::Activation, network::Network, optimizer, tensor::Shape, tensor::Tensor};

fn strictly_increasing(window: &[f32]) -> bool {
    window.windows(2).all(|p| p[0] < p[1])
}

fn network() -> Network {
    let mut n = Network::new(Shape::Single(1));
    n.dense(2, Activation::Linear, false, None);
    n.dense(1, Activation::Linear, false, None);
    n.set_optimizer(optimizer::SGD::create(1e-3, None));
    let mut p = params(&n);
    p[0].weights[0] = Tensor::double(vec![vec![2.0], vec![2.0]]);
    p[1].weights[0] = Tensor::double(vec![vec![1.0, -1.0]]);
    set_params(&mut n, &p);
    n
}

#[test]
fn nan_validation_loss_is_not_an_increase() {
    let mut n = network();
    let (x, y) = (Tensor::single(vec![1.0]), Tensor::single(vec![0.5]));
    let (vx, vy) = (Tensor::single(vec![3.0e38]), Tensor::single(vec![0.0]));
    let tolerance = 3usize;
    let epochs = 10usize;
    let (train, val, acc) = n.learn(&vec![&x], &vec![&y], Some((&vec![&vx], &vec![&vy], tolerance as i32)), 1, epochs as i32, None);
    println!("train {:?}\nval {:?}", train, val);
    assert_eq!(train.len(), val.len());
    assert_eq!(acc.len(), val.len());
    assert!(train.iter().all(|l| l.is_finite()));
    if train.len() < epochs {
        let e = train.len();
        assert!(
            e > tolerance && strictly_increasing(&val[e - tolerance..e]),
            "stopped after {e} of {epochs} epochs although the last {tolerance} validation losses {:?} are not strictly increasing",
            &val[e - tolerance..e]
        );
    }
}

#[test]
fn empty_validation_set() {
    let mut n = network();
    let (x, y) = (Tensor::single(vec![1.0]), Tensor::single(vec![0.5]));
    let empty: Vec<&Tensor> = Vec::new();
    let (train, val, _) = n.learn(&vec![&x], &vec![&y], Some((&empty, &empty, 2)), 1, 6, None);
    println!("val {:?}", val);
    if train.len() < 6 {
        let e = train.len();
        assert!(e > 2 && strictly_increasing(&val[e - 2..e]), "stopped after {e} of 6 epochs on {:?}", val);
    }
}
