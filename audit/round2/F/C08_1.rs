// C08 violation 1: a feedback block with skip connections cannot be trained when the layer after it is of the
// other representation (spatial block -> dense layer, or dense block -> spatial layer).
//
// Run: cp found/C08_1.rs tests/ && cargo test --offline --features verif --test C08_1
//
// Configurations (all accepted by the builder; forward pass works and produces the announced shapes):
//   A) input 1x2x2 -> feedback block [convolution: 1 filter, kernel 1x1, stride 1, padding 0, dilation 1], loops = 2,
//      inskips = true, outskips = false, accumulation Add -> dense(1)
//      The block announces 1x2x2 -> 1x2x2; because a dense layer follows, its output is flattened to 4 values
//      (statement: "a spatial output feeding a dense layer is flattened").
//   B) input 4 -> feedback block [dense(4)], loops = 2, inskips = true -> maxpool 2x2 stride 1
//      The block announces 4 -> 4; the max-pool layer reads it as 1x2x2
//      (statement: "a flat vector of perfect-square length r*r feeding a spatial layer is read as 1 x r x r").
//   The same happens with outskips = true (loops >= 3, or loops >= 2 with a block of >= 2 layers) and with a
//   convolution instead of the max-pool layer in B.
//
// Expected: learn() for one epoch returns one training-loss entry ("consecutive layers always fit and gradient tensors
//           have exactly the shape of the parameters they belong to"). Derived from the statement and from the
//           control cases below: the identical networks without skips inside the block, or with a following layer
//           of the block's own representation, train fine.
// Observed: panic in Tensor::add_inplace (src/tensor.rs:819) called from Feedback::backward (src/feedback.rs:560-561):
//           A) `left == right` (left: `Triple(1, 2, 2)`, right: `Single(4)`)
//           B) `left == right` (left: `Single(4)`, right: `Triple(1, 2, 2)`)
//           Feedback::backward keeps the gradient that arrives from the following layer as `gradients[0]` in the
//           representation of that layer (flat from a dense layer, 1 x r x r from a spatial layer) and the skip branch
//           adds it to a gradient of the block's own representation without re-reading it.
use neurons::{activation::Activation, feedback, network::Network, tensor::Shape, tensor::Tensor};

fn conv_block_then(inskips: bool, outskips: bool, loops: usize, dense_after: bool) -> Network {
    let mut net = Network::new(Shape::Triple(1, 2, 2));
    net.feedback(
        vec![feedback::Layer::Convolution(1, Activation::Linear, (1, 1), (1, 1), (0, 0), (1, 1), None)],
        loops,
        inskips,
        outskips,
        feedback::Accumulation::Add,
    );
    if dense_after {
        net.dense(1, Activation::Linear, false, None);
    } else {
        net.maxpool((2, 2), (1, 1)); // 1x2x2 -> 1x1x1
    }
    net
}

fn dense_block_then(inskips: bool, outskips: bool, loops: usize, spatial_after: bool) -> Network {
    let mut net = Network::new(Shape::Single(4));
    net.feedback(
        vec![feedback::Layer::Dense(4, Activation::Tanh, true, None)],
        loops,
        inskips,
        outskips,
        feedback::Accumulation::Add,
    );
    if spatial_after {
        net.maxpool((2, 2), (1, 1)); // read as 1x2x2 -> 1x1x1
    } else {
        net.dense(1, Activation::Linear, false, None);
    }
    net
}

fn spatial_input() -> Tensor {
    Tensor::triple(vec![vec![vec![0.1, 0.2], vec![0.3, 0.4]]])
}
fn flat_input() -> Tensor {
    Tensor::single(vec![0.1, 0.2, 0.3, 0.4])
}
fn flat_target() -> Tensor {
    Tensor::single(vec![0.5])
}
fn spatial_target() -> Tensor {
    Tensor::triple(vec![vec![vec![0.5]]])
}

#[test]
fn controls_train() {
    // no skips inside the block, transition after the block: fine
    let mut net = conv_block_then(false, false, 2, true);
    assert_eq!(net.learn(&vec![&spatial_input()], &vec![&flat_target()], None, 1, 1, None).0.len(), 1);
    let mut net = dense_block_then(false, false, 2, true);
    assert_eq!(net.learn(&vec![&flat_input()], &vec![&spatial_target()], None, 1, 1, None).0.len(), 1);
    // skips inside the block, following layer of the block's own representation: fine
    let mut net = conv_block_then(true, true, 3, false);
    assert_eq!(net.learn(&vec![&spatial_input()], &vec![&spatial_target()], None, 1, 1, None).0.len(), 1);
    let mut net = dense_block_then(true, true, 3, false);
    assert_eq!(net.learn(&vec![&flat_input()], &vec![&flat_target()], None, 1, 1, None).0.len(), 1);
}

#[test]
fn a_spatial_block_with_input_skips_then_dense() {
    let mut net = conv_block_then(true, false, 2, true);
    // forward is fine: 4 values reach the dense layer
    let (_, post, _, _) = net.forward(&spatial_input());
    assert_eq!(post[1].shape, Shape::Single(4));
    assert_eq!(post[2].shape, Shape::Single(1));
    // expected: trains; observed: panics
    let (train, _, _) = net.learn(&vec![&spatial_input()], &vec![&flat_target()], None, 1, 1, None);
    assert_eq!(train.len(), 1);
}

#[test]
fn a_spatial_block_with_output_skips_then_dense() {
    let mut net = conv_block_then(false, true, 3, true);
    let (train, _, _) = net.learn(&vec![&spatial_input()], &vec![&flat_target()], None, 1, 1, None);
    assert_eq!(train.len(), 1);
}

#[test]
fn b_dense_block_with_input_skips_then_maxpool() {
    let mut net = dense_block_then(true, false, 2, true);
    let (_, post, _, _) = net.forward(&flat_input());
    assert_eq!(post[1].shape, Shape::Single(4));
    assert_eq!(post[2].shape, Shape::Triple(1, 1, 1));
    let (train, _, _) = net.learn(&vec![&flat_input()], &vec![&spatial_target()], None, 1, 1, None);
    assert_eq!(train.len(), 1);
}

#[test]
fn b_dense_block_with_output_skips_then_maxpool() {
    let mut net = dense_block_then(false, true, 3, true);
    let (train, _, _) = net.learn(&vec![&flat_input()], &vec![&spatial_target()], None, 1, 1, None);
    assert_eq!(train.len(), 1);
}
