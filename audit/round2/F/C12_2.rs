// C12 violation 2: on large data sets validate() does not return the arithmetic mean: the f32 running sums lose
// precision and finally stop growing, so both the mean loss and the mean accuracy are wrong by per cent ... tens of per cent.
//
// Run: cp found/C12_2.rs tests/ && cargo test --offline --features verif --release --test C12_2 -- --include-ignored --nocapture
//      (the first test also runs in a few seconds without --release; the ignored ones need --release and ~1.5 GB)
//
// Configuration: network Single(1) -> dense(1, Linear, no bias) with weight 0 (prediction 0 for every input), objective AE,
//   N identical samples (x = [1.0], target = [0.1]), tolerance 1.0.
// Expected: every sample has loss |0.1 - 0| = 0.1f32 and scores accuracy 1 (|0.1 - 0| < 1.0), so the mean loss is 0.1
//   (up to a few ulp) and the mean accuracy is exactly 1, for every N.
// Observed (release build, this tree):
//   N = 2^20 (1 048 576):     loss 0.10098633   (+1.0 %)            acc 1
//   N = 2^22 (4 194 304):     loss 0.096020885  (-4.0 %)            acc 1
//   N = 25 165 824 (1.5*2^24): loss 0.083333336 (-16.7 %)           acc 0.6666667  (all 25 165 824 samples are correct)
//   src/network.rs:1572-1577: `loss.iter().sum::<f32>() / loss.len() as f32` and the same for `acc`: a sequential f32 sum.
//   Adding 0.1 to a sum in [2^17, 2^18) adds 0.09375 or 0.109375; at 2^21 = 2 097 152 adding 0.1 changes nothing;
//   the accuracy sum of 1.0s sticks at 2^24 = 16 777 216.
// Quantifier: "all data-set sizes (below, at and above the internal parallel chunk size ...)".
use neurons::verif::{params, set_params};
use neurons::{activation::Activation, network::Network, objective::Objective, tensor::Shape, tensor::Tensor};

fn run(n: usize) -> (f32, f32) {
    let mut net = Network::new(Shape::Single(1));
    net.dense(1, Activation::Linear, false, None);
    net.set_objective(Objective::AE, None);
    let mut p = params(&net);
    p[0].weights[0] = Tensor::double(vec![vec![0.0]]);
    set_params(&mut net, &p);
    let x = Tensor::single(vec![1.0]);
    let t = Tensor::single(vec![0.1]);
    // per-sample values, independently
    assert_eq!(net.predict(&x).get_flat(), vec![0.0]);
    let (l1, a1) = net.validate(&[&x], &[&t], 1.0);
    assert_eq!((l1, a1), (0.1, 1.0));
    let xi: Vec<&Tensor> = vec![&x; n];
    let ti: Vec<&Tensor> = vec![&t; n];
    let r = net.validate(&xi, &ti, 1.0);
    println!("N = {n}: loss {} (expected 0.1), accuracy {} (expected 1)", r.0, r.1);
    r
}

#[test]
fn mean_loss_one_million_samples() {
    let (l, a) = run(1 << 20);
    assert_eq!(a, 1.0);
    assert!((l - 0.1).abs() <= 1e-4 * 0.1, "mean loss {l}, expected 0.1"); // observed 0.10098633
}

#[test]
#[ignore]
fn mean_loss_four_million_samples() {
    let (l, a) = run(1 << 22);
    assert_eq!(a, 1.0);
    assert!((l - 0.1).abs() <= 1e-4 * 0.1, "mean loss {l}, expected 0.1"); // observed 0.096020885
}

#[test]
#[ignore]
fn mean_accuracy_above_2_pow_24_samples() {
    let (l, a) = run((1 << 24) + (1 << 23));
    assert_eq!(a, 1.0, "every sample is within tolerance"); // observed 0.6666667
    assert!((l - 0.1).abs() <= 1e-4 * 0.1, "mean loss {l}, expected 0.1"); // observed 0.083333336
}
