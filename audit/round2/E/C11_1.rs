// C11 — confirmed violation 1: `Accumulation::Mean` overflows to +-inf (and then NaN) although the mean
// itself is an ordinary finite f32.
//
// Configuration (inside the quantifier: flat block, output shape == input shape, L = 2, the output-skip
// and the input-skip flag combinations, the `Mean` accumulation, a finite input):
//   block  = [ Dense(1 -> 1, Linear, no bias) ] with the weight set to 1.0 (the identity), shared by both
//            repetitions,
//   input  = [2.0e38]            (finite; f32::MAX is 3.4028235e38)
//
// Expected (written out by hand, in exact arithmetic, confirmed in f64 below):
//   every repetition outputs 2.0e38 (identity);
//   output skips: out = mean(rep_2, rep_1)            = (2e38 + 2e38) / 2 = 2e38
//   input  skips: rep_2 gets mean(rep_1, block input) = (2e38 + 2e38) / 2 = 2e38, so out = 2e38
// Observed: +inf in both cases (with a 2-unit identity layer the inf is then multiplied by the 0 weights of
// the next repetition and the block returns NaN).
//
// Cause: src/tensor.rs, Tensor::mean_inplace: `*val = (*val + sum) / n;` — the operands are summed in f32
// before the division, so the intermediate sum exceeds f32::MAX whenever |operands| > f32::MAX / n, although
// the documented result (the mean) is representable. Used by Feedback::forward for both skip kinds
// (src/feedback.rs, the two `Accumulation::Mean` arms).
//
// Run: cargo test --offline --features verif --test C11_1   (after copying to tests/)
use neurons::activation::Activation;
use neurons::feedback::{self, Accumulation};
use neurons::network::Network;
use neurons::tensor::{Data, Shape, Tensor};
use neurons::verif;

fn block(inskips: bool, outskips: bool) -> Network {
    let mut net = Network::new(Shape::Single(1));
    net.feedback(
        vec![feedback::Layer::Dense(1, Activation::Linear, false, None)],
        2,
        inskips,
        outskips,
        Accumulation::Mean,
    );
    // identity weight in every (shared) repetition
    let mut p = verif::params(&net);
    for inner in p[0].inner.iter_mut() {
        inner.weights = vec![Tensor::double(vec![vec![1.0]])];
    }
    verif::set_params(&mut net, &p);
    net
}

fn value(t: &Tensor) -> f32 {
    match &t.data {
        Data::Single(d) => d[0],
        _ => panic!("expected a flat output"),
    }
}

#[test]
fn mean_of_two_large_equal_values_is_that_value() {
    let x = 2.0e38f32;
    // independent reference in f64
    let expected = ((x as f64 + x as f64) / 2.0) as f32;
    assert_eq!(expected, x);
    assert!(expected.is_finite());

    let out_skip = value(&block(false, true).predict(&Tensor::single(vec![x])));
    let in_skip = value(&block(true, false).predict(&Tensor::single(vec![x])));
    println!("expected {:e}; output skips -> {:e}; input skips -> {:e}", expected, out_skip, in_skip);
    assert_eq!(out_skip, expected, "output skips, Mean");
    assert_eq!(in_skip, expected, "input skips, Mean");
}
