// C15 — borderline (strict reading of "addition and scalar division also nested lists"):
// div_scalar_inplace supports Data::Nested but panics ("Invalid div_scalar.") on Data::NestedOptional, the
// nested list that add_inplace does support and that carries the bias gradients of feedback blocks.
//
// Input: t = [Some([2, 4]), None]; t /= 2
// Expected: [Some([1, 2]), None]
// Observed: panic "Invalid div_scalar." (src/tensor.rs:967-995 has no NestedOptional arm; add_inplace has one at :860).
use neurons::tensor::{Data, Tensor};

#[test]
fn scalar_division_of_nested_optional_list() {
    let mut t = Tensor::nestedoptional(vec![Some(Tensor::single(vec![2.0, 4.0])), None]);
    t.div_scalar_inplace(2.0);
    match &t.unnestedoptional()[0].as_ref().unwrap().data {
        Data::Single(v) => assert_eq!(v, &vec![1.0, 2.0]),
        _ => panic!(),
    }
    assert!(t.unnestedoptional()[1].is_none());
}
