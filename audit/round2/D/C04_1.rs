// C04 — confirmed: a feedback block added AFTER Network::set_optimizer is trained with its own
// default optimizer SGD(learning rate 0.1) instead of the optimizer configured on the network.
//
// Sequence: Network::new -> set_optimizer(SGD(0.01)) -> dense -> feedback(..) -> dense -> learn(1 sample, B=1, E=1).
// Expected (C04: "for each group apply exactly one optimizer step ... to the sum of the per-sample gradients"):
//   every parameter p becomes p - 0.01 * g, g = gradient of the single sample at the initial weights
//   (g taken from forward + objective + verif::backward, i.e. not from learn()); a single-loop block has
//   nothing to couple, so this also holds for the block's layer.
// Observed: the two dense layers move by 0.01 * g, the layer inside the block moves by 0.1 * g
//   (ratio of the step to g is 0.1, i.e. the default of Feedback::create, src/feedback.rs:253;
//   only Network::set_optimizer copies the optimizer into blocks, src/network.rs:777-782, and
//   Network::feedback (src/network.rs:523) does not).
// The same build with set_optimizer called last gives p - 0.01 * g everywhere.
//
// run: cargo test --offline --features verif --test C04_1
use neurons::activation::Activation;
use neurons::feedback::{Accumulation, Layer as FL};
use neurons::network::Network;
use neurons::objective::{Function, Objective};
use neurons::optimizer;
use neurons::tensor::{Data, Shape, Tensor};
use neurons::verif;

fn flat(t: &Tensor) -> Vec<f32> {
    match &t.data {
        Data::Single(v) => v.clone(),
        Data::Double(v) => v.iter().flatten().cloned().collect(),
        _ => panic!(),
    }
}

fn build(early: bool) -> Network {
    let mut n = Network::new(Shape::Single(2));
    if early {
        n.set_optimizer(optimizer::SGD::create(0.01, None));
    }
    n.dense(2, Activation::Linear, false, None);
    n.feedback(vec![FL::Dense(2, Activation::Linear, false, None)], 1, false, false, Accumulation::Mean);
    n.dense(1, Activation::Linear, false, None);
    if !early {
        n.set_optimizer(optimizer::SGD::create(0.01, None));
    }
    // fixed parameters
    let mut p = verif::params(&n);
    p[0].weights[0] = Tensor::double(vec![vec![0.5, -0.25], vec![0.75, 1.0]]);
    p[1].inner[0].weights[0] = Tensor::double(vec![vec![1.0, 0.5], vec![-0.5, 0.25]]);
    p[2].weights[0] = Tensor::double(vec![vec![0.5, -1.0]]);
    verif::set_params(&mut n, &p);
    n
}

#[test]
fn optimizer_set_before_feedback_block() {
    let x = Tensor::single(vec![1.0, 2.0]);
    let y = Tensor::single(vec![1.0]);
    for early in [false, true] {
        let mut n = build(early);
        let before = verif::params(&n);
        // gradient of the single sample at the initial weights
        let (pre, post, max, fb) = n.forward(&x);
        let (_, grad) = Function::create(Objective::MSE, None).loss(post.last().unwrap(), &y);
        let (wg, _) = verif::backward(&n, grad, &pre, &post, &max, fb);
        let g_block = flat(&wg[1].unnested()[0]); // gradients come in reverse layer order
        let g_first = flat(&wg[2]);
        n.learn(&vec![&x], &vec![&y], None, 1, 1, None);
        let after = verif::params(&n);
        let w0 = flat(&before[0].weights[0]);
        let w1 = flat(&after[0].weights[0]);
        let b0 = flat(&before[1].inner[0].weights[0]);
        let b1 = flat(&after[1].inner[0].weights[0]);
        for i in 0..4 {
            let exp_first = w0[i] - 0.01 * g_first[i];
            let exp_block = b0[i] - 0.01 * g_block[i];
            assert!((w1[i] - exp_first).abs() < 1e-6, "early={} first dense [{}]: {} expected {}", early, i, w1[i], exp_first);
            assert!(
                (b1[i] - exp_block).abs() < 1e-6,
                "early={} block layer [{}]: {} expected {} (step/gradient = {}, configured 0.01)",
                early, i, b1[i], exp_block, (b0[i] - b1[i]) / g_block[i]
            );
        }
    }
}
