// C15 — confirmed: Tensor::mean_inplace returns +/-inf for finite operands whose mean is representable.
//
// Input: self = [MAX, 3e38, -3e38, -3e38], others = [[MAX, 3e38, -3e38, 3e38]] (k = 1, every rank 1-D..4-D), and
//        self = [-3e38], others = [[3e38], [3e38]] (k = 2).
// Expected: the element-wise mean: [MAX, 3e38, -3e38, 0] and [1e38] (all finite, computed in f64 and rounded to f32;
//           the statement claims the result "for all finite contents").
// Observed: [inf, inf, -inf, 0] and [inf].
// Cause: src/tensor.rs:1005-1068 forms `(*val + sum_of_others) / n`; the intermediate sum overflows
//        (for k = 2 even the partial sum of the others alone: 3e38 + 3e38).
use neurons::tensor::{Data, Tensor};

fn flat(t: &Tensor) -> Vec<f32> {
    match &t.data {
        Data::Single(v) => v.clone(),
        Data::Double(v) => v.iter().flatten().cloned().collect(),
        Data::Triple(v) => v.iter().flatten().flatten().cloned().collect(),
        Data::Quadruple(v) => v.iter().flatten().flatten().flatten().cloned().collect(),
        _ => panic!(),
    }
}

#[test]
fn mean_of_large_finite_values() {
    let a = vec![f32::MAX, 3.0e38, -3.0e38, -3.0e38];
    let b = vec![f32::MAX, 3.0e38, -3.0e38, 3.0e38];
    let expect: Vec<f32> = a.iter().zip(&b).map(|(x, y)| ((*x as f64 + *y as f64) / 2.0) as f32).collect();
    let mk: Vec<Box<dyn Fn(&Vec<f32>) -> Tensor>> = vec![
        Box::new(|v| Tensor::single(v.clone())),
        Box::new(|v| Tensor::double(vec![v[..2].to_vec(), v[2..].to_vec()])),
        Box::new(|v| Tensor::triple(vec![vec![v[..2].to_vec()], vec![v[2..].to_vec()]])),
        Box::new(|v| Tensor::quadruple(vec![vec![vec![v[..2].to_vec()], vec![v[2..].to_vec()]]])),
    ];
    let mut failures = Vec::new();
    for (rank, m) in mk.iter().enumerate() {
        let mut t = m(&a);
        t.mean_inplace(&vec![&m(&b)]);
        if flat(&t) != expect {
            failures.push(format!("rank {}: {:?} expected {:?}", rank + 1, flat(&t), expect));
        }
    }
    let mut t = Tensor::single(vec![-3.0e38]);
    t.mean_inplace(&vec![&Tensor::single(vec![3.0e38]), &Tensor::single(vec![3.0e38])]);
    let e = ((-3.0e38f32 as f64 + 3.0e38f32 as f64 + 3.0e38f32 as f64) / 3.0) as f32;
    if flat(&t) != vec![e] {
        failures.push(format!("k = 2: {:?} expected {:?}", flat(&t), e));
    }
    assert!(failures.is_empty(), "{:#?}", failures);
}
