// C04 — borderline (the quantifier of C04 does not mention validation data; reported because it changes E):
// with validation data and early-stopping tolerance 1, learn() stops after epoch 2 although the validation
// loss DEcreased, printing "Validation loss has increased for the last 1 epochs".
//
// Configuration: 3-4-2 MLP, SGD(0.01), MSE, N = 5, B = 2, E = 6, validation = training data, tolerance 1.
// Expected: 6 epochs (documented: "If the validation loss does not improve for this many epochs, the training
//   stops"; the validation loss is strictly decreasing here: 0.0899, 0.0864, ... as the run with tolerance 2 shows).
// Observed: 2 epochs. Cause: src/network.rs:957-972 — for threshold = 1 the loop `for i in 0..threshold-1`
//   is empty, so `increasing` stays true. (tolerance 0 panics with "attempt to subtract with overflow" at
//   src/network.rs:962, a negative tolerance with index out of bounds at :963.)
use neurons::activation::Activation;
use neurons::network::Network;
use neurons::optimizer;
use neurons::tensor::{Shape, Tensor};
use neurons::verif;

#[test]
fn tolerance_one_stops_although_validation_loss_decreases() {
    let xs: Vec<Tensor> = (0..5).map(|i| Tensor::single(vec![0.1 * i as f32, 0.5 - 0.2 * i as f32, 0.3])).collect();
    let ys: Vec<Tensor> = (0..5).map(|i| Tensor::single(vec![0.2 * i as f32, 1.0 - 0.1 * i as f32])).collect();
    let xr: Vec<&Tensor> = xs.iter().collect();
    let yr: Vec<&Tensor> = ys.iter().collect();
    let mut lens = Vec::new();
    for tol in [2, 1] {
        let mut n = Network::new(Shape::Single(3));
        n.dense(4, Activation::Tanh, true, None);
        n.dense(2, Activation::Linear, true, None);
        let mut p = verif::params(&n);
        p[0].weights[0] = Tensor::double((0..4).map(|i| (0..3).map(|j| 0.1 * (i as f32) - 0.15 * (j as f32)).collect()).collect());
        p[0].bias = Some(Tensor::single(vec![0.0; 4]));
        p[1].weights[0] = Tensor::double((0..2).map(|i| (0..4).map(|j| 0.2 - 0.1 * (i as f32) + 0.05 * (j as f32)).collect()).collect());
        p[1].bias = Some(Tensor::single(vec![0.0; 2]));
        verif::set_params(&mut n, &p);
        n.set_optimizer(optimizer::SGD::create(0.01, None));
        let (tl, vl, _) = n.learn(&xr, &yr, Some((&xr, &yr, tol)), 2, 6, None);
        assert!(vl.windows(2).all(|w| w[1] < w[0]), "validation loss is decreasing: {:?}", vl);
        lens.push(tl.len());
    }
    assert_eq!(lens[0], 6);
    assert_eq!(lens[1], 6, "tolerance 1: stopped after {} epochs although the validation loss never increased", lens[1]);
}
