// ASIDE (outside C04 / C09 / C15; met while building C09 architectures). Not counted as a finding for
// the three audited properties; kept because it makes training crash or silently wrong.
//
// Feedback::backward (src/feedback.rs:549-562) adds the gradient of a block-internal skip connection
//   (a) to the gradient with respect to the OUTPUT of the source position (it is added to `gradients.last()`
//       before the source layer's own backward), although the forward pass reads `activated[idx]`, the INPUT
//       of layer idx; and
//   (b) takes it from gradients[len - j - 1] (gradient wrt the output of layer j) instead of the gradient wrt
//       the input of layer j.
// Consequences:
//   1. silently wrong gradients upstream of a block with inskips and/or outskips (finite differences below:
//      relative error 3e-2 in the test below and O(1) for other weights, against 3e-5 for the same block without skips);
//   2. a loud panic in learn() ("assertion failed: left == right (Triple(1,4,4) vs Single(16))") when a one-layer block of
//      spatial layers with inskips (loops = 2), or a two-layer spatial block with inskips and outskips (loops = 3),
//      is followed by a dense layer: the flattened output gradient is added to a spatial one.
use neurons::activation::Activation;
use neurons::feedback::{Accumulation, Layer as FL};
use neurons::network::Network;
use neurons::objective::{Function, Objective};
use neurons::tensor::{Data, Shape, Tensor};
use neurons::verif;

fn flat(t: &Tensor) -> Vec<f32> {
    match &t.data {
        Data::Single(v) => v.clone(),
        Data::Double(v) => v.iter().flatten().cloned().collect(),
        _ => panic!(),
    }
}

#[test]
fn upstream_gradient_with_block_skips_vs_finite_differences() {
    for (inskips, outskips) in [(false, false), (true, false), (false, true)] {
        let mut n = Network::new(Shape::Single(2));
        n.dense(2, Activation::Tanh, false, None);
        n.feedback(vec![FL::Dense(2, Activation::Tanh, false, None)], 2, inskips, outskips, Accumulation::Add);
        n.dense(1, Activation::Linear, false, None);
        let mut p = verif::params(&n);
        p[0].weights[0] = Tensor::double(vec![vec![0.5, -0.25], vec![0.75, 0.4]]);
        for i in 0..2 {
            p[1].inner[i].weights[0] = Tensor::double(vec![vec![0.6, 0.5], vec![-0.5, 0.25]]);
        }
        p[2].weights[0] = Tensor::double(vec![vec![0.5, -1.0]]);
        verif::set_params(&mut n, &p);
        let x = Tensor::single(vec![0.3, -0.7]);
        let y = Tensor::single(vec![0.2]);
        let (pre, post, max, fb) = n.forward(&x);
        let (_, grad) = Function::create(Objective::MSE, None).loss(post.last().unwrap(), &y);
        let (wg, _) = verif::backward(&n, grad, &pre, &post, &max, fb);
        let g = flat(&wg[2]); // first dense layer
        let loss = |n: &Network| {
            let d = flat(&n.predict(&x))[0] as f64 - 0.2;
            d * d
        };
        let mut worst = 0.0f64;
        for i in 0..4 {
            let h = 1e-3f32;
            let mut w = flat(&p[0].weights[0]);
            w[i] += h;
            let mut q = p.clone();
            q[0].weights[0] = Tensor::double(w.chunks(2).map(|c| c.to_vec()).collect());
            verif::set_params(&mut n, &q);
            let lp = loss(&n);
            w[i] -= 2.0 * h;
            q[0].weights[0] = Tensor::double(w.chunks(2).map(|c| c.to_vec()).collect());
            verif::set_params(&mut n, &q);
            let lm = loss(&n);
            let fd = (lp - lm) / (2.0 * h as f64);
            worst = worst.max((fd - g[i] as f64).abs() / (1e-3 + fd.abs()));
        }
        println!("inskips {} outskips {}: worst relative error {:.3e}", inskips, outskips, worst);
        assert!(worst < 2e-2, "inskips {} outskips {}: analytic gradient of the layer before the block is off by {:.3e} (relative)", inskips, outskips, worst);
    }
}

#[test]
fn one_layer_spatial_block_with_inskips_before_dense_trains() {
    let mut n = Network::new(Shape::Triple(1, 4, 4));
    n.feedback(vec![FL::Convolution(1, Activation::Tanh, (3, 3), (1, 1), (1, 1), (1, 1), None)], 2, true, false, Accumulation::Add);
    n.dense(2, Activation::Linear, true, None);
    let x = Tensor::triple(vec![vec![vec![0.1; 4]; 4]]);
    let y = Tensor::single(vec![0.0, 1.0]);
    n.learn(&vec![&x], &vec![&y], None, 1, 1, None); // panics
}
