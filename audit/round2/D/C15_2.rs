// C15 — borderline (strict reading of "addition ... also nested lists ... refuse operands whose shapes differ"):
// add_inplace on nested lists of optional tensors does not refuse operands whose Some/None pattern differs;
// the unmatched entries are silently skipped (an operand's tensor is dropped, or the receiver's stays unchanged).
//
// Input: a = [Some([1]), None], b = [Some([1]), Some([7])]  -> a += b
// Expected: refusal (panic), as for every other structural mismatch (and as Network::learn does explicitly for the
//           top-level bias gradients: "Expected None, got Some.").
// Observed: accepted; a = [Some([2]), None] — the 7 is lost. Likewise [Some,Some] += [None,Some] is accepted.
// Cause: src/tensor.rs:860-866 `if let (Some(t1), Some(t2)) = ...` without an else branch; both shapes are Nested(2).
use neurons::tensor::Tensor;
use std::panic::{catch_unwind, AssertUnwindSafe};

#[test]
fn nested_optional_pattern_mismatch_is_refused() {
    let mut a = Tensor::nestedoptional(vec![Some(Tensor::single(vec![1.0])), None]);
    let b = Tensor::nestedoptional(vec![Some(Tensor::single(vec![1.0])), Some(Tensor::single(vec![7.0]))]);
    assert!(catch_unwind(AssertUnwindSafe(|| a.add_inplace(&b))).is_err(), "[Some, None] += [Some, Some] was accepted");
    let mut c = b.clone();
    let d = Tensor::nestedoptional(vec![None, Some(Tensor::single(vec![7.0]))]);
    assert!(catch_unwind(AssertUnwindSafe(|| c.add_inplace(&d))).is_err(), "[Some, Some] += [None, Some] was accepted");
}
