// C15 — borderline ("matrix-vector product ... obey their definitions", quantifier "all shape-mismatched operand pairs"):
// Tensor::dot does not check that the number of columns equals the vector length; it silently truncates to the
// shorter of the two (documented requirement: "This Tensor's columns must be equal to the other Tensor's rows").
//
// Input: M = [[1,2,3],[4,5,6]] (2x3); v = [1,1] and v = [1,1,1,1]
// Expected: refusal — M.v is not defined for these lengths.
// Observed: [3, 9] (third column ignored) and [6, 15] (fourth component ignored).
// Cause: src/tensor.rs:1140-1157, `row.iter().zip(data2.iter())`. Dense::forward (src/dense.rs:122) relies on it, so a
// dense network fed an input of the wrong length predicts silently.
use neurons::tensor::Tensor;
use std::panic::{catch_unwind, AssertUnwindSafe};

#[test]
fn dot_refuses_mismatched_lengths() {
    let m = Tensor::double(vec![vec![1.0, 2.0, 3.0], vec![4.0, 5.0, 6.0]]);
    for n in [2usize, 4] {
        let v = Tensor::single(vec![1.0; n]);
        let r = catch_unwind(AssertUnwindSafe(|| m.dot(&v)));
        assert!(r.is_err(), "2x3 matrix times vector of length {} accepted: {:?}", n, r.unwrap().data);
    }
}
