// C17 - the repeated passes of a loop connection drop a skip connection that lies inside the looped
// range, so with overwrite accumulation the result is NOT that of the plain network in which layers
// a..b (with their skip connection) are repeated k+1 times with shared weights.
//
// Network: input 3; layer 0 = dense 3->3 tanh, layer 1 = dense 3->3 tanh; connect(0, 1) (the input of
// layer 0 is added to the input of layer 1, default skip accumulation Add); loopback(1, 0, k = 1),
// loop accumulation Overwrite, no input skips.
// Let B(v) = L1(L0(v) + v) be "layers 0..1" as the network applies them in its ordinary pass.
// Expected: B(B(x)) - identical to the 4-layer plain network L0, L1, L0, L1 with connect(0,1) and
// connect(2,3) and shared weights (built below with the library itself, and in f64).
// Observed: L1(L0(B(x))) - the second pass runs without the skip connection
//   x = (0.3,-0.7,0.9), weights below: expected / plain network (0.129664, -0.471980, -0.236533),
//   looped network (-0.416592, 0.638549, -0.039277).
// Cause: src/network.rs Network::forward handles `self.connect` only in its outer per-layer loop; the loop
// iterations call Network::_forward(into..=outof), which never looks at `self.connect` (nor at
// `skipaccumulation`).  Same root cause: with input skips the "original input of layer a" is taken
// as activated[into], i.e. without the skipped-in part, when layer a is a skip target.
// Quantifier: "for all networks and ranges a <= b whose output shape matches the input shape of a";
// the network above is accepted without complaint by connect() and loopback().
use neurons::activation::Activation;
use neurons::feedback::Accumulation;
use neurons::network::Network;
use neurons::tensor::{Shape, Tensor};
use neurons::verif;
use std::sync::Arc;

fn w0() -> Vec<Vec<f32>> {
    vec![vec![0.5, -0.3, 0.8], vec![-0.6, 0.9, 0.2], vec![0.1, 0.7, -0.4]]
}
fn w1() -> Vec<Vec<f32>> {
    vec![vec![-0.7, 0.4, 0.3], vec![0.2, 0.6, -0.9], vec![0.8, -0.1, 0.5]]
}

fn dense_f64(w: &Vec<Vec<f32>>, x: &[f64]) -> Vec<f64> {
    w.iter()
        .map(|row| row.iter().zip(x.iter()).map(|(a, b)| *a as f64 * b).sum::<f64>().tanh())
        .collect()
}

#[test]
fn loop_over_a_range_with_a_skip_connection_repeats_the_range() {
    let x = vec![0.3f32, -0.7, 0.9];

    // looped network
    let mut looped = Network::new(Shape::Single(3));
    looped.dense(3, Activation::Tanh, false, None);
    looped.dense(3, Activation::Tanh, false, None);
    looped.connect(0, 1);
    looped.loopback(1, 0, 1, Arc::new(|x| 1.0 / x), false);
    looped.set_accumulation(Accumulation::Add, Accumulation::Overwrite);
    let mut p = verif::params(&looped);
    p[0].weights[0] = Tensor::double(w0());
    p[1].weights[0] = Tensor::double(w1());
    verif::set_params(&mut looped, &p);

    // plain network: the range repeated twice, shared weights
    let mut plain = Network::new(Shape::Single(3));
    for _ in 0..4 {
        plain.dense(3, Activation::Tanh, false, None);
    }
    plain.connect(0, 1);
    plain.connect(2, 3);
    let mut q = verif::params(&plain);
    for i in 0..4 {
        q[i].weights[0] = Tensor::double(if i % 2 == 0 { w0() } else { w1() });
    }
    verif::set_params(&mut plain, &q);

    // f64 reference of the same thing
    let block = |v: &Vec<f64>| -> Vec<f64> {
        let a = dense_f64(&w0(), v);
        let a: Vec<f64> = a.iter().zip(v.iter()).map(|(a, b)| a + b).collect();
        dense_f64(&w1(), &a)
    };
    let xin: Vec<f64> = x.iter().map(|v| *v as f64).collect();
    let want = block(&block(&xin));

    let got_plain = plain.predict(&Tensor::single(x.clone())).get_flat();
    let got_loop = looped.predict(&Tensor::single(x.clone())).get_flat();
    println!("expected (f64)      {:?}", want);
    println!("plain network (lib) {:?}", got_plain);
    println!("looped network      {:?}", got_loop);
    for i in 0..3 {
        assert!((got_plain[i] as f64 - want[i]).abs() < 1e-5); // the oracle agrees with the library's plain net
    }
    for i in 0..3 {
        assert!(
            (got_loop[i] as f64 - want[i]).abs() < 1e-4,
            "component {}: looped {} vs repeated plain network {}",
            i,
            got_loop[i],
            want[i]
        );
    }
}
