// C07 - sigmoid backward is not the derivative of the sigmoid for positive inputs above ~12
// (relative error grows to 100 %: the result is exactly 0 from x = 16.635532 upwards, where the
// true derivative is up to 5.96e-8, an ordinary normal f32) although the SAME derivative is
// returned correctly for -x.  sigmoid' is an even function: sigmoid'(x) = sigmoid'(-x).
//
// Expected (f64 reference s(x)*s(-x), and by evenness the library's own value at -x):
//   sigmoid'(17)  = 4.1399e-8      sigmoid'(15) = 3.0590e-7     sigmoid'(20) = 2.0612e-9
// Observed (library, f32):
//   backward(17)  = 0              backward(15) = 3.5763e-7 (+17 %)   backward(16) = 1.1921e-7 (+6 %)
//   backward(20)  = 0              backward(-17) = 4.1399e-8 (correct)
// Cause: src/activation.rs Sigmoid::backward (both rank copies) computes y * (1.0 - y) with
// y = 1/(1+exp(-x)); for x > 0, y rounds to 1 - m*2^-24 and 1 - y cancels catastrophically
// (y == 1.0 exactly for x >= 16.635532).  s(x)*s(-x), or y*(1-y) evaluated with y = s(-|x|), is exact
// to 1 ulp.  19 502 782 of the finite bit patterns return 0 where the derivative is >= f32::MIN_POSITIVE.
use neurons::activation::{Activation, Function};
use neurons::tensor::Tensor;

fn reference(x: f32) -> f64 {
    let x = x as f64;
    (1.0 / (1.0 + (-x).exp())) * (1.0 / (1.0 + x.exp()))
}

#[test]
fn sigmoid_backward_is_the_derivative_for_positive_inputs() {
    let f = Function::create(&Activation::Sigmoid);
    let xs = vec![12.5f32, 15.0, 16.0, 16.635532, 17.0, 20.0, 40.0, 80.0];
    let neg: Vec<f32> = xs.iter().map(|v| -v).collect();
    let pos = f.backward(&Tensor::single(xs.clone())).get_flat();
    let mir = f.backward(&Tensor::single(neg)).get_flat();
    let mut bad = 0;
    for i in 0..xs.len() {
        let want = reference(xs[i]);
        let rel = ((pos[i] as f64) - want).abs() / want;
        let rel_m = ((mir[i] as f64) - want).abs() / want;
        println!(
            "x = {:10}  backward(x) = {:e}  backward(-x) = {:e}  exact = {:e}  rel.err(x) = {:.3}  rel.err(-x) = {:.1e}",
            xs[i], pos[i], mir[i], want, rel, rel_m
        );
        assert!(rel_m < 1e-6); // the mirrored value is right
        if rel > 1e-2 {
            bad += 1;
        }
    }
    assert_eq!(bad, 0, "sigmoid'(x) is off by more than 1 % at {} of {} positive inputs", bad, xs.len());
}
