// C07 - soft-max outputs do not sum to one (and are individually wrong) for long vectors.
//
// Input: n = 2^25 equal entries (any finite value; 0.25 here).  Expected: every output = 1/n =
// 2.98e-8 and the outputs sum to 1 (soft-max of equal logits is the uniform distribution).
// Observed: every output = 5.96e-8 = 2^-24 (twice the right value) and the outputs sum to 2.0.
// With n = 2^24 + 2^22 the sum is 1.25; with pseudo-random entries in [-1,1]: n = 4e6 -> 1.0020,
// n = 1e7 -> 0.9859, n = 4e7 -> 1.118.
// Cause: src/activation.rs Softmax::forward accumulates the normaliser `sum += exp` sequentially in
// f32; once the partial sum reaches 2^24, adding 1.0 (or anything <= 1) no longer changes it, so the
// denominator is capped at 16 777 216 (and biased by rounding long before that).
// Quantifier: "all vector lengths and finite input vectors for soft-max".
use neurons::activation::{Activation, Function};
use neurons::tensor::Tensor;

#[test]
fn softmax_of_a_long_vector_sums_to_one() {
    let n = 1usize << 25;
    let f = Function::create(&Activation::Softmax);
    let y = f.forward(&Tensor::single(vec![0.25f32; n])).get_flat();
    let sum: f64 = y.iter().map(|&v| v as f64).sum();
    println!("n = {}  y[0] = {:e}  1/n = {:e}  sum of outputs = {}", n, y[0], 1.0 / n as f64, sum);
    assert!((sum - 1.0).abs() < 1e-3, "outputs sum to {}", sum);
}
