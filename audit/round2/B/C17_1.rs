// C17 - mean accumulation of a loop overflows to +-inf although the mean itself is representable.
//
// Network: one dense layer 1 -> 1, identity (weight 1, no bias, linear activation);
// loopback(0, 0, k = 1), loop accumulation = Mean, no input skips.
// The two successive outputs for input x are x and x, so the value passed on is mean(x, x) = x.
// Expected: x = 2e38 -> 2e38 (f32::MAX -> f32::MAX; -3e38 -> -3e38).   [mean of equal numbers]
// Observed: +inf (resp. -inf).  With k = 3 already x = 1e38 gives +inf.
// Cause: src/tensor.rs Tensor::mean_inplace computes `(*val + sum) / n` - the sum of the k+1 outputs is
// formed in f32 before dividing (all four rank copies); called from the Mean branch of the loop
// accumulation in src/network.rs Network::forward.  Dividing each term first (or accumulating in
// f64) keeps the result finite.  Inside the quantifier: "all five accumulations ... all inputs" -
// the input and the result are finite f32 values.
use neurons::activation::Activation;
use neurons::feedback::Accumulation;
use neurons::network::Network;
use neurons::tensor::{Shape, Tensor};
use neurons::verif;
use std::sync::Arc;

fn identity_loop(k: usize) -> Network {
    let mut net = Network::new(Shape::Single(1));
    net.dense(1, Activation::Linear, false, None);
    let mut p = verif::params(&net);
    p[0].weights[0] = Tensor::double(vec![vec![1.0]]);
    verif::set_params(&mut net, &p);
    net.loopback(0, 0, k, Arc::new(|x| 1.0 / x), false);
    net.set_accumulation(Accumulation::Add, Accumulation::Mean);
    net
}

#[test]
fn mean_of_equal_large_outputs_is_that_output() {
    let mut bad = 0;
    for (k, x) in [(1usize, 1.0f32), (1, 2e38), (1, f32::MAX), (1, -3e38), (3, 1e38)] {
        let got = identity_loop(k).predict(&Tensor::single(vec![x])).get_flat()[0];
        println!("k = {}  x = {:e}  expected {:e}  observed {:e}", k, x, x, got);
        if got != x {
            bad += 1;
        }
    }
    assert_eq!(bad, 0);
}
