// C06_1 — RMSE gradient collapses to 0 when |actual - predicted| * n overflows f32
//
// Documented (src/objective.rs, RMSE::loss doc, and its unit test `test_rmse`, which expects 0.25 for n = 4):
//     gradient_i = -(actual_i - predicted_i) / (|actual_i - predicted_i| * n) = -sign(actual_i - predicted_i) / n
// for every finite residual; only the SIGN of the residual enters, so the magnitude must not matter.
//
// Input: n = 1000 elements (flat, and the same data as a 10x10x10 tensor), prediction = 0 everywhere,
//        target[0] = 1e36, target[1] = -1e36, target[2] = 1e30, all others 0. All values finite, far below f32::MAX (3.4e38).
// Expected (by hand from the formula): g[0] = -1/1000 = -0.001, g[1] = +0.001, g[2] = -0.001, rest 0.
// Observed: g[0] = -0.0, g[1] = 0.0, g[2] = -0.001.   (With a clamp (0.0005, 1.0) configured: expected g[1] -> 0.001, observed 0.0005.)
//
// Cause: src/objective.rs lines ~451-452 (3-D arm) and ~471 (flat arm):
//     -(actual - predicted) / ((actual - predicted).abs() * length) as f32
// `|d| * length` overflows to +inf as soon as |d| > f32::MAX / n (3.4e35 for n = 1000, 2.3e33 for a 3x224x224 output),
// and finite / inf = 0. Dividing in the other order (d / |d| / n) or using signum() would not overflow.
// (The reported RMSE *loss* is inf for such residuals — that is the already-known overflow of the squares; this is the gradient.)
//
// Run: cp found/C06_1.rs tests/ && cargo test --offline --test C06_1
use neurons::objective::{Function, Objective};
use neurons::tensor::Tensor;

fn to3(v: &[f32], c: usize, h: usize, w: usize) -> Tensor {
    let mut it = v.iter();
    Tensor::triple((0..c).map(|_| (0..h).map(|_| (0..w).map(|_| *it.next().unwrap()).collect()).collect()).collect())
}

#[test]
fn rmse_gradient_is_sign_over_n_for_large_finite_residuals() {
    let n = 1000usize;
    let p = vec![0.0f32; n];
    let mut t = vec![0.0f32; n];
    t[0] = 1e36;
    t[1] = -1e36;
    t[2] = 1e30;
    for rank3 in [false, true] {
        let (pt, tt) = if rank3 { (to3(&p, 10, 10, 10), to3(&t, 10, 10, 10)) } else { (Tensor::single(p.clone()), Tensor::single(t.clone())) };
        let (_, g) = Function::create(Objective::RMSE, None).loss(&pt, &tt);
        let g = g.get_flat();
        assert_eq!(g[2], -0.001, "rank3={rank3}");
        assert_eq!(g[0], -0.001, "rank3={rank3}: -sign(1e36 - 0)/1000");   // observed -0.0
        assert_eq!(g[1], 0.001, "rank3={rank3}: -sign(-1e36 - 0)/1000");   // observed 0.0
        let (_, gc) = Function::create(Objective::RMSE, Some((0.0005, 1.0))).loss(&pt, &tt);
        assert_eq!(gc.get_flat()[1], 0.001, "clamped: unclamped value 0.001 lies inside (0.0005, 1.0)"); // observed 0.0005
    }
}
