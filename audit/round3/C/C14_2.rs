// C14_2 -- BORDERLINE (vector -> vector is not one of the reshapes the statement enumerates, but it is a
// "source/target shape pair with unequal element counts"): Tensor::reshape does not refuse Single(n) -> Single(m).
//
// src/tensor.rs, Tensor::reshape, first arm: `(Shape::Single(_), Shape::Single(_)) => self` -- no element-count
// assertion, unlike the three other arms.
//
// Expected: reshape(Single(6) -> Single(4)) panics ("Reshape requires the same number of elements"), as
//           Single(6) -> Triple(1,2,2), Triple(1,2,3) -> Single(4) and Triple(1,2,3) -> Triple(1,2,2) do.
// Observed: returns the tensor unchanged, shape Single(6): the caller asked for 4 elements and silently holds 6.
// No call site inside the library reaches this with unequal counts (Network::connect / loopback assert the counts).
use neurons::tensor::{Shape, Tensor};
use std::panic::{catch_unwind, AssertUnwindSafe};

#[test]
fn vector_to_vector_with_other_length_is_refused() {
    let v = Tensor::single(vec![1.0, 2.0, 3.0, 4.0, 5.0, 6.0]);
    let res = catch_unwind(AssertUnwindSafe(|| v.clone().reshape(Shape::Single(4))));
    match res {
        Err(_) => (),
        Ok(t) => panic!("Single(6) -> Single(4) was not refused; returned shape {:?}", t.shape),
    }
}
