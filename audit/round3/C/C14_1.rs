// C14_1 -- the spatial layers' own vector -> 3-D reading accepts a vector with the wrong element count.
//
// Convolution::forward, Deconvolution::forward and Maxpool::forward each contain a hand-written copy of the
// "read a flat vector as (c, h, w)" logic (`vector.chunks_exact(h * w)` / `chunks_exact(w)`) instead of calling
// Tensor::get_triple / Tensor::reshape.  `chunks_exact` silently drops the remainder, and the layers only ever
// index the channels they expect, so a vector that is LONGER than c*h*w is accepted and its tail is ignored.
// (A shorter vector panics on an index, i.e. is refused.)  Tensor::get_triple had exactly this defect and was
// repaired in 7bedca1 ("silently truncates a vector that is longer than the requested shape"); the three copies
// in the layers were not.
//
// Expected (statement C14: a vector <-> 3-D reshape to a shape with a different element count is refused; this is
// what Tensor::reshape and Tensor::get_triple do for the very same pair Single(6) -> Triple(1, 2, 2)):
//     every call below panics.
// Observed: the three predict() calls return normally, and the output is bit-identical to the output for the
//     first 4 elements, i.e. elements 5 and 6 were dropped.  (During training the same input panics, because
//     the backward passes read it with Tensor::get_triple.)
//
// run: cargo test --offline --features verif --test C14_1 -- --nocapture   (copy to tests/ first)
use neurons::{activation::Activation, network::Network, tensor::{Shape, Tensor}};
use std::panic::{catch_unwind, AssertUnwindSafe};

#[test]
fn layers_refuse_a_vector_of_the_wrong_length() {
    let six = Tensor::single(vec![1.0, 2.0, 3.0, 4.0, 50.0, 60.0]);
    let four = Tensor::single(vec![1.0, 2.0, 3.0, 4.0]);

    // the library's own reshape / get_triple refuse this pair
    assert!(catch_unwind(AssertUnwindSafe(|| six.clone().reshape(Shape::Triple(1, 2, 2)))).is_err());
    assert!(catch_unwind(AssertUnwindSafe(|| six.get_triple(&Shape::Triple(1, 2, 2)))).is_err());

    let mut accepted = Vec::new();
    for kind in ["convolution", "deconvolution", "maxpool"] {
        let mut net = Network::new(Shape::Triple(1, 2, 2));
        match kind {
            "convolution" => net.convolution(1, (1, 1), (1, 1), (0, 0), (1, 1), Activation::Linear, None),
            "deconvolution" => net.deconvolution(1, (1, 1), (1, 1), (0, 0), Activation::Linear, None),
            _ => net.maxpool((1, 1), (1, 1)),
        }
        let res = catch_unwind(AssertUnwindSafe(|| net.predict(&six)));
        if let Ok(out) = res {
            let same = format!("{:?}", out.data) == format!("{:?}", net.predict(&four).data);
            println!("{}: 6-element vector read as 1x2x2 was accepted; output equals that of the first 4 elements: {}", kind, same);
            accepted.push(kind);
        }
    }
    assert!(accepted.is_empty(), "accepted by {:?}", accepted);
}
