// C12 — BORDERLINE (depends on how "within the given tolerance" is read).
//
// validate() scores a component only when |target - prediction| <  tol  (strict), see
// src/network.rs, Network::validate, the two `(..).abs() < tol` comparisons (single-output arm and
// the general arm). If "within the tolerance" is read inclusively (distance <= tol), then
//   * with tol = 0 an exactly correct prediction scores 0 instead of 1, and
//   * a component at distance exactly tol scores 0 instead of 1.
// Under the strict reading this is the defined behaviour and there is no violation.
//
// Set-up: a 2 -> 2 dense layer, linear, no bias, W = identity (set through the verif accessors), so
// predict(x) == x bit for bit (checked below). All numbers are exactly representable in f32, so no
// rounding is involved in the distances (0 and 0.5).
//
// Expected under the inclusive reading (derived by hand): accuracy 1.0 in both cases.
// Observed: accuracy 0.0 in both cases (and 1.0 as soon as tol is one ulp larger).
//
// Run: cargo test --offline --features verif --test C12_1 -- --nocapture   (copy to tests/ first)

use neurons::activation::Activation;
use neurons::network::Network;
use neurons::tensor::{Shape, Tensor};
use neurons::verif;

#[test]
fn tolerance_boundary_is_exclusive() {
    let mut net = Network::new(Shape::Single(2));
    net.dense(2, Activation::Linear, false, None);
    let mut p = verif::params(&net);
    p[0].weights[0] = Tensor::double(vec![vec![1.0, 0.0], vec![0.0, 1.0]]);
    verif::set_params(&mut net, &p);

    let x = Tensor::single(vec![1.0, 2.0]);
    assert_eq!(net.predict(&x).get_flat(), vec![1.0, 2.0]);

    // (a) exact prediction, tolerance 0: every component is at distance 0 <= 0.
    let t = Tensor::single(vec![1.0, 2.0]);
    let (loss, acc0) = net.validate(&[&x], &[&t], 0.0);
    assert_eq!(loss, 0.0);

    // (b) every component at distance exactly 0.5 == tol.
    let t2 = Tensor::single(vec![1.5, 2.5]);
    let (_, acc_eq) = net.validate(&[&x], &[&t2], 0.5);
    let (_, acc_gt) = net.validate(&[&x], &[&t2], 0.50000006); // next f32 above 0.5
    assert_eq!(acc_gt, 1.0);

    println!("tol 0, exact prediction: accuracy {}", acc0);
    println!("distance == tol        : accuracy {}", acc_eq);
    assert_eq!(acc0, 1.0, "exact prediction with tolerance 0 scores {}", acc0);
    assert_eq!(acc_eq, 1.0, "distance == tolerance scores {}", acc_eq);
}
