// C15 (letter of the statement; the library documents it): the scaled Hadamard product on raw 3-D data,
// `tensor::hadamard3d` (used by Convolution::backward and Deconvolution::backward), does not refuse operands
// of different shapes: every level is zipped, so the result is silently truncated to the common prefix.
//
// Expected ("scaled Hadamard product ... refuse operands whose shapes differ"; "Where the mechanism lives"
// names hadamard3d): a refusal for 2x2x2 (*) 1x1x3.  Observed: a 1x1x2 result [[[1*1, 2*2]]].
// Source: src/tensor.rs hadamard3d (doc comment: "For performance reasons, this function does not validate
// the length of the tensors"). Its callers obtain both operands through `Tensor::get_triple(&self.outputs)`,
// which returns `Data::Triple` contents unchanged without comparing them with the requested shape.
// The method `Tensor::hadamard` does refuse mismatched shapes in all four ranks.
use neurons::tensor;
use std::panic::{catch_unwind, AssertUnwindSafe};

#[test]
fn hadamard3d_accepts_mismatched_operands() {
    let a = vec![vec![vec![1.0f32, 2.0], vec![3.0, 4.0]], vec![vec![5.0, 6.0], vec![7.0, 8.0]]]; // 2x2x2
    let b = vec![vec![vec![1.0f32, 2.0, 9.0]]]; // 1x1x3
    let r = catch_unwind(AssertUnwindSafe(|| tensor::hadamard3d(&a, &b, 1.0)));
    if let Ok(v) = &r { println!("accepted; result {:?}", v); }
    assert!(r.is_err(), "mismatched operands accepted");
}
