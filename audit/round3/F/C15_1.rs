// C15 (minor): `Tensor::add_inplace` on nested lists of optional tensors (`Data::NestedOptional`, the
// representation of the bias gradients of feedback blocks that `Network::learn` sums over a batch)
// silently ACCEPTS operands whose structure differs: where one side holds `Some(tensor)` and the other `None`
// the pair is skipped, so an addend is dropped without any refusal.
//
// Expected (statement: "addition ... also nested lists", "refuse operands whose shapes differ", quantifier
// "all shape-mismatched operand pairs"): [Some([1,2]), None] + [None, Some([7])] is refused (panic), as it is
// for `Data::Nested` operands whose inner shapes differ and for NestedOptional operands whose inner tensors
// differ in shape.  Observed: no panic; the result is [Some([1,2]), None] -- the [7] is lost.
// Source: src/tensor.rs add_inplace, arm `(Data::NestedOptional, Data::NestedOptional)`:
//   `if let (Some(t1), Some(t2)) = (t1.as_mut(), t2.as_ref()) { t1.add_inplace(t2); }` (no else branch);
//   the preceding `assert_eq_shape!` only compares `Shape::Nested(len)`.
use neurons::tensor::Tensor;
use std::panic::{catch_unwind, AssertUnwindSafe};

#[test]
fn nested_optional_addition_accepts_mismatched_operands() {
    let other = Tensor::nestedoptional(vec![None, Some(Tensor::single(vec![7.0]))]);
    let result = catch_unwind(AssertUnwindSafe(|| {
        let mut this = Tensor::nestedoptional(vec![Some(Tensor::single(vec![1.0, 2.0])), None]);
        this.add_inplace(&other);
        this
    }));
    if let Ok(t) = &result {
        let parts = t.unnestedoptional();
        println!("accepted; result = {:?} / {:?}", parts[0].as_ref().map(|t| t.get_flat()), parts[1].as_ref().map(|t| t.get_flat()));
    }
    assert!(result.is_err(), "operands of different structure were added without refusal");
}
