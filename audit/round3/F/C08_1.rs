// C08 (low severity, loud): a spatial output feeding a DENSE layer is not flattened when that dense layer is
// the head of a feedback block; `Network::feedback` panics instead ("Invalid input- and output shape.").
//
// Expected (statement: "a spatial output feeding a dense layer is flattened", builder chaining
// "previous outputs -> next inputs, flatten flag (Network::dense / ... / feedback)"): the block is built with
// announced input Single(9) (= 1*3*3), exactly as `Network::dense` does after a convolution, and the forward
// pass returns 9 values. The mirror case (dense(9) -> feedback[convolution]) IS accepted and works.
// Observed: panic at src/dense.rs:81 from src/network.rs:468 (`Dense::create(input.clone(), ...)` is handed the
// Triple(1,3,3) output shape unchanged; no flatten flag is set on the preceding layer).
//
// Run: cargo test --offline --features verif --test C08_1
use neurons::activation::Activation;
use neurons::feedback;
use neurons::network::Network;
use neurons::tensor::{Shape, Tensor};

#[test]
fn spatial_output_into_feedback_block_of_dense_layers() {
    // reference: the same transition outside a block works
    let mut plain = Network::new(Shape::Triple(1, 3, 3));
    plain.convolution(1, (1, 1), (1, 1), (0, 0), (1, 1), Activation::Linear, None);
    plain.dense(9, Activation::Tanh, false, None);
    let x = Tensor::triple(vec![vec![vec![1.0, 2.0, 3.0], vec![4.0, 5.0, 6.0], vec![7.0, 8.0, 9.0]]]);
    assert_eq!(plain.predict(&x).shape, Shape::Single(9));

    // and so does the mirror transition into a block (flat -> spatial)
    let mut mirror = Network::new(Shape::Single(9));
    mirror.dense(9, Activation::Linear, false, None);
    mirror.feedback(
        vec![feedback::Layer::Convolution(1, Activation::Tanh, (3, 3), (1, 1), (1, 1), (1, 1), None)],
        2, false, false, feedback::Accumulation::Mean,
    );
    assert_eq!(mirror.predict(&Tensor::single(vec![0.5; 9])).shape, Shape::Triple(1, 3, 3));

    // spatial -> block of dense layers: panics in the builder
    let mut net = Network::new(Shape::Triple(1, 3, 3));
    net.convolution(1, (1, 1), (1, 1), (0, 0), (1, 1), Activation::Linear, None);
    net.feedback(
        vec![feedback::Layer::Dense(9, Activation::Tanh, false, None)],
        2, false, false, feedback::Accumulation::Mean,
    ); // <- observed: panic "Invalid input- and output shape."
    let y = net.predict(&x);
    assert_eq!(y.shape, Shape::Single(9)); // expected
}
