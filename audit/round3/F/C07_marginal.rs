// C07 -- MARGINAL OBSERVATION, not claimed as a violation (same family as the known "sigmoid' loses relative
// accuracy for large positive x"): results that are exactly representable only as SUBNORMAL floats are
// returned as 0.  Found by the exhaustive sweep over all finite bit patterns against an f64 reference:
//   sigmoid  forward : 0 for every x in [-103.28, -88.7229]   (exact value e^x, up to 2.9e-39)   1 907 896 patterns
//   sigmoid  backward: 0 on the same negative interval (and on the known positive one)
//   tanh     backward: 0 for 45.05 <= |x| <= 52.33              (exact value 4 e^-2|x|, up to 2.9e-39)  3 815 792 patterns
// Absolute error <= 2.94e-39 (< f32::MIN_POSITIVE); relative error 100 %.  Everything else held exactly:
// no NaN / inf anywhere, sigmoid in [0,1], tanh in [-1,1], ReLU / leaky ReLU / identity bit-exact, normal-range
// relative errors <= 1.5e-7 (sigmoid), 1.7e-7 (tanh), 3.2e-7 (tanh').
// Sources: src/activation.rs Sigmoid::forward/backward `1.0 / (1.0 + f32::exp(-v))` (exp overflows to inf for
// -v > 88.7229), Tanh::backward `1.0 / v.cosh().powi(2)` (cosh^2 overflows to inf for |v| > 45.05).
use neurons::activation::{Activation, Function};
use neurons::tensor::Tensor;

#[test]
fn subnormal_results_are_flushed_to_zero() {
    let s = Function::create(&Activation::Sigmoid);
    let t = Function::create(&Activation::Tanh);
    let y = s.forward(&Tensor::single(vec![-88.73, -95.0])).get_flat();
    let d = t.backward(&Tensor::single(vec![45.06, -50.0])).get_flat();
    println!("sigmoid(-88.73) = {:e} (exact {:e}); sigmoid(-95) = {:e} (exact {:e})", y[0], (-88.73f64).exp(), y[1], (-95f64).exp());
    println!("tanh'(45.06) = {:e} (exact {:e}); tanh'(-50) = {:e} (exact {:e})", d[0], 4.0 * (-90.12f64).exp(), d[1], 4.0 * (-100f64).exp());
    assert!(y[0] > 0.0 && y[1] > 0.0 && d[0] > 0.0 && d[1] > 0.0);
}
