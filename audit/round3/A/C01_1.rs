// C01 - the gradients used in training ignore the dropout mask of the forward pass.
//
// Network: Dense(3 -> 4, linear, bias, dropout 0.5) -> Dense(4 -> 2, linear, bias), MSE, SGD(lr = 1/16),
// one sample, batch 1, one epoch. learn() performs exactly one forward pass (training mode, dropout
// active), one backward pass and one SGD step, so  (w_before - w_after) / lr  IS the gradient the
// library computed for the sample.
//
// Expected value: the partial derivative of that sample's objective value. The objective value is the one
// learn() reports itself (train loss of the epoch = loss of the single sample, computed on the forward
// pass with dropout, before the update). With linear activations and MSE it is a quadratic polynomial in
// any single parameter, so the central difference  (L(w+h) - L(w-h)) / 2h  with h = 1/4 is the exact
// derivative (up to f32 rounding). L is obtained from fresh networks with learning rate 1e-30.
//
// Observed (this tree): hidden unit 0 is dropped by the mask (the training loss does not change at all
// when its incoming weights or its bias are changed: derivative exactly 0), but the library updates them
// with the gradient the unit would have had without dropout:
//     layer 0, w[0][0]: library +1.558594, true derivative 0
//     layer 0, w[0][1]: library -0.779297, true derivative 0
//     layer 0, w[0][2]: library +0.389648, true derivative 0
//     layer 0, b[0]   : library +1.558594, true derivative 0
// All other 18 parameters agree with the finite difference to < 1e-6, and without dropout all 22 agree
// exactly (control). Source: src/dense.rs Dense::forward applies `post.dropout(..)` (l.130-134) but
// Dense::backward (l.161-167) computes delta = f'(pre) * upstream without the mask; the same holds for
// Convolution / Deconvolution forward vs backward.
//
// Run: copy to tests/C01_1.rs, then
//      cargo test --offline --features verif --test C01_1 -- --nocapture

use neurons::verif::{self, LayerParams};
use neurons::{activation, network, objective, optimizer, tensor};

fn net(drop: Option<f32>, lr: f32) -> network::Network {
    let mut net = network::Network::new(tensor::Shape::Single(3));
    net.dense(4, activation::Activation::Linear, true, drop);
    net.dense(2, activation::Activation::Linear, true, None);
    net.set_objective(objective::Objective::MSE, None);
    net.set_optimizer(optimizer::SGD::create(lr, None));
    net
}
fn params() -> Vec<LayerParams> {
    vec![
        LayerParams {
            weights: vec![tensor::Tensor::double(vec![
                vec![0.5, -0.25, 0.75],
                vec![-0.5, 0.25, 1.0],
                vec![0.125, 0.5, -0.75],
                vec![1.0, -1.0, 0.5],
            ])],
            bias: Some(tensor::Tensor::single(vec![0.25, -0.5, 0.125, 0.75])),
            inner: vec![],
        },
        LayerParams {
            weights: vec![tensor::Tensor::double(vec![vec![0.5, -0.75, 0.25, 1.0], vec![-0.25, 0.5, 0.75, -0.5]])],
            bias: Some(tensor::Tensor::single(vec![0.125, -0.25])),
            inner: vec![],
        },
    ]
}
fn get(p: &[LayerParams], layer: usize, i: usize) -> f32 {
    let (rows, cols) = if layer == 0 { (4, 3) } else { (2, 4) };
    if i < rows * cols {
        match &p[layer].weights[0].data {
            tensor::Data::Double(w) => w[i / cols][i % cols],
            _ => unreachable!(),
        }
    } else {
        match &p[layer].bias.as_ref().unwrap().data {
            tensor::Data::Single(b) => b[i - rows * cols],
            _ => unreachable!(),
        }
    }
}
fn bump(p: &mut [LayerParams], layer: usize, i: usize, d: f32) {
    let (rows, cols) = if layer == 0 { (4, 3) } else { (2, 4) };
    if i < rows * cols {
        if let tensor::Data::Double(w) = &mut p[layer].weights[0].data {
            w[i / cols][i % cols] += d;
        }
    } else if let tensor::Data::Single(b) = &mut p[layer].bias.as_mut().unwrap().data {
        b[i - rows * cols] += d;
    }
}
/// Objective value of the sample in training mode, as reported by learn() (computed before the update).
fn training_loss(p: &[LayerParams], drop: Option<f32>, x: &tensor::Tensor, t: &tensor::Tensor) -> f64 {
    let mut n = net(drop, 1e-30);
    verif::set_params(&mut n, p);
    let (loss, _, _) = n.learn(&vec![x], &vec![t], None, 1, 1, None);
    loss[0] as f64
}

#[test]
fn training_gradient_is_the_derivative_of_the_training_objective() {
    let x = tensor::Tensor::single(vec![1.0, -0.5, 0.25]);
    let t = tensor::Tensor::single(vec![0.5, -1.0]);
    let lr = 0.0625f32;
    let mut failures = Vec::new();
    for drop in [None, Some(0.5f32)] {
        let mut n = net(drop, lr);
        let p0 = params();
        verif::set_params(&mut n, &p0);
        n.learn(&vec![&x], &vec![&t], None, 1, 1, None);
        let p1 = verif::params(&n);
        for layer in 0..2 {
            let count = if layer == 0 { 16 } else { 10 };
            for i in 0..count {
                let library = ((get(&p0, layer, i) - get(&p1, layer, i)) / lr) as f64;
                let h = 0.25f32;
                let (mut up, mut down) = (params(), params());
                bump(&mut up, layer, i, h);
                bump(&mut down, layer, i, -h);
                let expected = (training_loss(&up, drop, &x, &t) - training_loss(&down, drop, &x, &t)) / (2.0 * h as f64);
                if (library - expected).abs() > 1e-4 {
                    failures.push(format!(
                        "dropout {:?}, layer {}, parameter {}: library {:+.6}, derivative of the training objective {:+.6}",
                        drop, layer, i, library, expected
                    ));
                }
            }
        }
    }
    for f in &failures {
        println!("{}", f);
    }
    assert!(failures.is_empty(), "{} gradients are not the derivative of the sample's objective", failures.len());
}
