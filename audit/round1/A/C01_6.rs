// C01 violation 6: binary cross-entropy (and KL divergence) with a saturated sigmoid output: the gradient is neither the derivative
// of the cross-entropy nor of the (clamped) value the library reports.
//
// Network: Single(1) -> dense(1, Sigmoid, no bias), w = 1, x = 16, target a = 0.  pre = 16 (no activation kink), p = sigmoid(16)
// = 1 - 1.1253516e-7 (representable in f32: 0.99999988).
// BCE = -ln(1 - p) = 16.0000001;  d BCE / dw = (p - a) x = 15.999998.
// The library reports the value with p clamped to 1 - 1e-6: 13.8155 (constant in w there, derivative 0).
// Observed gradient: 1.88 - it is (p_c - a) / (p_c (1 - p_c)) * p (1 - p) * x with p_c the clamped and p the unclamped value
// (src/objective.rs BinaryCrossEntropy::loss clamps inside the gradient, src/dense.rs multiplies by the unclamped sigmoid derivative).
// Any |pre| > 13.8 (p outside [1e-6, 1 - 1e-6]) shows it; KLDivergence has the same clamp (-a / clamp(p)).
use neurons::activation::Activation;
use neurons::network::Network;
use neurons::objective::{Function, Objective};
use neurons::tensor::{Data, Shape, Tensor};
use neurons::verif::{self, LayerParams};

#[test]
fn bce_saturated_sigmoid() {
    let mut net = Network::new(Shape::Single(1));
    net.dense(1, Activation::Sigmoid, false, None);
    verif::set_params(&mut net, &[LayerParams { weights: vec![Tensor::double(vec![vec![1.0]])], bias: None, inner: vec![] }]);
    let x = Tensor::single(vec![16.0]);
    let (pre, act, maxp, fbs) = net.forward(&x);
    let (loss, grad) = Function::create(Objective::BinaryCrossEntropy, None).loss(act.last().unwrap(), &Tensor::single(vec![0.0]));
    let (wg, _) = verif::backward(&net, grad, &pre, &act, &maxp, fbs);
    let got = match &wg[0].data {
        Data::Double(g) => g[0][0] as f64,
        _ => panic!(),
    };
    // f64 oracle: BCE(w) = -ln(1 - sigmoid(16 w)) = ln(1 + exp(16 w))
    let f = |w: f64| (1.0 + (16.0 * w).exp()).ln();
    let want = (f(1.0 + 1e-6) - f(1.0 - 1e-6)) / 2e-6; // 15.999998
    println!("library loss {} (true {}), library gradient {}, derivative of BCE {}, derivative of the clamped value 0", loss, f(1.0), got, want);
    assert!((got - want).abs() < 1e-2 * want || got.abs() < 1e-6, "dBCE/dw: library {} ; true cross-entropy {} ; clamped value 0", got, want);
}
