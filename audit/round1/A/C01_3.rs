// C01 violation 3: a feedback block (no internal skips) that contains a max-pool layer cannot be back-propagated: loud panic.
//
// Network: Triple(1,2,2) -> feedback block [ deconvolution(1 filter, 2x2, stride 2, Linear), maxpool(2x2, stride 2) ], 1 loop,
// inskips = outskips = false.  Input and output shape of the block are both 1x2x2, the builder accepts it and the forward pass works.
// Kernel K = [[1,2],[3,4]], x = [[1,2],[3,4]] (all positive): the deconvolution writes x[i][j]*K into block (i,j), the pool takes
// the K[1][1] tap of every block, so y[i][j] = 4 x[i][j] (no ties).  MSE against 0: L = sum(y^2)/4.
// dL/dK[1][1] = sum_ij (2 y_ij / 4) x_ij = 2 sum(x^2) = 60, all other taps 0.
// Observed: panic "Unsupported layer type." at src/feedback.rs Feedback::backward (match arm `_ => panic!`; only dense,
// convolution and deconvolution are handled, although Feedback::forward and feedback::Layer::Maxpool support the pool).
use neurons::activation::Activation;
use neurons::feedback::{Accumulation, Layer};
use neurons::network::Network;
use neurons::objective::{Function, Objective};
use neurons::tensor::{Data, Shape, Tensor};
use neurons::verif::{self, LayerParams};

#[test]
fn feedback_block_with_maxpool_backpropagates() {
    let mut net = Network::new(Shape::Triple(1, 2, 2));
    net.feedback(
        vec![Layer::Deconvolution(1, Activation::Linear, (2, 2), (2, 2), (0, 0), None), Layer::Maxpool((2, 2), (2, 2))],
        1,
        false,
        false,
        Accumulation::Mean,
    );
    let k = Tensor::triple(vec![vec![vec![1.0, 2.0], vec![3.0, 4.0]]]);
    verif::set_params(
        &mut net,
        &[LayerParams {
            weights: vec![],
            bias: None,
            inner: vec![LayerParams { weights: vec![k], bias: None, inner: vec![] }, LayerParams { weights: vec![], bias: None, inner: vec![] }],
        }],
    );
    let x = Tensor::triple(vec![vec![vec![1.0, 2.0], vec![3.0, 4.0]]]);
    let t = Tensor::triple(vec![vec![vec![0.0, 0.0], vec![0.0, 0.0]]]);
    let (pre, act, maxp, fbs) = net.forward(&x);
    // forward is fine: y = 4 x
    assert_eq!(act.last().unwrap().data, Data::Triple(vec![vec![vec![4.0, 8.0], vec![12.0, 16.0]]]));
    let (_, grad) = Function::create(Objective::MSE, None).loss(act.last().unwrap(), &t);
    // panics here: "Unsupported layer type."
    let (wg, _) = verif::backward(&net, grad, &pre, &act, &maxp, fbs);
    // expected (if it did not panic): innermost gradients, last unrolled layer first
    let inner = wg[0].unnested();
    let kg = inner.iter().find_map(|t| if let Data::Quadruple(g) = &t.data { Some(g.clone()) } else { None }).unwrap();
    assert_eq!(kg, vec![vec![vec![vec![0.0, 0.0], vec![0.0, 60.0]]]]);
}
