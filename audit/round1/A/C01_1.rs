// C01 violation 1: MAE objective - gradients are n times the derivative of the objective value.
//
// Network: Single(2) -> dense(2, Linear, no bias), W = [[0.5, 0.25], [-0.5, 1.0]], x = [1, 2], target = [0, 0].
// y = W x = [1.0, 1.5].  Objective value (as returned by objective::MAE::loss): (|1.0| + |1.5|) / 2 = 1.25.
// dL/dW[o][i] = sign(y_o - t_o) / n * x_i  (n = 2)  = [[0.5, 1.0], [0.5, 1.0]]   (also confirmed below by central differences in f64).
// Observed from the library: [[1.0, 2.0], [1.0, 2.0]]  (the 1/n of the mean is missing: src/objective.rs MAE::loss, gradient = +-1).
//
// run: cargo test --offline --features verif --test C01_1
use neurons::activation::Activation;
use neurons::network::Network;
use neurons::objective::{Function, Objective};
use neurons::tensor::{Data, Shape, Tensor};
use neurons::verif::{self, LayerParams};

fn mae(w: &[[f64; 2]; 2], x: &[f64; 2], t: &[f64; 2]) -> f64 {
    let y = [w[0][0] * x[0] + w[0][1] * x[1], w[1][0] * x[0] + w[1][1] * x[1]];
    ((y[0] - t[0]).abs() + (y[1] - t[1]).abs()) / 2.0
}

#[test]
fn mae_gradient_is_derivative_of_mae() {
    let mut net = Network::new(Shape::Single(2));
    net.dense(2, Activation::Linear, false, None);
    verif::set_params(&mut net, &[LayerParams { weights: vec![Tensor::double(vec![vec![0.5, 0.25], vec![-0.5, 1.0]])], bias: None, inner: vec![] }]);
    let x = Tensor::single(vec![1.0, 2.0]);
    let t = Tensor::single(vec![0.0, 0.0]);
    let (pre, act, maxp, fbs) = net.forward(&x);
    let (loss, grad) = Function::create(Objective::MAE, None).loss(act.last().unwrap(), &t);
    assert!((loss - 1.25).abs() < 1e-6, "objective value {}", loss);
    let (wg, _) = verif::backward(&net, grad, &pre, &act, &maxp, fbs);
    let got = match &wg[0].data {
        Data::Double(g) => g.clone(),
        _ => panic!(),
    };
    // independent oracle: central differences of the objective value in f64
    let w = [[0.5, 0.25], [-0.5, 1.0]];
    let h = 1e-6;
    for o in 0..2 {
        for i in 0..2 {
            let (mut wp, mut wm) = (w, w);
            wp[o][i] += h;
            wm[o][i] -= h;
            let want = (mae(&wp, &[1.0, 2.0], &[0.0, 0.0]) - mae(&wm, &[1.0, 2.0], &[0.0, 0.0])) / (2.0 * h);
            assert!((got[o][i] as f64 - want).abs() < 1e-4, "dL/dW[{}][{}]: library {} but derivative of the MAE value is {}", o, i, got[o][i], want);
        }
    }
}
