// C01 violation 2: RMSE objective with more than one output - gradient is sign(y - t) / n, not the derivative of sqrt(mean((y - t)^2)).
//
// Network: Single(2) -> dense(2, Linear, no bias), W = [[0.5, 0.25], [-0.5, 1.0]], x = [1, 2], target = [0, 0].
// y = [1.0, 1.5].  Objective value (objective::RMSE::loss) L = sqrt((1 + 2.25) / 2) = 1.2747549.
// dL/dy_o = (y_o - t_o) / (n L) = [0.3922323, 0.5883484];  dL/dW = dL/dy (x) x = [[0.3922, 0.7845], [0.5883, 1.1767]]
// (confirmed below by central differences in f64).
// Observed from the library: [[0.5, 1.0], [0.5, 1.0]]  (src/objective.rs RMSE::loss: -(a - p) / (sqrt((a - p)^2) * n) = sign / n).
// With a single output the two coincide, which is why one-output regressions do not show it.
use neurons::activation::Activation;
use neurons::network::Network;
use neurons::objective::{Function, Objective};
use neurons::tensor::{Data, Shape, Tensor};
use neurons::verif::{self, LayerParams};

fn rmse(w: &[[f64; 2]; 2], x: &[f64; 2], t: &[f64; 2]) -> f64 {
    let y = [w[0][0] * x[0] + w[0][1] * x[1], w[1][0] * x[0] + w[1][1] * x[1]];
    (((y[0] - t[0]).powi(2) + (y[1] - t[1]).powi(2)) / 2.0).sqrt()
}

#[test]
fn rmse_gradient_is_derivative_of_rmse() {
    let mut net = Network::new(Shape::Single(2));
    net.dense(2, Activation::Linear, false, None);
    verif::set_params(&mut net, &[LayerParams { weights: vec![Tensor::double(vec![vec![0.5, 0.25], vec![-0.5, 1.0]])], bias: None, inner: vec![] }]);
    let x = Tensor::single(vec![1.0, 2.0]);
    let t = Tensor::single(vec![0.0, 0.0]);
    let (pre, act, maxp, fbs) = net.forward(&x);
    let (loss, grad) = Function::create(Objective::RMSE, None).loss(act.last().unwrap(), &t);
    assert!((loss as f64 - 1.625f64.sqrt()).abs() < 1e-6, "objective value {}", loss);
    let (wg, _) = verif::backward(&net, grad, &pre, &act, &maxp, fbs);
    let got = match &wg[0].data {
        Data::Double(g) => g.clone(),
        _ => panic!(),
    };
    let w = [[0.5, 0.25], [-0.5, 1.0]];
    let h = 1e-6;
    for o in 0..2 {
        for i in 0..2 {
            let (mut wp, mut wm) = (w, w);
            wp[o][i] += h;
            wm[o][i] -= h;
            let want = (rmse(&wp, &[1.0, 2.0], &[0.0, 0.0]) - rmse(&wm, &[1.0, 2.0], &[0.0, 0.0])) / (2.0 * h);
            assert!((got[o][i] as f64 - want).abs() < 1e-4, "dL/dW[{}][{}]: library {} but derivative of the RMSE value is {}", o, i, got[o][i], want);
        }
    }
}
