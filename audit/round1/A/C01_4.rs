// C01 violation 4: a soft-max OUTPUT layer that is a convolution (or deconvolution) under cross-entropy gets wrong gradients.
//
// Network: Triple(1,1,2) -> convolution(1 filter, 1x1, Softmax), kernel k = 1, x = [[0, 1]], target a = [[1, 0]] (sums to 1).
// z = k x = [0, 1]; p = softmax(z) = [0.2689414, 0.7310586]; L = -sum a ln p = 1.3132617.
// dL/dz = p - a = [-0.7310586, 0.7310586];  dL/dk = sum_i (p_i - a_i) x_i = 0.7310586  (confirmed below by central differences).
// Observed from the library: 0.0 (the kernel would never move; on a 1x3x3 input with a 2x2 kernel the error was 40 % of the
// largest entry).  The cross-entropy gradient p - a, which is already dL/dz, is multiplied once more by
// activation::Softmax::backward in src/convolution.rs Convolution::backward / src/deconvolution.rs Deconvolution::backward;
// only src/dense.rs special-cases Function::Softmax.
use neurons::activation::Activation;
use neurons::network::Network;
use neurons::objective::{Function, Objective};
use neurons::tensor::{Data, Shape, Tensor};
use neurons::verif::{self, LayerParams};

fn ce(k: f64) -> f64 {
    let z = [k * 0.0, k * 1.0];
    let m = z[0].max(z[1]);
    let s = (z[0] - m).exp() + (z[1] - m).exp();
    let p0 = (z[0] - m).exp() / s;
    -(1.0 * p0.ln())
}

#[test]
fn softmax_convolution_output_under_cross_entropy() {
    let mut net = Network::new(Shape::Triple(1, 1, 2));
    net.convolution(1, (1, 1), (1, 1), (0, 0), (1, 1), Activation::Softmax, None);
    verif::set_params(&mut net, &[LayerParams { weights: vec![Tensor::triple(vec![vec![vec![1.0]]])], bias: None, inner: vec![] }]);
    let x = Tensor::triple(vec![vec![vec![0.0, 1.0]]]);
    let t = Tensor::triple(vec![vec![vec![1.0, 0.0]]]);
    let (pre, act, maxp, fbs) = net.forward(&x);
    let (loss, grad) = Function::create(Objective::CrossEntropy, None).loss(act.last().unwrap(), &t);
    assert!((loss as f64 - ce(1.0)).abs() < 1e-5);
    let (wg, _) = verif::backward(&net, grad, &pre, &act, &maxp, fbs);
    let got = match &wg[0].data {
        Data::Quadruple(g) => g[0][0][0][0] as f64,
        _ => panic!(),
    };
    let want = (ce(1.0 + 1e-6) - ce(1.0 - 1e-6)) / 2e-6; // 0.7310586
    assert!((got - want).abs() < 1e-4, "dL/dk: library {} but derivative of the cross-entropy of the soft-max outputs is {}", got, want);
}
