// C01 violation 7 (literal reading of "all objectives"; the library fuses cross-entropy with soft-max by design):
// cross-entropy with an element-wise (non-soft-max) output activation.
//
// Network: Single(1) -> dense(1, Sigmoid, no bias), w = 0, x = 1, target a = 1.  p = sigmoid(0) = 0.5.
// L = -a ln p = 0.6931472 (this is the value objective::CrossEntropy::loss returns).
// dL/dw = -a / p * p (1 - p) * x = -(1 - p) x = -0.5   (central differences below).
// Observed: -0.125 = (p - a) * p (1 - p) * x: CrossEntropy::loss hands back `p - a` (the derivative wrt. soft-max logits) as if it
// were dL/dp, and src/dense.rs multiplies it by the sigmoid derivative.
use neurons::activation::Activation;
use neurons::network::Network;
use neurons::objective::{Function, Objective};
use neurons::tensor::{Data, Shape, Tensor};
use neurons::verif::{self, LayerParams};

#[test]
fn cross_entropy_with_sigmoid_output() {
    let mut net = Network::new(Shape::Single(1));
    net.dense(1, Activation::Sigmoid, false, None);
    verif::set_params(&mut net, &[LayerParams { weights: vec![Tensor::double(vec![vec![0.0]])], bias: None, inner: vec![] }]);
    let x = Tensor::single(vec![1.0]);
    let (pre, act, maxp, fbs) = net.forward(&x);
    let (loss, grad) = Function::create(Objective::CrossEntropy, None).loss(act.last().unwrap(), &Tensor::single(vec![1.0]));
    assert!((loss as f64 - 2f64.ln()).abs() < 1e-6);
    let (wg, _) = verif::backward(&net, grad, &pre, &act, &maxp, fbs);
    let got = match &wg[0].data {
        Data::Double(g) => g[0][0] as f64,
        _ => panic!(),
    };
    let f = |w: f64| -(1.0 / (1.0 + (-w).exp())).ln();
    let want = (f(1e-6) - f(-1e-6)) / 2e-6; // -0.5
    assert!((got - want).abs() < 1e-4, "dL/dw: library {} but derivative of the reported cross-entropy value is {}", got, want);
}
