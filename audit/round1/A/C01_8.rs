// C01 violation 8 (literal reading of "all targets"): soft-max output + cross-entropy with a target that does not sum to 1.
//
// Network: Single(1) -> dense(2, Softmax, no bias), W = [[0],[0]], x = [1], target a = [1, 1] (multi-hot).
// z = [0, 0], p = [0.5, 0.5], L = -sum a ln p = 1.3862944.
// dL/dz_i = p_i * sum(a) - a_i = [0, 0]  =>  dL/dW = [[0],[0]]  (shifting one logit up lowers one term exactly as it raises the other;
// central differences below).
// Observed: [[-0.5],[-0.5]] = (p - a) x; `p - a` equals the soft-max/cross-entropy derivative only when sum(a) = 1.
// With normalised soft targets (e.g. [0.25, 0.75]) the library's gradient is exact.
use neurons::activation::Activation;
use neurons::network::Network;
use neurons::objective::{Function, Objective};
use neurons::tensor::{Data, Shape, Tensor};
use neurons::verif::{self, LayerParams};

fn ce(w0: f64, w1: f64) -> f64 {
    let s = w0.exp() + w1.exp();
    -((w0.exp() / s).ln() + (w1.exp() / s).ln())
}

#[test]
fn softmax_cross_entropy_multi_hot_target() {
    let mut net = Network::new(Shape::Single(1));
    net.dense(2, Activation::Softmax, false, None);
    verif::set_params(&mut net, &[LayerParams { weights: vec![Tensor::double(vec![vec![0.0], vec![0.0]])], bias: None, inner: vec![] }]);
    let x = Tensor::single(vec![1.0]);
    let (pre, act, maxp, fbs) = net.forward(&x);
    let (loss, grad) = Function::create(Objective::CrossEntropy, None).loss(act.last().unwrap(), &Tensor::single(vec![1.0, 1.0]));
    assert!((loss as f64 - ce(0.0, 0.0)).abs() < 1e-5);
    let (wg, _) = verif::backward(&net, grad, &pre, &act, &maxp, fbs);
    let got = match &wg[0].data {
        Data::Double(g) => [g[0][0] as f64, g[1][0] as f64],
        _ => panic!(),
    };
    let want = [(ce(1e-6, 0.0) - ce(-1e-6, 0.0)) / 2e-6, (ce(0.0, 1e-6) - ce(0.0, -1e-6)) / 2e-6]; // [0, 0]
    assert!((got[0] - want[0]).abs() < 1e-4 && (got[1] - want[1]).abs() < 1e-4, "dL/dW: library {:?} but derivative is {:?}", got, want);
}
