// C01 violation 5: a 1x1 max-pool window holding the finite value f32::MIN sends its gradient to position (0,0).
//
// Network: Triple(1,1,3) -> convolution(1 filter, 1x1, Linear, k = 1) -> maxpool(1x1, stride 1) -> dense(1, Linear, no bias,
// W = [0.5, 2e-38, 0.25]); x = [[1, f32::MIN, 2]]; objective AE against 0.  A 1x1 window has a single element, so there is no tie.
// y = k (0.5*1 + 2e-38*(-3.4028235e38) + 0.25*2) = k * (-5.805647); L = |y|;
// dL/dk = sign(y) * (0.5 x0 + 2e-38 x1 + 0.25 x2) = +5.805647.
// Layer level: Maxpool::backward of upstream [10, 20, 30] must be [10, 20, 30].
// Observed: layer level [30, 0, 30]; network level dL/dk = -1.0.
// Cause: src/maxpool.rs Maxpool::forward starts the running maximum at `value = f32::MIN, index = (0, 0)` and only updates on
// `_x > value`; an element equal to f32::MIN never replaces the initial index, so the recorded arg-max is (0,0).
use neurons::activation::Activation;
use neurons::maxpool::Maxpool;
use neurons::network::Network;
use neurons::objective::{Function, Objective};
use neurons::tensor::{Data, Shape, Tensor};
use neurons::verif::{self, LayerParams};

#[test]
fn layer_level() {
    let pool = Maxpool::create(Shape::Triple(1, 1, 3), (1, 1), (1, 1));
    let x = Tensor::triple(vec![vec![vec![1.0, f32::MIN, 2.0]]]);
    let (pre, _post, max) = pool.forward(&x);
    assert_eq!(pre.data, Data::Triple(vec![vec![vec![1.0, f32::MIN, 2.0]]])); // forward value is right
    let g = pool.backward(&Tensor::triple(vec![vec![vec![10.0, 20.0, 30.0]]]), &max);
    match &g.data {
        Data::Triple(v) => assert_eq!(v[0][0], vec![10.0, 20.0, 30.0], "input gradient of a 1x1 pool must be the upstream gradient"),
        _ => panic!(),
    }
}

#[test]
fn network_level() {
    let mut net = Network::new(Shape::Triple(1, 1, 3));
    net.convolution(1, (1, 1), (1, 1), (0, 0), (1, 1), Activation::Linear, None);
    net.maxpool((1, 1), (1, 1));
    net.dense(1, Activation::Linear, false, None);
    let none = LayerParams { weights: vec![], bias: None, inner: vec![] };
    verif::set_params(
        &mut net,
        &[
            LayerParams { weights: vec![Tensor::triple(vec![vec![vec![1.0]]])], bias: None, inner: vec![] },
            none,
            LayerParams { weights: vec![Tensor::double(vec![vec![0.5, 2e-38, 0.25]])], bias: None, inner: vec![] },
        ],
    );
    let x = Tensor::triple(vec![vec![vec![1.0, f32::MIN, 2.0]]]);
    let (pre, act, maxp, fbs) = net.forward(&x);
    let (_, grad) = Function::create(Objective::AE, None).loss(act.last().unwrap(), &Tensor::single(vec![0.0]));
    let (wg, _) = verif::backward(&net, grad, &pre, &act, &maxp, fbs);
    // wg is ordered last layer first
    let got = match &wg[2].data {
        Data::Quadruple(g) => g[0][0][0][0] as f64,
        _ => panic!(),
    };
    let s = 0.5 * 1.0 + (2e-38f32 as f64) * (f32::MIN as f64) + 0.25 * 2.0; // -5.8056
    let want = s.signum() * s; // y = k*s, L = |y|, dL/dk = sign(y) * s
    assert!((got - want).abs() < 1e-4, "dL/dk: library {} expected {}", got, want);
}
