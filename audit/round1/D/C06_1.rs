// C06 violation: RMSE gradient is not the documented `sign(predicted - actual) / n` when the
// difference is very small or very large (all inputs finite, RMSE's domain is all reals).
//
// Documented (src/objective.rs, RMSE::loss doc comment, and pinned by the crate's own test_rmse
// which expects [0.25, 0.25, -0.25, -0.25] for n = 4):
//     gradient_i = -(actual_i - predicted_i) / (sqrt((actual_i - predicted_i)^2) * n)
//                = sign(predicted_i - actual_i) / n            (0 when equal)
// Expected below (n = 4): +0.25 for element 0 in every case (predicted > actual), derived by hand
// from the formula; the value is exactly representable.
//
// Observed:
//   (a) predicted = 1e-25, actual = 0     -> gradient[0] = +inf   (with clamp (-1,1): 1.0, i.e. the
//       clamp bound instead of 0.25 "limited to the interval")
//   (b) predicted = 1e-22, actual = 0     -> gradient[0] = 0.2524211 (1 % off; square is subnormal)
//   (c) predicted = 1e20,  actual = 0     -> gradient[0] = 0.0 and the reported loss is +inf although
//       sqrt(1e40 / 4) = 5e19 is representable
//   (d) predicted = 3e38,  actual = -3e38 -> gradient[0] = NaN (also NaN with a clamp configured, so
//       the component does not lie in the clamp interval)
//
// Cause: src/objective.rs lines 446-453 (3-D arm) and 466-472 (flat arm) compute
// `(actual - predicted).powi(2).sqrt()` in f32: the square underflows to 0 for |d| < ~2.6e-23
// (division by zero -> inf), is subnormal up to ~1e-19 (precision loss), overflows to inf for
// |d| > ~1.8e19 (d / inf = 0), and `actual - predicted` itself overflows in (d) (inf / inf = NaN).
// `.abs()` instead of `.powi(2).sqrt()` (or the sign selection AE uses) has none of these problems.
//
// Run: cargo test --offline --features verif --test C06_1 -- --nocapture   (after copying to tests/)

use neurons::objective::{Function, Objective};
use neurons::tensor::Tensor;

fn grad0(p0: f32, a0: f32, clamp: Option<(f32, f32)>, rank3: bool) -> (f32, f32) {
    let p = vec![p0, 0.5, 0.25, 0.0];
    let a = vec![a0, 0.0, 1.0, 1.0];
    let (tp, ta) = if rank3 {
        (
            Tensor::triple(vec![vec![p[0..2].to_vec(), p[2..4].to_vec()]]),
            Tensor::triple(vec![vec![a[0..2].to_vec(), a[2..4].to_vec()]]),
        )
    } else {
        (Tensor::single(p), Tensor::single(a))
    };
    let (loss, g) = Function::create(Objective::RMSE, clamp).loss(&tp, &ta);
    (loss, g.get_flat()[0])
}

#[test]
fn rmse_gradient_tiny_difference_is_infinite() {
    for rank3 in [false, true] {
        let (_, g) = grad0(1e-25, 0.0, None, rank3);
        assert_eq!(g, 0.25, "rank3={rank3}: expected sign(p-a)/n = 0.25, observed {g}");
    }
}

#[test]
fn rmse_gradient_tiny_difference_clamped() {
    // unclamped documented value 0.25 lies inside (-1, 1), so it must be returned unchanged
    let (_, g) = grad0(1e-25, 0.0, Some((-1.0, 1.0)), false);
    assert_eq!(g, 0.25, "expected 0.25, observed {g}");
}

#[test]
fn rmse_gradient_subnormal_square_is_inaccurate() {
    let (_, g) = grad0(1e-22, 0.0, None, false);
    assert!((g - 0.25).abs() < 1e-6, "expected 0.25, observed {g}");
}

#[test]
fn rmse_gradient_large_difference_is_zero() {
    let (loss, g) = grad0(1e20, 0.0, None, false);
    assert_eq!(g, 0.25, "expected 0.25, observed {g} (loss reported {loss}, exact 5e19)");
}

#[test]
fn rmse_gradient_overflowing_difference_is_nan() {
    let (_, g) = grad0(3e38, -3e38, Some((-1.0, 1.0)), true);
    assert_eq!(g, 0.25, "expected 0.25, observed {g}");
}
