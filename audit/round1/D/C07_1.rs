// C07 violation (extreme sizes only): soft-max outputs do not sum to one for very long vectors.
//
// Statement: "Soft-max returns non-negative values summing to one ..." with quantifier "all vector
// lengths and finite input vectors for soft-max".
//
// Expected: sum_i softmax(x)_i = 1 (up to f32 rounding, say 1e-4), derived from the definition
// y_i = exp(x_i - max) / sum_j exp(x_j - max); for n equal inputs every y_i = 1/n.
//
// Observed (sums of the returned f32 values accumulated in f64):
//   n = 2^25 equal inputs (0.5)      -> every y_i = 5.9604645e-8 = 2^-24 (ideal 2^-25), sum = 2.0
//   n = 3 * 2^24 equal inputs        -> sum = 3.0
//   n = 2^23 random inputs in [0,1)  -> sum = 0.9879141   (test below, fixed xorshift seed)
//   n = 2^22 random inputs in [0,1)  -> sum = 0.9960781
//   n = 2^21 random inputs in [0,1)  -> sum = 1.0004534
//   n = 2^25 random inputs in [0,1)  -> sum ~ 1.26
//   (for comparison n = 2^20 random  -> sum = 1.00003, n = 1e5 -> 1.0000145: ordinary rounding)
//
// Cause: src/activation.rs lines 445-452 (Softmax::forward) accumulate the denominator
// sequentially in a single f32 (`sum += exp`). Once the running sum reaches 2^24 = 16777216, adding
// a term <= 1 no longer changes it (for equal inputs it saturates exactly at 2^24), and well before
// that each addition is rounded to a multiple of 0.5 / 1.0, which biases the sum. Accumulating the
// denominator in f64 (or pairwise) would keep the normalisation for these lengths.
//
// Inside the quantifier: the inputs are finite, the length is a legal Vec length, nothing is
// rejected. Practical relevance is low (a soft-max over > 4 million units).
//
// Run (release recommended): cargo test --release --offline --features verif --test C07_1 -- --nocapture

use neurons::activation::{Activation, Function};
use neurons::tensor::Tensor;

fn total(x: Vec<f32>) -> (f64, f32) {
    let y = Function::create(&Activation::Softmax).forward(&Tensor::single(x)).get_flat();
    assert!(y.iter().all(|v| v.is_finite() && *v >= 0.0));
    (y.iter().map(|&v| v as f64).sum(), y[0])
}

#[test]
fn softmax_equal_inputs_2_pow_25() {
    let n = 1usize << 25;
    let (sum, y0) = total(vec![0.5f32; n]);
    println!("n = {n}: y[0] = {y0:e} (ideal {:e}), sum = {sum}", 1.0 / n as f64);
    assert!((sum - 1.0).abs() < 1e-4, "soft-max of {n} equal inputs sums to {sum}, expected 1");
}

#[test]
fn softmax_random_inputs_2_pow_23() {
    let n = 1usize << 23;
    let mut s = 999u64;
    let x: Vec<f32> = (0..n)
        .map(|_| {
            s ^= s << 13;
            s ^= s >> 7;
            s ^= s << 17;
            ((s >> 11) as f64 / (1u64 << 53) as f64) as f32
        })
        .collect();
    let (sum, _) = total(x);
    println!("n = {n} random in [0,1): sum = {sum}");
    assert!((sum - 1.0).abs() < 1e-4, "soft-max of {n} random inputs sums to {sum}, expected 1");
}
