// C16 (numerical corner: finite inputs near the top of the f32 range) — with Accumulation::Mean the input
// processed by the target is computed as (x + s) / 2 in f32, which overflows to +-inf whenever |x + s| > f32::MAX,
// although the mean of two finite f32 values is always finite and representable.
//
// Network: Single(1); 0: dense 1->1 linear, weight 1, no bias; 1: dense 1->1 linear, weight 0.5, no bias;
//          connect(1, 1) (a == b: ordinary input and source input are both h0 = x), skip accumulation Mean.
// Input x = 3.0e38 (finite, < f32::MAX = 3.4028235e38).
// Expected (f64 reference): mean(x, x) = 3.0e38; output = 0.5 * 3.0e38 = 1.5e38.
// Observed: inf.
// Source: src/tensor.rs Tensor::mean_inplace (`*val = (*val + sum) / n;`), used by Network::forward
//   (src/network.rs, `feedback::Accumulation::Mean => x.mean_inplace(&vec![&_x])`).
//
// run: cargo test --offline --features verif --test C16_2
use neurons::activation::Activation;
use neurons::feedback::Accumulation;
use neurons::network::Network;
use neurons::tensor::{Shape, Tensor};
use neurons::verif;

#[test]
fn mean_of_two_large_finite_inputs() {
    let mut net = Network::new(Shape::Single(1));
    net.dense(1, Activation::Linear, false, None);
    net.dense(1, Activation::Linear, false, None);
    net.connect(1, 1);
    net.set_accumulation(Accumulation::Mean, Accumulation::Mean);
    let mut p = verif::params(&net);
    p[0].weights[0] = Tensor::double(vec![vec![1.0]]);
    p[1].weights[0] = Tensor::double(vec![vec![0.5]]);
    verif::set_params(&mut net, &p);

    let x = 3.0e38f32;
    let out = net.predict(&Tensor::single(vec![x])).get_flat()[0];
    let expect = ((x as f64 + x as f64) / 2.0) * 0.5; // 1.5e38
    assert!(
        out.is_finite() && ((out as f64 - expect) / expect).abs() < 1e-6,
        "expected {:e}, observed {:e}",
        expect,
        out
    );
}
