// C14 — get_triple (vector -> 3-D reading, listed in the property's mechanism) with a target shape of
// a SMALLER element count is neither refused nor count-preserving: it silently drops the tail.
//
// Input: vector [1,2,3,4,5,6] (6 elements), requested 3-D shape 1x2x2 (4 elements).
// Expected (statement: "preserve ... the number of elements ... a reshape to a shape with a different
//   element count is refused"): a panic, as Tensor::reshape(Single(6) -> Triple(1,2,2)) gives
//   ("Reshape requires the same number of elements") and as get_triple itself gives for a LARGER target (2x2x2).
// Observed: Ok([[[1.0, 2.0], [3.0, 4.0]]]) — 4 of 6 elements, no error.
// Source: src/tensor.rs Tensor::get_triple, Data::Single arm (iter.next() is taken oc*oh*ow times, no length check).
//
// run: cargo test --offline --features verif --test C14_1
use neurons::tensor::{Shape, Tensor};
use std::panic::{catch_unwind, AssertUnwindSafe};

#[test]
fn get_triple_smaller_count_is_refused() {
    let t = Tensor::single(vec![1.0, 2.0, 3.0, 4.0, 5.0, 6.0]);
    // control: larger target is refused, and reshape refuses both directions
    assert!(catch_unwind(AssertUnwindSafe(|| t.get_triple(&Shape::Triple(2, 2, 2)))).is_err());
    assert!(catch_unwind(AssertUnwindSafe(|| t.clone().reshape(Shape::Triple(1, 2, 2)))).is_err());
    let r = catch_unwind(AssertUnwindSafe(|| t.get_triple(&Shape::Triple(1, 2, 2))));
    match r {
        Err(_) => (),
        Ok(d) => {
            let n: usize = d.iter().map(|c| c.iter().map(|r| r.len()).sum::<usize>()).sum();
            panic!("6-element vector read as 1x2x2 was accepted and returned {} elements: {:?}", n, d);
        }
    }
}
