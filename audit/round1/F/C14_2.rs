// C14 (borderline: only if a dimension of size 0 counts as a "shape") — flatten, and therefore
// reshape Triple -> Single, panics with an index-out-of-bounds for 3-D tensors whose first or second
// dimension is 0, although source and target element counts are equal (0 == 0), while get_flat,
// Triple -> Triple and Single(0) -> Triple(0,2,2) on the very same tensors work, and 2x2x0 flattens fine.
//
// Input: Tensor::zeros(Shape::Triple(0, 2, 2)) / Triple(2, 0, 2)  (both constructible through the public API).
// Expected: flatten() == Single(0) with empty data; reshape(Single(0)) accepted (equal counts), as for 2x2x0.
// Observed: panic "index out of bounds: the len is 0 but the index is 0" at src/tensor.rs:571
//   (`let size = data.len() * data[0].len() * data[0][0].len();` — only used as a capacity hint).
//
// run: cargo test --offline --features verif --test C14_2
use neurons::tensor::{Data, Shape, Tensor};

#[test]
fn flatten_zero_channel() {
    let t = Tensor::zeros(Shape::Triple(0, 2, 2));
    assert_eq!(t.get_flat().len(), 0); // works
    let f = t.flatten(); // panics
    assert_eq!(f.shape, Shape::Single(0));
    assert!(matches!(f.data, Data::Single(ref v) if v.is_empty()));
}

#[test]
fn reshape_zero_rows_to_vector() {
    let t = Tensor::zeros(Shape::Triple(2, 0, 2));
    let ok = t.clone().reshape(Shape::Triple(2, 2, 0)); // works
    assert_eq!(ok.shape, Shape::Triple(2, 2, 0));
    let f = t.reshape(Shape::Single(0)); // equal counts, panics
    assert_eq!(f.shape, Shape::Single(0));
}

#[test]
fn control_zero_columns_works() {
    let t = Tensor::zeros(Shape::Triple(2, 2, 0));
    assert_eq!(t.flatten().shape, Shape::Single(0));
    assert_eq!(t.reshape(Shape::Single(0)).shape, Shape::Single(0));
}
