// C16 (interpretive: depends on whether "the input processed by layer b" also covers the repeated passes of a
// loop connection) — a skip connection whose target lies inside a loopback range is applied on the first pass
// only; on the loop passes layer b processes its ordinary input alone (Network::forward runs the loop passes
// through `_forward(&current, into, i + 1)`, which never consults `self.connect`; src/network.rs ~l.1084).
//
// Network: Single(2); 0 and 1: dense 2->2, identity weights, linear, no bias;
//          connect(0, 1) (additive); loopback(1 -> 0, one iteration), loop accumulation Overwrite
//          (so the network output is the output of the loop pass).
// Input x = [1, 10].
//   first pass: h0 = x; layer 1 processes h0 + x = 2x; y = 2x.
//   loop pass : layer 0 is fed y = 2x, h0' = 2x; with the skip, layer 1 processes
//               h0' + (input fed to layer 0 in this pass = 2x) = 4x   [or h0' + x = 3x if the first-pass input is meant].
// Expected: [4, 40] (or [3, 30]); in any reading with the skip applied, not 2x.
// Observed: [2, 20] — layer 1 processed h0' alone.
//
// run: cargo test --offline --features verif --test C16_3
use neurons::activation::Activation;
use neurons::feedback::Accumulation;
use neurons::network::Network;
use neurons::tensor::{Shape, Tensor};
use neurons::verif;
use std::sync::Arc;

#[test]
fn skip_target_inside_loop_range() {
    let mut net = Network::new(Shape::Single(2));
    net.dense(2, Activation::Linear, false, None);
    net.dense(2, Activation::Linear, false, None);
    net.connect(0, 1);
    net.loopback(1, 0, 1, Arc::new(|_| 1.0), false);
    net.set_accumulation(Accumulation::Add, Accumulation::Overwrite);
    let mut p = verif::params(&net);
    p[0].weights[0] = Tensor::double(vec![vec![1.0, 0.0], vec![0.0, 1.0]]);
    p[1].weights[0] = Tensor::double(vec![vec![1.0, 0.0], vec![0.0, 1.0]]);
    verif::set_params(&mut net, &p);
    let out = net.predict(&Tensor::single(vec![1.0, 10.0])).get_flat();
    assert!(
        out == vec![4.0, 40.0] || out == vec![3.0, 30.0],
        "expected [4, 40] (or [3, 30]); observed {:?}",
        out
    );
}
