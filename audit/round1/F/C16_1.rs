// C16 — a skip connection whose SOURCE layer is a max-pool layer is rejected with a panic, although
// the index pair satisfies a <= b and the element counts are equal (quantifier: "all networks, all index
// pairs a <= b with equal element counts"; "connections with pairwise distinct sources and targets are accepted").
//
// Network: input 1x4x4; 0: conv 1 filter 3x3 pad 1 (-> 1x4x4); 1: maxpool 2x2/2 (input 1x4x4 = 16, -> 1x2x2);
//          2: deconv 1 filter 2x2 stride 2 (-> 1x4x4); 3: conv 1 filter 1x1 (input 1x4x4 = 16).
// connect(1, 3): the input fed to layer 1 has 16 elements, the input of layer 3 has 16 elements.
// Expected: accepted, and (identity kernels, linear activations, additive accumulation)
//   output = upsampled maxpool + input; derived by hand below.
// Observed: panic "Unknown shape!" at src/network.rs:626 (`Layer::Maxpool(_) => panic!("Unknown shape!")` in the
//   source-side match of Network::connect; the target-side match a few lines below does handle Maxpool).
//   The same holds for connect(1, 1). A max-pool layer as TARGET (connect(0, 1)) is accepted.
//
// run: cargo test --offline --features verif --test C16_1
use neurons::activation::Activation;
use neurons::network::Network;
use neurons::tensor::{Shape, Tensor};
use neurons::verif;

#[test]
fn maxpool_as_skip_source() {
    let mut net = Network::new(Shape::Triple(1, 4, 4));
    net.convolution(1, (3, 3), (1, 1), (1, 1), (1, 1), Activation::Linear, None);
    net.maxpool((2, 2), (2, 2));
    net.deconvolution(1, (2, 2), (2, 2), (0, 0), Activation::Linear, None);
    net.convolution(1, (1, 1), (1, 1), (0, 0), (1, 1), Activation::Linear, None);

    net.connect(1, 3); // panics: "Unknown shape!"

    // identity conv (centre tap), deconv kernel of ones (nearest-neighbour upsampling), identity 1x1 conv
    let mut p = verif::params(&net);
    p[0].weights[0] = Tensor::triple(vec![vec![
        vec![0.0, 0.0, 0.0],
        vec![0.0, 1.0, 0.0],
        vec![0.0, 0.0, 0.0],
    ]]);
    p[2].weights[0] = Tensor::triple(vec![vec![vec![1.0, 1.0], vec![1.0, 1.0]]]);
    p[3].weights[0] = Tensor::triple(vec![vec![vec![1.0]]]);
    verif::set_params(&mut net, &p);

    let x: Vec<Vec<f32>> = (0..4).map(|h| (0..4).map(|w| (h * 4 + w) as f32).collect()).collect();
    let out = net.predict(&Tensor::triple(vec![x.clone()])).get_flat();
    // expected[h][w] = max of the 2x2 block containing (h, w) + x[h][w]   (input of layer 1 == x)
    for h in 0..4 {
        for w in 0..4 {
            let (bh, bw) = (h / 2 * 2, w / 2 * 2);
            let m = x[bh][bw].max(x[bh][bw + 1]).max(x[bh + 1][bw]).max(x[bh + 1][bw + 1]);
            assert_eq!(out[h * 4 + w], m + x[h][w]);
        }
    }
}

#[test]
fn control_maxpool_as_target_is_accepted() {
    let mut net = Network::new(Shape::Triple(1, 4, 4));
    net.convolution(1, (3, 3), (1, 1), (1, 1), (1, 1), Activation::Linear, None);
    net.maxpool((2, 2), (2, 2));
    net.connect(0, 1);
}
