// Audit C13: early stopping & returned histories.
use neurons::activation::Activation;
use neurons::network::Network;
use neurons::objective::Objective;
use neurons::optimizer::{Adam, SGD};
use neurons::tensor::{Shape, Tensor};
use neurons::verif::{self, LayerParams};

fn net(w0: f32, lr: f32) -> Network {
    let mut n = Network::new(Shape::Single(1));
    n.dense(1, Activation::Linear, false, None);
    n.set_objective(Objective::MSE, None);
    n.set_optimizer(SGD::create(lr, None));
    verif::set_params(&mut n, &[LayerParams { weights: vec![Tensor::double(vec![vec![w0]])], bias: None, inner: vec![] }]);
    n
}

/// Stop predicate, window reading: more than T epochs have run and the last T recorded values strictly increase.
fn stop_window(v: &[f32], t: usize) -> bool {
    let e = v.len();
    if e <= t { return false; }
    let w = &v[e - t..];
    w.windows(2).all(|p| p[1] > p[0])
}
/// Stop predicate, "T increases" reading: the loss increased in each of the last T epochs (T+1 values).
fn stop_increases(v: &[f32], t: usize) -> bool {
    let e = v.len();
    if e <= t { return false; }
    let w = &v[e - t - 1..];
    w.windows(2).all(|p| p[1] > p[0])
}

fn run(w0: f32, lr: f32, c: f32, tol: i32, epochs: i32) -> (Vec<f32>, Vec<f32>, Vec<f32>) {
    let mut n = net(w0, lr);
    let x = Tensor::single(vec![1.0]); let y = Tensor::single(vec![0.0]); let vy = Tensor::single(vec![c]);
    let xs = vec![&x]; let ys = vec![&y]; let vys = vec![&vy];
    n.learn(&xs, &ys, Some((&xs, &vys, tol)), 1, epochs, None)
}

#[test]
fn h_trajectories() {
    // (name, w0, lr, c)
    let cases = [
        ("rising", 1.0f32, 1.25f32, 0.0f32),
        ("falling", 1.0, 0.25, 0.0),
        ("plateau-equal", 1.0, 1.0, 0.0),
        ("oscillating-equal-amplitude", 1.0, 1.0, 1.5),
        ("fall-then-rise", 1.0, 0.25, 0.3),
        ("oscillating-growing", 1.0, 1.25, 2.0),
        ("rise-slow", 0.5, 1.0005, 0.0),
    ];
    let mut mismatch_incr = vec![];
    for (name, w0, lr, c) in cases {
        for tol in 1..=6 {
            for epochs in [1, 2, 3, 4, 5, 7, 12] {
                let (tl, vl, va) = run(w0, lr, c, tol, epochs);
                assert_eq!(tl.len(), vl.len(), "{}", name);
                assert_eq!(vl.len(), va.len(), "{}", name);
                assert!(tl.len() >= 1 && tl.len() <= epochs as usize);
                // values are the closed-form trajectory
                let f = 1.0f64 - 2.0 * lr as f64;
                for (e, v) in vl.iter().enumerate() {
                    let w = w0 as f64 * f.powi(e as i32 + 1);
                    let want = (w - c as f64).powi(2);
                    assert!((*v as f64 - want).abs() <= 1e-4 * want.max(1e-3), "{} val[{}] {} want {}", name, e, v, want);
                    let wt = (w0 as f64 * f.powi(e as i32)).powi(2);
                    assert!((tl[e] as f64 - wt).abs() <= 1e-4 * wt.max(1e-3), "{} train[{}] {} want {}", name, e, tl[e], wt);
                }
                // window reading oracle
                let t = tol as usize;
                for e in 1..vl.len() {
                    assert!(!stop_window(&vl[..e], t), "{} tol {} E {}: continued past epoch {} where the rule held: {:?}", name, tol, epochs, e, vl);
                }
                if vl.len() < epochs as usize {
                    assert!(stop_window(&vl, t), "{} tol {} E {}: stopped at {} without the rule holding {:?}", name, tol, epochs, vl.len(), vl);
                    if !stop_increases(&vl, t) { mismatch_incr.push(format!("{} tol {} E {} stopped at {} hist {:?}", name, tol, epochs, vl.len(), vl)); }
                }
            }
        }
    }
    println!("stops not justified under the 'T increases' reading: {}", mismatch_incr.len());
    for m in mismatch_incr.iter().filter(|m| !m.contains("tol 1 ")) { println!("  {}", m); }
}

#[test]
fn h_tolerance_one_falling() {
    // loss falls monotonically: 0.25^e. Nothing ever increases, so no early stop is justified.
    let (tl, vl, va) = run(1.0, 0.25, 0.0, 1, 10);
    println!("tolerance 1, falling: ran {} of 10 epochs; val {:?}", tl.len(), vl);
    assert_eq!(va.len(), vl.len());
    assert!(vl.windows(2).all(|p| p[1] < p[0]));
    assert_eq!(tl.len(), 10, "stopped at epoch {} although the validation loss only ever decreased: {:?}", tl.len(), vl);
}

#[test]
fn h_no_validation_all_epochs() {
    for epochs in [1, 2, 5, 30] {
        let mut n = net(1.0, 1.25);
        let x = Tensor::single(vec![1.0]); let y = Tensor::single(vec![0.0]);
        let (tl, vl, va) = n.learn(&vec![&x], &vec![&y], None, 1, epochs, None);
        assert_eq!(tl.len(), epochs as usize); assert!(vl.is_empty() && va.is_empty());
    }
}

#[test]
fn h_tolerance_ge_epochs_and_repeat_calls() {
    // tolerance >= epochs: never stops
    for (tol, e) in [(5, 5), (6, 5), (100, 7), (i32::MAX, 4)] {
        let (tl, vl, _) = run(1.0, 1.25, 0.0, tol, e);
        assert_eq!(tl.len(), e as usize); assert_eq!(vl.len(), e as usize);
    }
    // earlier learn() call with rising loss must not leak its history into the next call
    let mut n = net(1.0, 1.25);
    let x = Tensor::single(vec![1.0]); let y = Tensor::single(vec![0.0]);
    let xs = vec![&x]; let ys = vec![&y];
    let (a, _, _) = n.learn(&xs, &ys, Some((&xs, &ys, 3)), 1, 10, None);
    assert_eq!(a.len(), 4);
    let (b, bv, _) = n.learn(&xs, &ys, Some((&xs, &ys, 3)), 1, 10, None);
    assert_eq!(b.len(), 4, "{:?}", bv);
    // earlier learn() without validation, then with
    let mut n = net(1.0, 0.25);
    let _ = n.learn(&xs, &ys, None, 1, 3, None);
    let (c, cv, ca) = n.learn(&xs, &ys, Some((&xs, &ys, 2)), 1, 6, None);
    assert_eq!((c.len(), cv.len(), ca.len()), (6, 6, 6));
}

#[test]
fn h_validation_sizes_around_chunk_constant() {
    // validation loss is the mean of the per-sample losses for sizes around the internal chunk size 64
    for nval in [1usize, 63, 64, 65, 128, 129, 200] {
        let mut n = net(0.5, 0.0001);
        let x = Tensor::single(vec![1.0]); let y = Tensor::single(vec![0.5]); // zero gradient: w stays 0.5
        let vx: Vec<Tensor> = (0..nval).map(|i| Tensor::single(vec![1.0 + i as f32 * 0.01])).collect();
        let vy: Vec<Tensor> = (0..nval).map(|i| Tensor::single(vec![(i % 7) as f32 * 0.1])).collect();
        let vxr: Vec<&Tensor> = vx.iter().collect(); let vyr: Vec<&Tensor> = vy.iter().collect();
        let (tl, vl, va) = n.learn(&vec![&x], &vec![&y], Some((&vxr, &vyr, 2)), 1, 3, None);
        assert_eq!((tl.len(), vl.len(), va.len()), (3, 3, 3));
        let want: f64 = (0..nval).map(|i| { let p = 0.5 * (1.0 + i as f64 * 0.01); let t = (i % 7) as f64 * 0.1; (p - t).powi(2) }).sum::<f64>() / nval as f64;
        for v in &vl { assert!((*v as f64 - want).abs() < 1e-5, "nval {} got {} want {}", nval, v, want); }
    }
}

#[test]
fn h_adam_multi_batch_with_validation() {
    // a larger net with several batches; lengths and the rule on the returned history
    let mut n = Network::new(Shape::Single(3));
    n.dense(4, Activation::Tanh, true, None);
    n.dense(2, Activation::Softmax, true, None);
    n.set_objective(Objective::CrossEntropy, None);
    n.set_optimizer(Adam::create(0.3, 0.9, 0.999, 1e-8, None));
    let xs: Vec<Tensor> = (0..10).map(|i| Tensor::single(vec![(i as f32 * 0.37).sin(), (i as f32 * 0.11).cos(), i as f32 * 0.1 - 0.5])).collect();
    let ys: Vec<Tensor> = (0..10).map(|i| Tensor::one_hot((i * 7 % 3) % 2, 2)).collect();
    let xr: Vec<&Tensor> = xs.iter().collect(); let yr: Vec<&Tensor> = ys.iter().collect();
    for tol in [2, 3, 4] {
        let (tl, vl, va) = n.learn(&xr[..7].to_vec(), &yr[..7].to_vec(), Some((&xr[7..].to_vec(), &yr[7..].to_vec(), tol)), 3, 40, None);
        assert_eq!(tl.len(), vl.len()); assert_eq!(vl.len(), va.len());
        let t = tol as usize;
        for e in 1..vl.len() { assert!(!stop_window(&vl[..e], t)); }
        if vl.len() < 40 { assert!(stop_window(&vl, t)); }
        println!("tol {} ran {} epochs", tol, vl.len());
    }
}

#[test]
fn h_epoch_budget_i32_max() {
    // rising validation loss, tolerance 2: the rule holds at epoch 3 whatever the budget is.
    let (tl, vl, va) = run(1.0, 1.25, 0.0, 2, 1000);
    assert_eq!((tl.len(), vl.len(), va.len()), (3, 3, 3));
    let r = std::panic::catch_unwind(|| run(1.0, 1.25, 0.0, 2, i32::MAX));
    match r {
        Ok((tl, vl, va)) => { println!("budget i32::MAX: returned lengths {:?}", (tl.len(), vl.len(), va.len())); assert_eq!((tl.len(), vl.len(), va.len()), (3, 3, 3)); }
        Err(_) => panic!("budget i32::MAX: learn panicked"),
    }
}

#[test]
fn h_print_variants() {
    for p in [Some(1), Some(3), Some(100), None] {
        let mut n = net(1.0, 1.25);
        let x = Tensor::single(vec![1.0]); let y = Tensor::single(vec![0.0]);
        let xs = vec![&x]; let ys = vec![&y];
        let (tl, vl, va) = n.learn(&xs, &ys, Some((&xs, &ys, 3)), 1, 10, p);
        assert_eq!((tl.len(), vl.len(), va.len()), (4, 4, 4));
    }
    let r = std::panic::catch_unwind(|| {
        let mut n = net(1.0, 1.25);
        let x = Tensor::single(vec![1.0]); let y = Tensor::single(vec![0.0]);
        let xs = vec![&x]; let ys = vec![&y];
        n.learn(&xs, &ys, Some((&xs, &ys, 3)), 1, 10, Some(0))
    });
    println!("print Some(0): panicked = {}", r.is_err());
}
