// Audit C03: optimizer update rules vs. an f64 reference.
use neurons::optimizer::{Adam, AdamW, Optimizer, RMSprop, SGD, SGDM};
use neurons::tensor::{Data, Tensor};

struct Rng(u64);
impl Rng {
    fn next(&mut self) -> f64 {
        self.0 = self.0.wrapping_mul(6364136223846793005).wrapping_add(1442695040888963407);
        ((self.0 >> 11) as f64) / ((1u64 << 53) as f64)
    }
    fn uni(&mut self, a: f64, b: f64) -> f64 { a + (b - a) * self.next() }
}

#[derive(Clone, Debug)]
enum Kind {
    Sgd { lr: f32, decay: Option<f32> },
    Sgdm { lr: f32, mom: f32, damp: f32, decay: Option<f32> },
    Adam { lr: f32, b1: f32, b2: f32, eps: f32, decay: Option<f32> },
    AdamW { lr: f32, b1: f32, b2: f32, eps: f32, decay: f32 },
    Rms { lr: f32, alpha: f32, eps: f32, decay: Option<f32>, mom: Option<f32>, centered: bool },
}

fn make(k: &Kind) -> Optimizer {
    match k.clone() {
        Kind::Sgd { lr, decay } => SGD::create(lr, decay),
        Kind::Sgdm { lr, mom, damp, decay } => SGDM::create(lr, mom, damp, decay),
        Kind::Adam { lr, b1, b2, eps, decay } => Adam::create(lr, b1, b2, eps, decay),
        Kind::AdamW { lr, b1, b2, eps, decay } => AdamW::create(lr, b1, b2, eps, decay),
        Kind::Rms { lr, alpha, eps, decay, mom, centered } => RMSprop::create(lr, alpha, eps, decay, mom, centered),
    }
}

// per-element reference state: (a, b, c)
#[derive(Clone, Copy, Default)]
struct St { a: f64, b: f64, c: f64 }

fn reference(k: &Kind, w: f64, g: f64, st: &mut St, step: i32) -> f64 {
    match k.clone() {
        Kind::Sgd { lr, decay } => {
            let mut g = g;
            if let Some(d) = decay { g += d as f64 * w; }
            w - lr as f64 * g
        }
        Kind::Sgdm { lr, mom, damp, decay } => {
            let mut g = g;
            if let Some(d) = decay { g += d as f64 * w; }
            if step > 1 {
                st.a = mom as f64 * st.a + (1.0 - damp as f64) * g;
                g = st.a;
            } else {
                st.a = g;
            }
            w - lr as f64 * g
        }
        Kind::Adam { lr, b1, b2, eps, decay } => {
            let (b1, b2) = (b1 as f64, b2 as f64);
            let mut g = g;
            if let Some(d) = decay { g += d as f64 * w; }
            st.a = b1 * st.a + (1.0 - b1) * g;
            st.b = b2 * st.b + (1.0 - b2) * g * g;
            let m = st.a / (1.0 - b1.powi(step));
            let v = st.b / (1.0 - b2.powi(step));
            w - lr as f64 * m / (v.sqrt() + eps as f64)
        }
        Kind::AdamW { lr, b1, b2, eps, decay } => {
            let (b1, b2) = (b1 as f64, b2 as f64);
            let w = w - lr as f64 * decay as f64 * w;
            st.a = b1 * st.a + (1.0 - b1) * g;
            st.b = b2 * st.b + (1.0 - b2) * g * g;
            let m = st.a / (1.0 - b1.powi(step));
            let v = st.b / (1.0 - b2.powi(step));
            w - lr as f64 * m / (v.sqrt() + eps as f64)
        }
        Kind::Rms { lr, alpha, eps, decay, mom, centered } => {
            let al = alpha as f64;
            let mut g = g;
            if let Some(d) = decay { g += d as f64 * w; }
            st.a = al * st.a + (1.0 - al) * g * g;
            let mut v = st.a;
            if centered {
                st.b = al * st.b + (1.0 - al) * g;
                v -= st.b * st.b;
            }
            if let Some(m) = mom {
                st.c = m as f64 * st.c + g / (v.sqrt() + eps as f64);
                w - lr as f64 * st.c
            } else {
                w - lr as f64 * g / (v.sqrt() + eps as f64)
            }
        }
    }
}

fn shape_tensor(flat: &[f32], rank: usize) -> Tensor {
    // n = 12 elements
    match rank {
        1 => Tensor::single(flat.to_vec()),
        2 => Tensor::double(flat.chunks(4).map(|c| c.to_vec()).collect()),
        3 => Tensor::triple(flat.chunks(6).map(|c| c.chunks(3).map(|r| r.to_vec()).collect()).collect()),
        _ => unreachable!(),
    }
}
fn flat(t: &Tensor) -> Vec<f32> {
    match &t.data {
        Data::Single(v) => v.clone(),
        Data::Double(v) => v.iter().flatten().cloned().collect(),
        Data::Triple(v) => v.iter().flatten().flatten().cloned().collect(),
        _ => panic!(),
    }
}

fn kinds() -> Vec<Kind> {
    let mut ks = vec![];
    for decay in [None, Some(0.0f32), Some(0.05)] {
        ks.push(Kind::Sgd { lr: 0.1, decay });
        for (mom, damp) in [(0.0f32, 0.0f32), (0.9, 0.0), (0.9, 0.3), (0.0, 0.3), (0.5, 1.0), (0.99, 0.0)] {
            ks.push(Kind::Sgdm { lr: 0.05, mom, damp, decay });
        }
        for (b1, b2, eps) in [(0.9f32, 0.999f32, 1e-8f32), (0.5, 0.5, 1e-3), (0.99, 0.9, 1e-8), (0.1, 0.9999, 1e-6)] {
            ks.push(Kind::Adam { lr: 0.01, b1, b2, eps, decay });
            ks.push(Kind::AdamW { lr: 0.01, b1, b2, eps, decay: decay.unwrap_or(0.0) });
        }
        for mom in [None, Some(0.0f32), Some(0.9)] {
            for centered in [false, true] {
                for alpha in [0.99f32, 0.5, 0.9] {
                    ks.push(Kind::Rms { lr: 0.01, alpha, eps: 1e-8, decay, mom, centered });
                }
            }
        }
    }
    ks
}

fn gradient(seq: &str, rng: &mut Rng, t: usize, i: usize) -> f64 {
    match seq {
        "random" => rng.uni(-1.0, 1.0),
        "constant" => 0.3 + 0.05 * i as f64,
        "sparse" => if (t + i) % 5 == 0 { rng.uni(-1.0, 1.0) } else { 0.0 },
        "flip" => if t % 2 == 0 { 0.7 } else { -0.7 },
        "tiny" => rng.uni(-1.0, 1.0) * 1e-12,
        "large" => rng.uni(-1.0, 1.0) * 1e4,
        "zero" => 0.0,
        _ => unreachable!(),
    }
}

fn run(k: &Kind, rank: usize, seq: &str, steps: &[i32], seed: u64) -> (Vec<f32>, Vec<f64>) {
    let n = 12;
    let mut rng = Rng(seed);
    let w0: Vec<f32> = (0..n).map(|_| rng.uni(-1.0, 1.0) as f32).collect();
    let mut opt = make(k);
    // slot layout: 2 layers; layer0: 2 filters [w, b], layer1: 1 filter
    let z = |r: usize| shape_tensor(&vec![0.0; n], r);
    opt.validate(vec![vec![vec![z(rank), z(1)], vec![z(rank), z(1)]], vec![vec![z(rank), z(1)]]]);
    let mut w = shape_tensor(&w0, rank);
    let mut wr: Vec<f64> = w0.iter().map(|x| *x as f64).collect();
    let mut st = vec![St::default(); n];
    for (t, step) in steps.iter().enumerate() {
        let g: Vec<f32> = (0..n).map(|i| gradient(seq, &mut rng, t, i) as f32).collect();
        let mut gt = shape_tensor(&g, rank);
        opt.update(0, 1, false, *step, &mut w, &mut gt);
        for i in 0..n {
            wr[i] = reference(k, wr[i], g[i] as f64, &mut st[i], *step);
        }
    }
    (flat(&w), wr)
}

#[test]
fn h1_rules_multi_step_all_ranks() {
    let mut worst = 0.0f64;
    let mut worst_desc = String::new();
    let step_seqs: Vec<Vec<i32>> = vec![
        (1..=25).collect(),
        vec![1, 1, 1, 2, 2, 2, 3, 3, 3, 4, 4, 4],
        vec![1],
        vec![3, 3, 7, 7, 100, 100, 1000],
        vec![1, 2, 1, 2, 5, 1],
    ];
    for k in kinds() {
        for rank in 1..=3 {
            for seq in ["random", "constant", "sparse", "flip", "tiny", "large", "zero"] {
                for (si, steps) in step_seqs.iter().enumerate() {
                    let (got, want) = run(&k, rank, seq, steps, 17 + si as u64);
                    for i in 0..got.len() {
                        assert!(got[i].is_finite(), "non-finite {:?} rank {} seq {} steps {}", k, rank, seq, si);
                        let err = (got[i] as f64 - want[i]).abs() / want[i].abs().max(1e-2);
                        if err > worst { worst = err; worst_desc = format!("{:?} rank {} seq {} steps#{} got {} want {}", k, rank, seq, si, got[i], want[i]); }
                        if err > 1e-3 {
                            println!("DEV {:.3e}: {:?} rank {} seq {} steps#{} i {} got {} want {}", err, k, rank, seq, si, i, got[i], want[i]);
                        }
                    }
                }
            }
        }
    }
    println!("worst rel err {:.3e}: {}", worst, worst_desc);
}

#[test]
fn h2_rank_independence_bitwise() {
    let steps: Vec<i32> = vec![1, 1, 2, 2, 3, 4, 5, 6, 7, 8];
    for k in kinds() {
        for seq in ["random", "constant", "sparse", "flip", "tiny", "large"] {
            let (a, _) = run(&k, 1, seq, &steps, 5);
            let (b, _) = run(&k, 2, seq, &steps, 5);
            let (c, _) = run(&k, 3, seq, &steps, 5);
            for i in 0..a.len() {
                assert_eq!(a[i].to_bits(), b[i].to_bits(), "{:?} {}", k, seq);
                assert_eq!(a[i].to_bits(), c[i].to_bits(), "{:?} {}", k, seq);
            }
        }
    }
}

#[test]
fn h3_slot_isolation_interleaved() {
    // Interleave updates across 5 slots in one optimizer; compare to 5 optimizers each doing one slot.
    let n = 12;
    for k in kinds() {
        let slots = [(0usize, 0usize, false, 2usize), (0, 0, true, 1), (0, 1, false, 2), (1, 0, false, 3), (1, 0, true, 1)];
        let z = |r: usize| shape_tensor(&vec![0.0; n], r);
        let layout = || vec![vec![vec![z(2), z(1)], vec![z(2), z(1)]], vec![vec![z(3), z(1)]]];
        let mut joint = make(&k);
        joint.validate(layout());
        let mut solo: Vec<Optimizer> = slots.iter().map(|_| { let mut o = make(&k); o.validate(layout()); o }).collect();
        let mut rng = Rng(99);
        let mut wj: Vec<Tensor> = slots.iter().map(|s| shape_tensor(&(0..n).map(|_| rng.uni(-1.0, 1.0) as f32).collect::<Vec<_>>(), s.3)).collect();
        let mut ws: Vec<Tensor> = wj.clone();
        for t in 0..12 {
            // a different interleaving order per step
            let mut order: Vec<usize> = (0..slots.len()).collect();
            order.rotate_left(t % slots.len());
            if t % 2 == 1 { order.reverse(); }
            let gs: Vec<Vec<f32>> = slots.iter().map(|_| (0..n).map(|_| rng.uni(-1.0, 1.0) as f32).collect()).collect();
            for &s in &order {
                // some slots skip some steps
                if (t + s) % 4 == 3 { continue; }
                let (l, f, b, r) = slots[s];
                let step = (t / 3 + 1) as i32;
                let mut g1 = shape_tensor(&gs[s], r);
                let mut g2 = shape_tensor(&gs[s], r);
                joint.update(l, f, b, step, &mut wj[s], &mut g1);
                solo[s].update(l, f, b, step, &mut ws[s], &mut g2);
            }
        }
        for s in 0..slots.len() {
            let (a, b) = (flat(&wj[s]), flat(&ws[s]));
            for i in 0..n { assert_eq!(a[i].to_bits(), b[i].to_bits(), "{:?} slot {}", k, s); }
        }
    }
}

fn run_custom(k: &Kind, w0: f32, grads: &[f32], steps: &[i32]) -> (Vec<f32>, Vec<f64>) {
    let mut opt = make(k);
    opt.validate(vec![vec![vec![Tensor::single(vec![0.0]), Tensor::single(vec![0.0])]]]);
    let mut w = Tensor::single(vec![w0]);
    let mut wr = w0 as f64;
    let mut st = St::default();
    let mut got = vec![]; let mut want = vec![];
    for (g, s) in grads.iter().zip(steps.iter()) {
        let mut gt = Tensor::single(vec![*g]);
        opt.update(0, 0, false, *s, &mut w, &mut gt);
        wr = reference(k, wr, *g as f64, &mut st, *s);
        got.push(flat(&w)[0]); want.push(wr);
    }
    (got, want)
}

#[test]
fn h4_precision_corners() {
    // A: Adam, beta2 near 1, early steps: 1 - beta2^t cancellation
    for b2 in [0.9999f32, 0.99999, 0.999999, 0.9999999] {
        let k = Kind::Adam { lr: 0.1, b1: 0.9, b2, eps: 1e-8, decay: None };
        let grads = [0.5f32, 0.25, -0.75, 0.6, 0.1, 0.3, -0.2, 0.9];
        let steps: Vec<i32> = (1..=8).collect();
        let (got, want) = run_custom(&k, 1.0, &grads, &steps);
        let mut prev_g = 1.0f32; let mut prev_w = 1.0f64;
        for i in 0..got.len() {
            let ug = got[i] - prev_g; let uw = want[i] - prev_w;
            println!("A b2={:e} step {} update got {:e} want {:e} rel {:.3e}", b2, i + 1, ug, uw, ((ug as f64 - uw) / uw).abs());
            prev_g = got[i]; prev_w = want[i];
        }
    }
    // A': beta1 near 1
    for b1 in [0.9999f32, 0.999999, 0.9999999] {
        let k = Kind::Adam { lr: 0.1, b1, b2: 0.999, eps: 1e-8, decay: None };
        let grads = [0.5f32, 0.25, -0.75, 0.6, 0.1];
        let steps: Vec<i32> = (1..=5).collect();
        let (got, want) = run_custom(&k, 1.0, &grads, &steps);
        println!("A' b1={:e} got {:?} want {:?}", b1, got, want);
    }
    // B: tiny gradients with tiny epsilon
    for (g, eps) in [(1e-22f32, 1e-22f32), (1e-20, 1e-20), (1e-18, 1e-18), (1e-12, 1e-12)] {
        let k = Kind::Adam { lr: 0.1, b1: 0.9, b2: 0.999, eps, decay: None };
        let (got, want) = run_custom(&k, 1.0, &[g, g, g], &[1, 2, 3]);
        println!("B g={:e} eps={:e} got {:?} want {:?}", g, eps, got, want);
        let k = Kind::Rms { lr: 0.1, alpha: 0.99, eps, decay: None, mom: None, centered: false };
        let (got, want) = run_custom(&k, 1.0, &[g, g, g], &[1, 2, 3]);
        println!("B rms g={:e} eps={:e} got {:?} want {:?}", g, eps, got, want);
    }
    // C: large gradients
    for g in [1e6f32, 1e12, 1e18, 1.5e19, 1e20] {
        for k in [
            Kind::Adam { lr: 0.1, b1: 0.9, b2: 0.999, eps: 1e-8, decay: None },
            Kind::AdamW { lr: 0.1, b1: 0.9, b2: 0.999, eps: 1e-8, decay: 0.01 },
            Kind::Rms { lr: 0.1, alpha: 0.99, eps: 1e-8, decay: None, mom: None, centered: false },
            Kind::Rms { lr: 0.1, alpha: 0.99, eps: 1e-8, decay: None, mom: Some(0.9), centered: true },
        ] {
            let (got, want) = run_custom(&k, 1.0, &[g, -g, g * 0.5, 1.0], &[1, 2, 3, 4]);
            println!("C g={:e} {:?}\n    got {:?}\n   want {:?}", g, k, got, want);
        }
    }
    // D: centred RMSprop, constant gradient, default-like alpha: when does it depart?
    for alpha in [0.9f32, 0.99] {
        let k = Kind::Rms { lr: 0.001, alpha, eps: 1e-8, decay: None, mom: None, centered: true };
        let n = if alpha < 0.95 { 200 } else { 2500 };
        let grads = vec![0.5f32; n];
        let steps: Vec<i32> = (1..=n as i32).collect();
        let (got, want) = run_custom(&k, 1.0, &grads, &steps);
        let mut first = None;
        for i in 0..n {
            let err = ((got[i] as f64 - want[i]) / want[i].abs().max(1e-2)).abs();
            if err > 1e-2 && first.is_none() { first = Some(i + 1); }
        }
        println!("D alpha {} first step with >1% deviation: {:?}; final got {} want {}", alpha, first, got[n - 1], want[n - 1]);
    }
}

#[test]
fn h8_long_horizon() {
    let steps: Vec<i32> = (1..=3000).collect();
    let mut worst = 0.0f64; let mut desc = String::new();
    for k in kinds() {
        if let Kind::Rms { centered: true, .. } = k { continue; }
        for seq in ["random", "flip", "sparse"] {
            let (got, want) = run(&k, 2, seq, &steps, 3);
            for i in 0..got.len() {
                assert!(got[i].is_finite());
                let err = (got[i] as f64 - want[i]).abs() / want[i].abs().max(1.0);
                if err > worst { worst = err; desc = format!("{:?} {} got {} want {}", k, seq, got[i], want[i]); }
            }
        }
    }
    println!("long horizon worst err (rel to max(|w|,1)) {:.3e}: {}", worst, desc);
    assert!(worst < 1e-3);
}

#[test]
fn h7_zero_hyperparameters_substitution() {
    // what a zero hyper-parameter becomes (doc comments of `create` list other defaults)
    let one = |mut o: Optimizer| { o.validate(vec![vec![vec![Tensor::single(vec![0.0]), Tensor::single(vec![0.0])]]]);
        let mut w = Tensor::single(vec![1.0]); let mut g = Tensor::single(vec![0.5]); o.update(0, 0, false, 1, &mut w, &mut g); flat(&w)[0] };
    println!("SGD lr=0      : w {} (lr 0.1 => 0.95, documented default 0.001 => 0.9995)", one(SGD::create(0.0, None)));
    println!("SGDM lr=0     : w {}", one(SGDM::create(0.0, 0.0, 0.0, None)));
    println!("Adam all 0    : w {} (lr 0.001 => 0.999)", one(Adam::create(0.0, 0.0, 0.0, 0.0, None)));
    println!("RMSprop all 0 : w {} (lr .01, alpha .99 => 1 - .01/ sqrt(.01) = 0.9; documented .001/.9 => 0.99684)", one(RMSprop::create(0.0, 0.0, 0.0, None, None, false)));
}
