// Audit C04: learn() == ordered mini-batch gradient-sum descent.
use neurons::activation::Activation;
use neurons::network::Network;
use neurons::objective::{Function, Objective};
use neurons::optimizer::{Adam, AdamW, Optimizer, RMSprop, SGD, SGDM};
use neurons::tensor::{Data, Shape, Tensor};
use neurons::verif::{self, LayerParams};
use neurons::feedback;

struct Rng(u64);
impl Rng {
    fn next(&mut self) -> f64 {
        self.0 = self.0.wrapping_mul(6364136223846793005).wrapping_add(1442695040888963407);
        ((self.0 >> 11) as f64) / ((1u64 << 53) as f64)
    }
    fn uni(&mut self, a: f64, b: f64) -> f64 { a + (b - a) * self.next() }
}

#[derive(Clone, Debug)]
enum Kind {
    Sgd { lr: f32, decay: Option<f32> },
    Sgdm { lr: f32, mom: f32, damp: f32, decay: Option<f32> },
    Adam { lr: f32, b1: f32, b2: f32, eps: f32, decay: Option<f32> },
    AdamW { lr: f32, b1: f32, b2: f32, eps: f32, decay: f32 },
    Rms { lr: f32, alpha: f32, eps: f32, decay: Option<f32>, mom: Option<f32>, centered: bool },
}
fn make(k: &Kind) -> Optimizer {
    match k.clone() {
        Kind::Sgd { lr, decay } => SGD::create(lr, decay),
        Kind::Sgdm { lr, mom, damp, decay } => SGDM::create(lr, mom, damp, decay),
        Kind::Adam { lr, b1, b2, eps, decay } => Adam::create(lr, b1, b2, eps, decay),
        Kind::AdamW { lr, b1, b2, eps, decay } => AdamW::create(lr, b1, b2, eps, decay),
        Kind::Rms { lr, alpha, eps, decay, mom, centered } => RMSprop::create(lr, alpha, eps, decay, mom, centered),
    }
}
#[derive(Clone, Copy, Default)]
struct St { a: f64, b: f64, c: f64 }
fn reference(k: &Kind, w: f64, g: f64, st: &mut St, step: i32) -> f64 {
    match k.clone() {
        Kind::Sgd { lr, decay } => { let mut g = g; if let Some(d) = decay { g += d as f64 * w; } w - lr as f64 * g }
        Kind::Sgdm { lr, mom, damp, decay } => {
            let mut g = g; if let Some(d) = decay { g += d as f64 * w; }
            if step > 1 { st.a = mom as f64 * st.a + (1.0 - damp as f64) * g; g = st.a; } else { st.a = g; }
            w - lr as f64 * g
        }
        Kind::Adam { lr, b1, b2, eps, decay } => {
            let (b1, b2) = (b1 as f64, b2 as f64);
            let mut g = g; if let Some(d) = decay { g += d as f64 * w; }
            st.a = b1 * st.a + (1.0 - b1) * g; st.b = b2 * st.b + (1.0 - b2) * g * g;
            let m = st.a / (1.0 - b1.powi(step)); let v = st.b / (1.0 - b2.powi(step));
            w - lr as f64 * m / (v.sqrt() + eps as f64)
        }
        Kind::AdamW { lr, b1, b2, eps, decay } => {
            let (b1, b2) = (b1 as f64, b2 as f64);
            let w = w - lr as f64 * decay as f64 * w;
            st.a = b1 * st.a + (1.0 - b1) * g; st.b = b2 * st.b + (1.0 - b2) * g * g;
            let m = st.a / (1.0 - b1.powi(step)); let v = st.b / (1.0 - b2.powi(step));
            w - lr as f64 * m / (v.sqrt() + eps as f64)
        }
        Kind::Rms { lr, alpha, eps, decay, mom, centered } => {
            let al = alpha as f64;
            let mut g = g; if let Some(d) = decay { g += d as f64 * w; }
            st.a = al * st.a + (1.0 - al) * g * g;
            let mut v = st.a;
            if centered { st.b = al * st.b + (1.0 - al) * g; v -= st.b * st.b; }
            if let Some(m) = mom { st.c = m as f64 * st.c + g / (v.sqrt() + eps as f64); w - lr as f64 * st.c }
            else { w - lr as f64 * g / (v.sqrt() + eps as f64) }
        }
    }
}

fn tflat(t: &Tensor) -> Vec<f32> {
    match &t.data {
        Data::Single(v) => v.clone(),
        Data::Double(v) => v.iter().flatten().cloned().collect(),
        Data::Triple(v) => v.iter().flatten().flatten().cloned().collect(),
        Data::Quadruple(v) => v.iter().flatten().flatten().flatten().cloned().collect(),
        _ => panic!("tflat"),
    }
}
fn tlike(t: &Tensor, f: &[f32]) -> Tensor {
    let mut it = f.iter().cloned();
    match &t.data {
        Data::Single(v) => Tensor::single(v.iter().map(|_| it.next().unwrap()).collect()),
        Data::Double(v) => Tensor::double(v.iter().map(|r| r.iter().map(|_| it.next().unwrap()).collect()).collect()),
        Data::Triple(v) => Tensor::triple(v.iter().map(|c| c.iter().map(|r| r.iter().map(|_| it.next().unwrap()).collect()).collect()).collect()),
        _ => panic!("tlike"),
    }
}
fn lp_flat(p: &LayerParams) -> (Vec<f32>, Vec<f32>) {
    (p.weights.iter().flat_map(|t| tflat(t)).collect(), p.bias.as_ref().map(|b| tflat(b)).unwrap_or_default())
}
fn lp_like(p: &LayerParams, w: &[f32], b: &[f32]) -> LayerParams {
    let mut off = 0;
    let weights = p.weights.iter().map(|t| { let n = tflat(t).len(); let r = tlike(t, &w[off..off + n]); off += n; r }).collect();
    LayerParams { weights, bias: p.bias.as_ref().map(|t| tlike(t, b)), inner: vec![] }
}

/// Reference training. Returns (per-epoch train loss, final params flat per layer).
fn reference_train(net: &mut Network, obj: &Function, k: &Kind, xs: &[Tensor], ys: &[Tensor], batch: usize, epochs: i32)
    -> (Vec<f64>, Vec<(Vec<f32>, Vec<f32>)>) {
    let nl = net.layers.len();
    let p0 = verif::params(net);
    let mut stw: Vec<Vec<St>> = p0.iter().map(|p| vec![St::default(); lp_flat(p).0.len()]).collect();
    let mut stb: Vec<Vec<St>> = p0.iter().map(|p| vec![St::default(); lp_flat(p).1.len()]).collect();
    // f64 master copy of weights
    let mut mw: Vec<Vec<f64>> = p0.iter().map(|p| lp_flat(p).0.iter().map(|x| *x as f64).collect()).collect();
    let mut mb: Vec<Vec<f64>> = p0.iter().map(|p| lp_flat(p).1.iter().map(|x| *x as f64).collect()).collect();
    let mut losses = vec![];
    for epoch in 1..=epochs {
        let mut le = 0.0f64; let mut groups = 0;
        let mut start = 0;
        while start < xs.len() {
            let end = (start + batch).min(xs.len());
            let mut gw: Vec<Vec<f64>> = mw.iter().map(|v| vec![0.0; v.len()]).collect();
            let mut gb: Vec<Vec<f64>> = mb.iter().map(|v| vec![0.0; v.len()]).collect();
            let mut lsum = 0.0f64;
            for s in start..end {
                let (pre, act, max, fb) = net.forward(&xs[s]);
                let (loss, grad) = obj.loss(act.last().unwrap(), &ys[s]);
                lsum += loss as f64;
                let (wg, bg) = verif::backward(net, grad, &pre, &act, &max, fb);
                for l in 0..nl {
                    let r = nl - 1 - l; // reversed order
                    if gw[l].is_empty() { continue; }
                    let f = tflat(&wg[r]);
                    assert_eq!(f.len(), gw[l].len());
                    for i in 0..f.len() { gw[l][i] += f[i] as f64; }
                    if let Some(b) = &bg[r] { let f = tflat(b); for i in 0..f.len() { gb[l][i] += f[i] as f64; } }
                }
            }
            le += lsum / (end - start) as f64; groups += 1;
            // one optimizer step; library sums in f32 so round the sum to f32 first (as the gradient fed to the optimizer is f32)
            let cur = verif::params(net);
            let mut newp = vec![];
            for l in 0..nl {
                for i in 0..mw[l].len() { mw[l][i] = reference(k, mw[l][i] as f32 as f64, gw[l][i] as f32 as f64, &mut stw[l][i], epoch); }
                for i in 0..mb[l].len() { mb[l][i] = reference(k, mb[l][i] as f32 as f64, gb[l][i] as f32 as f64, &mut stb[l][i], epoch); }
                let w32: Vec<f32> = mw[l].iter().map(|x| *x as f32).collect();
                let b32: Vec<f32> = mb[l].iter().map(|x| *x as f32).collect();
                newp.push(lp_like(&cur[l], &w32, &b32));
            }
            verif::set_params(net, &newp);
            start = end;
        }
        losses.push(le / groups as f64);
    }
    let fin = verif::params(net).iter().map(lp_flat).collect();
    (losses, fin)
}

fn data(rng: &mut Rng, n: usize, inshape: &Shape, nout: usize, onehot: bool) -> (Vec<Tensor>, Vec<Tensor>) {
    let mut xs = vec![]; let mut ys = vec![];
    for s in 0..n {
        let x = match inshape {
            Shape::Single(k) => Tensor::single((0..*k).map(|_| rng.uni(-1.0, 1.0) as f32).collect()),
            Shape::Triple(c, h, w) => Tensor::triple((0..*c).map(|_| (0..*h).map(|_| (0..*w).map(|_| rng.uni(-1.0, 1.0) as f32).collect()).collect()).collect()),
            _ => panic!(),
        };
        let y = if onehot { Tensor::one_hot(s % nout, nout) } else { Tensor::single((0..nout).map(|_| rng.uni(0.05, 0.95) as f32).collect()) };
        xs.push(x); ys.push(y);
    }
    (xs, ys)
}

fn compare(name: &str, build: &dyn Fn() -> Network, objective: fn() -> Objective, clamp: Option<(f32, f32)>, k: &Kind,
           n: usize, batch: usize, epochs: i32, nout: usize, onehot: bool, inshape: Shape, tol: f64) -> f64 {
    let mut rng = Rng(4242 + n as u64 * 31 + batch as u64);
    let (xs, ys) = data(&mut rng, n, &inshape, nout, onehot);
    let mut a = build(); a.set_objective(objective(), clamp); a.set_optimizer(make(k));
    let mut r = build(); verif::set_params(&mut r, &verif::params(&a));
    let obj = Function::create(objective(), clamp);
    let xr: Vec<&Tensor> = xs.iter().collect(); let yr: Vec<&Tensor> = ys.iter().collect();
    let (tl, vl, va) = a.learn(&xr, &yr, None, batch, epochs, None);
    assert_eq!(tl.len(), epochs as usize, "{}", name); assert!(vl.is_empty() && va.is_empty());
    let (rl, rp) = reference_train(&mut r, &obj, k, &xs, &ys, batch, epochs);
    let mut worst = 0.0f64;
    for e in 0..epochs as usize {
        let err = (tl[e] as f64 - rl[e]).abs() / rl[e].abs().max(1e-3);
        worst = worst.max(err);
        assert!(err < tol.max(1e-3), "{} loss epoch {} got {} want {} ({:?} n {} b {})", name, e + 1, tl[e], rl[e], k, n, batch);
    }
    let ap: Vec<(Vec<f32>, Vec<f32>)> = verif::params(&a).iter().map(lp_flat).collect();
    for l in 0..ap.len() {
        for (g, w) in ap[l].0.iter().zip(rp[l].0.iter()).chain(ap[l].1.iter().zip(rp[l].1.iter())) {
            let err = (*g as f64 - *w as f64).abs() / (w.abs() as f64).max(1e-1);
            worst = worst.max(err);
            assert!(err < tol, "{} layer {} got {} want {} ({:?} n {} b {} e {})", name, l, g, w, k, n, batch, epochs);
        }
    }
    worst
}

fn opt_kinds() -> Vec<Kind> {
    vec![
        Kind::Sgd { lr: 0.05, decay: None },
        Kind::Sgd { lr: 0.05, decay: Some(0.01) },
        Kind::Sgdm { lr: 0.02, mom: 0.9, damp: 0.2, decay: Some(0.01) },
        Kind::Sgdm { lr: 0.02, mom: 0.0, damp: 0.3, decay: None },
        Kind::Adam { lr: 0.01, b1: 0.9, b2: 0.999, eps: 1e-8, decay: Some(0.01) },
        Kind::AdamW { lr: 0.01, b1: 0.8, b2: 0.99, eps: 1e-6, decay: 0.05 },
        Kind::Rms { lr: 0.005, alpha: 0.9, eps: 1e-6, decay: None, mom: None, centered: false },
        Kind::Rms { lr: 0.005, alpha: 0.9, eps: 1e-6, decay: Some(0.01), mom: Some(0.8), centered: true },
    ]
}

fn dense_net() -> Network {
    let mut n = Network::new(Shape::Single(4));
    n.dense(5, Activation::Tanh, true, None);
    n.dense(4, Activation::Sigmoid, false, None);
    n.dense(3, Activation::Linear, true, None);
    n
}
fn conv_net() -> Network {
    let mut n = Network::new(Shape::Triple(2, 6, 6));
    n.convolution(3, (3, 3), (1, 1), (1, 1), (1, 1), Activation::Tanh, None);
    n.maxpool((2, 2), (2, 2));
    n.convolution(2, (2, 2), (1, 1), (0, 0), (1, 1), Activation::Sigmoid, None);
    n.dense(3, Activation::Softmax, true, None);
    n
}
fn deconv_net() -> Network {
    let mut n = Network::new(Shape::Triple(1, 3, 3));
    n.deconvolution(2, (2, 2), (1, 1), (0, 0), Activation::Tanh, None);
    n.convolution(2, (2, 2), (1, 1), (0, 0), (1, 1), Activation::LeakyReLU, None);
    n.dense(2, Activation::Linear, false, None);
    n
}

#[test]
fn h1_dense_all_optimizers_nbe() {
    let mut worst = 0.0f64;
    for k in opt_kinds() {
        for (n, b, e) in [(7usize, 3usize, 3i32), (7, 1, 2), (5, 8, 4), (6, 6, 3), (1, 1, 5), (1, 4, 2), (9, 2, 2), (10, 5, 1), (11, 4, 3)] {
            worst = worst.max(compare("dense", &dense_net, || Objective::MSE, None, &k, n, b, e, 3, false, Shape::Single(4), 2e-3));
        }
    }
    println!("dense worst rel err {:.3e}", worst);
}

#[test]
fn h2_conv_all_optimizers() {
    let mut worst = 0.0f64;
    for k in opt_kinds() {
        for (n, b, e) in [(7usize, 3usize, 3i32), (4, 1, 2), (3, 5, 3)] {
            worst = worst.max(compare("conv", &conv_net, || Objective::CrossEntropy, None, &k, n, b, e, 3, true, Shape::Triple(2, 6, 6), 2e-3));
        }
    }
    println!("conv worst rel err {:.3e}", worst);
}

#[test]
fn h3_deconv_objectives() {
    let mut worst = 0.0f64;
    let objs: Vec<(fn() -> Objective, Option<(f32, f32)>)> = vec![
        (|| Objective::AE, None), (|| Objective::MAE, None), (|| Objective::MSE, Some((-0.1, 0.1))), (|| Objective::RMSE, None),
        (|| Objective::BinaryCrossEntropy, Some((-1.0, 1.0))), (|| Objective::KLDivergence, Some((-1.0, 1.0))),
    ];
    for (o, c) in objs {
        for k in [Kind::Sgd { lr: 0.01, decay: None }, Kind::Adam { lr: 0.01, b1: 0.9, b2: 0.999, eps: 1e-8, decay: None }] {
            worst = worst.max(compare("deconv", &deconv_net, o, c, &k, 5, 2, 3, 2, false, Shape::Triple(1, 3, 3), 2e-3));
        }
    }
    println!("deconv worst rel err {:.3e}", worst);
}

// ---------- skip / loop connections ----------
fn skiploop_net() -> Network {
    let mut n = Network::new(Shape::Single(4));
    n.dense(4, Activation::Tanh, true, None);
    n.dense(4, Activation::Tanh, false, None);
    n.dense(4, Activation::Sigmoid, true, None);
    n.dense(3, Activation::Linear, true, None);
    n.connect(0, 2);
    n.loopback(2, 1, 2, std::sync::Arc::new(|x| 1.0 / x), false);
    n
}
#[test]
fn h4_skip_and_loop_connections() {
    let mut worst = 0.0f64;
    for k in opt_kinds() {
        worst = worst.max(compare("skiploop", &skiploop_net, || Objective::MSE, None, &k, 7, 3, 3, 3, false, Shape::Single(4), 2e-3));
    }
    println!("skiploop worst rel err {:.3e}", worst);
}

// ---------- large N, batch around rayon splitting ----------
#[test]
fn h5_large_n_batches() {
    let mut worst = 0.0f64;
    for (n, b) in [(150usize, 64usize), (130, 65), (257, 100), (64, 7)] {
        for k in [Kind::Adam { lr: 0.01, b1: 0.9, b2: 0.999, eps: 1e-8, decay: None }, Kind::Sgdm { lr: 0.001, mom: 0.9, damp: 0.0, decay: None }] {
            worst = worst.max(compare("large", &dense_net, || Objective::MSE, None, &k, n, b, 2, 3, false, Shape::Single(4), 2e-3));
        }
    }
    println!("large worst rel err {:.3e}", worst);
}

// ---------- every sample contributes exactly once; order of groups ----------
#[test]
fn h6_contribution_and_order() {
    // 1-weight linear net, AE objective: each sample's gradient is sign * x, so with SGD the weight change in an epoch
    // is -lr * sum_i s_i x_i, with distinct powers of two as x_i every subset sum is unique.
    for (n, b) in [(5usize, 2usize), (5, 1), (5, 7), (6, 3), (1, 1), (5, usize::MAX)] {
        let mut net = Network::new(Shape::Single(1));
        net.dense(1, Activation::Linear, false, None);
        net.set_objective(Objective::AE, None);
        net.set_optimizer(SGD::create(1.0 / 1024.0, None));
        verif::set_params(&mut net, &[LayerParams { weights: vec![Tensor::double(vec![vec![0.0]])], bias: None, inner: vec![] }]);
        let xs: Vec<Tensor> = (0..n).map(|i| Tensor::single(vec![(1u32 << i) as f32])).collect();
        let ys: Vec<Tensor> = (0..n).map(|_| Tensor::single(vec![1000.0])).collect(); // prediction always below target: gradient -x
        let xr: Vec<&Tensor> = xs.iter().collect(); let yr: Vec<&Tensor> = ys.iter().collect();
        let (tl, _, _) = net.learn(&xr, &yr, None, b, 1, None);
        let w = tflat(&verif::params(&net)[0].weights[0])[0];
        let want = ((1u32 << n) - 1) as f32 / 1024.0;
        assert_eq!(w, want, "n {} b {}", n, b);
        // loss: mean over groups of mean per-sample |1000 - w_before * x|
        let mut wref = 0.0f64; let mut le = 0.0f64; let mut groups = 0; let mut s = 0;
        while s < n { let e = s.saturating_add(b).min(n); let mut l = 0.0; let mut g = 0.0;
            for i in s..e { let x = (1u32 << i) as f64; l += (1000.0 - wref * x).abs(); g += -x; }
            le += l / (e - s) as f64; groups += 1; wref -= g / 1024.0; s = e; }
        let want_l = le / groups as f64;
        assert!((tl[0] as f64 - want_l).abs() < 1e-3, "n {} b {} loss {} want {}", n, b, tl[0], want_l);
    }
}

// ---------- feedback blocks ----------
#[test]
fn h7_feedback_block_coupling_scales_weights() {
    // block of one linear dense layer without bias, two loops, additive accumulation; SGD with a zero-gradient sample.
    let mut net = Network::new(Shape::Single(2));
    net.feedback(vec![feedback::Layer::Dense(2, Activation::Linear, false, None)], 2, false, false, feedback::Accumulation::Add);
    net.dense(1, Activation::Linear, false, None);
    net.set_objective(Objective::MSE, None);
    net.set_optimizer(SGD::create(0.01, None));
    let before = verif::params(&net);
    let x = Tensor::single(vec![0.0, 0.0]); // zero input => zero weight gradients in the block
    let pred = net.predict(&x);
    let y = pred.clone(); // zero loss gradient too
    let _ = net.learn(&vec![&x], &vec![&y], None, 1, 1, None);
    let after = verif::params(&net);
    println!("feedback Add: before {:?} after {:?}", tflat(&before[0].inner[0].weights[0]), tflat(&after[0].inner[0].weights[0]));
}

#[test]
fn h8_feedback_block_with_maxpool() {
    let mut net = Network::new(Shape::Triple(1, 4, 4));
    net.feedback(vec![
        feedback::Layer::Convolution(1, Activation::Linear, (3, 3), (1, 1), (1, 1), (1, 1), None),
        feedback::Layer::Maxpool((1, 1), (1, 1)),
    ], 1, false, false, feedback::Accumulation::Mean);
    net.dense(1, Activation::Linear, false, None);
    net.set_objective(Objective::MSE, None);
    net.set_optimizer(SGD::create(0.01, None));
    let x = Tensor::triple(vec![vec![vec![0.1, 0.2, 0.3, 0.4]; 4]]);
    let y = Tensor::single(vec![0.5]);
    let _ = net.predict(&x);
    let r = std::panic::catch_unwind(std::panic::AssertUnwindSafe(|| { let _ = net.learn(&vec![&x], &vec![&y], None, 1, 1, None); }));
    println!("feedback block with maxpool: learn panicked = {}", r.is_err());
}

#[test]
fn h9_set_optimizer_before_layers() {
    let mut net = Network::new(Shape::Single(2));
    net.set_optimizer(Adam::create(0.01, 0.9, 0.999, 1e-8, None));
    net.dense(1, Activation::Linear, false, None);
    let x = Tensor::single(vec![0.3, 0.2]); let y = Tensor::single(vec![0.5]);
    let r = std::panic::catch_unwind(std::panic::AssertUnwindSafe(|| { let _ = net.learn(&vec![&x], &vec![&y], None, 1, 1, None); }));
    println!("set_optimizer before layers: learn panicked = {}", r.is_err());
}

// ---------- feedback block, mean coupling: batching still a gradient sum (coupling step modelled) ----------
fn unnest(t: &Tensor) -> Vec<Tensor> { match &t.data { Data::Nested(v) => v.clone(), _ => panic!("not nested") } }
fn unnest_opt(t: &Tensor) -> Vec<Option<Tensor>> { match &t.data { Data::NestedOptional(v) => v.clone(), _ => panic!("not nestedopt") } }

#[test]
fn h10_feedback_mean_batching() {
    for k in [Kind::Sgd { lr: 0.05, decay: None }, Kind::Adam { lr: 0.01, b1: 0.9, b2: 0.999, eps: 1e-8, decay: None }] {
        for (n, b, e) in [(5usize, 2usize, 3i32), (4, 4, 2), (3, 1, 2)] {
            let build = || {
                let mut net = Network::new(Shape::Single(3));
                net.feedback(vec![
                    feedback::Layer::Dense(4, Activation::Tanh, true, None),
                    feedback::Layer::Dense(3, Activation::Tanh, false, None),
                ], 2, true, false, feedback::Accumulation::Mean);
                net.dense(2, Activation::Linear, true, None);
                net
            };
            let mut rng = Rng(77);
            let (xs, ys) = data(&mut rng, n, &Shape::Single(3), 2, false);
            let mut a = build(); a.set_objective(Objective::MSE, None); a.set_optimizer(make(&k));
            let mut r = build(); verif::set_params(&mut r, &verif::params(&a));
            let obj = Function::create(Objective::MSE, None);
            let xr: Vec<&Tensor> = xs.iter().collect(); let yr: Vec<&Tensor> = ys.iter().collect();
            let (tl, _, _) = a.learn(&xr, &yr, None, b, e, None);

            // reference
            let p0 = verif::params(&r);
            let nin = p0[0].inner.len(); // 4 unrolled layers
            let length = 2;
            // states: per unrolled layer (w, b), plus last dense
            let mut st_in: Vec<(Vec<St>, Vec<St>)> = p0[0].inner.iter().map(|p| { let (w, bb) = lp_flat(p); (vec![St::default(); w.len()], vec![St::default(); bb.len()]) }).collect();
            let (w1, b1) = lp_flat(&p0[1]);
            let mut st_d = (vec![St::default(); w1.len()], vec![St::default(); b1.len()]);
            let mut rl = vec![];
            for epoch in 1..=e {
                let mut le = 0.0; let mut groups = 0; let mut s = 0;
                while s < n {
                    let end = (s + b).min(n);
                    let cur = verif::params(&r);
                    let mut g_in: Vec<(Vec<f64>, Vec<f64>)> = cur[0].inner.iter().map(|p| { let (w, bb) = lp_flat(p); (vec![0.0; w.len()], vec![0.0; bb.len()]) }).collect();
                    let mut g_d = (vec![0.0f64; w1.len()], vec![0.0f64; b1.len()]);
                    let mut lsum = 0.0;
                    for i in s..end {
                        let (pre, act, max, fb) = r.forward(&xs[i]);
                        let (loss, grad) = obj.loss(act.last().unwrap(), &ys[i]);
                        lsum += loss as f64;
                        let (wg, bg) = verif::backward(&r, grad, &pre, &act, &max, fb);
                        // reversed layer order: wg[0] = last dense, wg[1] = block (nested, reversed inner order)
                        for (j, v) in tflat(&wg[0]).iter().enumerate() { g_d.0[j] += *v as f64; }
                        for (j, v) in tflat(bg[0].as_ref().unwrap()).iter().enumerate() { g_d.1[j] += *v as f64; }
                        let iw = unnest(&wg[1]); let ib = unnest_opt(bg[1].as_ref().unwrap());
                        for u in 0..nin {
                            let ru = nin - 1 - u;
                            for (j, v) in tflat(&iw[ru]).iter().enumerate() { g_in[u].0[j] += *v as f64; }
                            if let Some(bt) = &ib[ru] { for (j, v) in tflat(bt).iter().enumerate() { g_in[u].1[j] += *v as f64; } }
                        }
                    }
                    le += lsum / (end - s) as f64; groups += 1;
                    // optimizer step per unrolled layer
                    let mut new_in: Vec<(Vec<f64>, Vec<f64>)> = vec![];
                    for u in 0..nin {
                        let (w, bb) = lp_flat(&cur[0].inner[u]);
                        let nw: Vec<f64> = (0..w.len()).map(|j| reference(&k, w[j] as f64, g_in[u].0[j] as f32 as f64, &mut st_in[u].0[j], epoch)).collect();
                        let nb: Vec<f64> = (0..bb.len()).map(|j| reference(&k, bb[j] as f64, g_in[u].1[j] as f32 as f64, &mut st_in[u].1[j], epoch)).collect();
                        new_in.push((nw, nb));
                    }
                    // mean coupling across loops
                    let loops = nin / length;
                    let mut inner_new = vec![];
                    for u in 0..nin {
                        let base = u % length;
                        let nw: Vec<f32> = (0..new_in[u].0.len()).map(|j| ((0..loops).map(|l| new_in[base + l * length].0[j] as f32 as f64).sum::<f64>() / loops as f64) as f32).collect();
                        let nb: Vec<f32> = (0..new_in[u].1.len()).map(|j| ((0..loops).map(|l| new_in[base + l * length].1[j] as f32 as f64).sum::<f64>() / loops as f64) as f32).collect();
                        inner_new.push(lp_like(&cur[0].inner[u], &nw, &nb));
                    }
                    let (w, bb) = lp_flat(&cur[1]);
                    let nw: Vec<f32> = (0..w.len()).map(|j| reference(&k, w[j] as f64, g_d.0[j] as f32 as f64, &mut st_d.0[j], epoch) as f32).collect();
                    let nb: Vec<f32> = (0..bb.len()).map(|j| reference(&k, bb[j] as f64, g_d.1[j] as f32 as f64, &mut st_d.1[j], epoch) as f32).collect();
                    let newp = vec![LayerParams { weights: vec![], bias: None, inner: inner_new }, lp_like(&cur[1], &nw, &nb)];
                    verif::set_params(&mut r, &newp);
                    s = end;
                }
                rl.push(le / groups as f64);
            }
            for ep in 0..e as usize { assert!((tl[ep] as f64 - rl[ep]).abs() < 1e-4 * rl[ep].max(1e-2), "loss {:?} {:?}", tl, rl); }
            let pa = verif::params(&a); let pr = verif::params(&r);
            let mut worst = 0.0f64;
            for u in 0..nin {
                let (wa, ba) = lp_flat(&pa[0].inner[u]); let (wr, br) = lp_flat(&pr[0].inner[u]);
                for (x, y) in wa.iter().zip(wr.iter()).chain(ba.iter().zip(br.iter())) { worst = worst.max((*x as f64 - *y as f64).abs()); }
            }
            let (wa, ba) = lp_flat(&pa[1]); let (wr, br) = lp_flat(&pr[1]);
            for (x, y) in wa.iter().zip(wr.iter()).chain(ba.iter().zip(br.iter())) { worst = worst.max((*x as f64 - *y as f64).abs()); }
            println!("feedback mean {:?} n {} b {} e {}: worst abs err {:.3e}", k, n, b, e, worst);
            assert!(worst < 1e-4);
        }
    }
}

// ---------- with / without validation data (and with deterministic dropout): identical weights ----------
#[test]
fn h11_validation_does_not_alter_training() {
    let build = || {
        let mut net = Network::new(Shape::Triple(1, 4, 4));
        net.convolution(2, (3, 3), (1, 1), (1, 1), (1, 1), Activation::Tanh, Some(0.3));
        net.dense(4, Activation::Tanh, true, Some(0.4));
        net.dense(2, Activation::Softmax, true, None);
        net.set_objective(Objective::CrossEntropy, None);
        net
    };
    let mut rng = Rng(5);
    let (xs, ys) = data(&mut rng, 6, &Shape::Triple(1, 4, 4), 2, true);
    let xr: Vec<&Tensor> = xs.iter().collect(); let yr: Vec<&Tensor> = ys.iter().collect();
    let mut a = build(); a.set_optimizer(make(&Kind::Adam { lr: 0.01, b1: 0.9, b2: 0.999, eps: 1e-8, decay: None }));
    let mut b = build(); b.set_optimizer(make(&Kind::Adam { lr: 0.01, b1: 0.9, b2: 0.999, eps: 1e-8, decay: None }));
    verif::set_params(&mut b, &verif::params(&a));
    let (ta, _, _) = a.learn(&xr, &yr, None, 4, 5, None);
    let (tb, vb, _) = b.learn(&xr, &yr, Some((&xr, &yr, 100)), 4, 5, None);
    assert_eq!(vb.len(), 5);
    for (x, y) in ta.iter().zip(tb.iter()) { assert_eq!(x.to_bits(), y.to_bits()); }
    let (pa, pb) = (verif::params(&a), verif::params(&b));
    for l in 0..pa.len() { let (wa, ba) = lp_flat(&pa[l]); let (wb, bb) = lp_flat(&pb[l]);
        for (x, y) in wa.iter().zip(wb.iter()).chain(ba.iter().zip(bb.iter())) { assert_eq!(x.to_bits(), y.to_bits()); } }
    assert!(verif::training_flags(&b).iter().all(|f| !*f));
}
