// C13 finding 2 — epoch budget i32::MAX ("train until early stopping"): learn panics in a debug build and trains ZERO
// epochs (three empty histories) in a release build.
//
// Network: one linear dense unit without bias, w0 = 1; MSE; SGD lr = 1.25; training = validation sample (x=1, y=0);
// tolerance 2. Derivation: w <- w (1 - 2*1.25) = -1.5 w, validation loss after epoch e = 2.25^e: 2.25, 5.0625, 11.390625, ...
// strictly increasing, so the rule (more than 2 epochs run, last 2 recorded losses strictly increasing) first holds at epoch 3:
// three entries in each history, for every budget >= 3 (checked here with budget 1000: 3 entries).
// Observed with budget i32::MAX: debug build: panic "attempt to add with overflow" at src/network.rs:867
// (`for epoch in 1..epochs + 1`); release build: `epochs + 1` wraps to i32::MIN, the range is empty, learn returns
// ([], [], []) and the weights are untouched.
//
// Run: cargo test --offline --features verif --test C13_2 -- --nocapture        (panic)
//      cargo test --release --offline --features verif --test C13_2 -- --nocapture   (0 epochs)
use neurons::activation::Activation;
use neurons::network::Network;
use neurons::objective::Objective;
use neurons::optimizer::SGD;
use neurons::tensor::{Shape, Tensor};
use neurons::verif::{self, LayerParams};

fn run(epochs: i32) -> (usize, usize, usize) {
    let mut n = Network::new(Shape::Single(1));
    n.dense(1, Activation::Linear, false, None);
    n.set_objective(Objective::MSE, None);
    n.set_optimizer(SGD::create(1.25, None));
    verif::set_params(&mut n, &[LayerParams { weights: vec![Tensor::double(vec![vec![1.0]])], bias: None, inner: vec![] }]);
    let x = Tensor::single(vec![1.0]);
    let y = Tensor::single(vec![0.0]);
    let (xs, ys) = (vec![&x], vec![&y]);
    let (t, v, a) = n.learn(&xs, &ys, Some((&xs, &ys, 2)), 1, epochs, None);
    (t.len(), v.len(), a.len())
}

#[test]
fn budget_i32_max() {
    assert_eq!(run(1000), (3, 3, 3));
    assert_eq!(run(i32::MAX - 1), (3, 3, 3));
    assert_eq!(run(i32::MAX), (3, 3, 3));
}
