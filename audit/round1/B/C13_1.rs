// C13 finding 1 — tolerance 1: training always stops after epoch 2, also when the validation loss only falls.
//
// Network: one linear dense unit without bias, w0 = 1; MSE; SGD lr = 0.25; one training sample (x=1, y=0), the same
// sample as validation data; tolerance = 1; budget 10 epochs.
// Derivation: loss = w^2, dL/dw = 2w, so w <- w (1 - 2*0.25) = w/2 per epoch; validation loss after epoch e is
// 0.25^e: 0.25, 0.0625, 0.015625, ... strictly DEcreasing. "Training stops before the requested number of epochs only if the
// validation loss has strictly increased throughout the last `tolerance` recorded epochs": it never increased, so all 10
// epochs must run and each history must have 10 entries.
// Observed: 2 entries, "Validation loss has increased for the last 1 epochs. Stopping training (at epoch 2)." with history
// [0.25, 0.0625]. Cause: src/network.rs learn(), early-stopping block: the window holds `threshold` values and is compared
// with `threshold - 1` comparisons; for threshold = 1 the loop `for i in 0..threshold as usize - 1` is empty, `increasing`
// stays true, so the rule degenerates to `epoch > 1`.
//
// Run: cargo test --offline --features verif --test C13_1 -- --nocapture
use neurons::activation::Activation;
use neurons::network::Network;
use neurons::objective::Objective;
use neurons::optimizer::SGD;
use neurons::tensor::{Shape, Tensor};
use neurons::verif::{self, LayerParams};

#[test]
fn tolerance_one_stops_on_a_falling_loss() {
    let mut n = Network::new(Shape::Single(1));
    n.dense(1, Activation::Linear, false, None);
    n.set_objective(Objective::MSE, None);
    n.set_optimizer(SGD::create(0.25, None));
    verif::set_params(&mut n, &[LayerParams { weights: vec![Tensor::double(vec![vec![1.0]])], bias: None, inner: vec![] }]);
    let x = Tensor::single(vec![1.0]);
    let y = Tensor::single(vec![0.0]);
    let (xs, ys) = (vec![&x], vec![&y]);
    let (train, val, acc) = n.learn(&xs, &ys, Some((&xs, &ys, 1)), 1, 10, None);
    println!("train {:?}\nval   {:?}", train, val);
    assert_eq!(val.len(), acc.len());
    assert_eq!(train.len(), val.len());
    assert!(val.windows(2).all(|p| p[1] < p[0]), "validation loss is strictly decreasing");
    for (e, v) in val.iter().enumerate() { assert!((*v as f64 - 0.25f64.powi(e as i32 + 1)).abs() < 1e-7); }
    assert_eq!(train.len(), 10, "stopped after {} epochs although the validation loss never increased", train.len());
}
