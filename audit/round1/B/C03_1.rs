// C03 finding 1 — centred RMSprop under a constant gradient departs from the documented equations by
// orders of magnitude (no NaN any more, but the value is wrong).
//
// Configuration (all inside the quantifier: RMSprop, centred = true, no momentum, no decay, constant gradient
// sequence, finite moderate values, exact result does not overflow):
//   lr = 0.01, alpha = 0.5, epsilon = 1e-8, one parameter w0 = 1.0, gradient g = 0.65 at each of 25 steps.
//
// Expected value (documented equations, RMSprop::update doc comment, evaluated in f64 — recurrence AND closed form):
//   v_t = alpha v_{t-1} + (1-alpha) g^2 = (1-alpha^t) g^2
//   m_t = alpha m_{t-1} + (1-alpha) g   = (1-alpha^t) g
//   c_t = v_t - m_t^2                   = alpha^t (1-alpha^t) g^2       (> 0 for every t)
//   w_t = w_{t-1} - lr g / (sqrt(c_t) + eps)
//   => w_25 = 1 - sum_{t=1..25} lr g / (g sqrt(alpha^t (1-alpha^t)) + eps)  = -196.7432 (both ways)
// Observed: w_25 = -1950087.5 (f32 cancellation in `v - gradient^2`, then `.max(0.0)` makes the denominator
//   epsilon alone, so single steps of lr*g/eps = 650000 are taken). Deviation exceeds 0.1 % at step 17, 1 % at step 20, 27 % at step 22, factor 6600 at step 23.
//
// Run: cargo test --offline --features verif --test C03_1 -- --nocapture
use neurons::optimizer::RMSprop;
use neurons::tensor::{Data, Tensor};

#[test]
fn centred_rmsprop_constant_gradient() {
    let (lr, alpha, eps, g, w0, steps) = (0.01f32, 0.5f32, 1e-8f32, 0.65f32, 1.0f32, 25);
    let mut opt = RMSprop::create(lr, alpha, eps, None, None, true);
    opt.validate(vec![vec![vec![Tensor::single(vec![0.0]), Tensor::single(vec![0.0])]]]);
    let mut w = Tensor::single(vec![w0]);

    let (lr64, al, eps64, g64) = (lr as f64, alpha as f64, eps as f64, g as f64);
    let (mut v, mut m, mut wr) = (0.0f64, 0.0f64, w0 as f64);
    let mut closed = w0 as f64;
    let mut first_bad = None;
    for t in 1..=steps {
        let mut grad = Tensor::single(vec![g]);
        opt.update(0, 0, false, t, &mut w, &mut grad);
        v = al * v + (1.0 - al) * g64 * g64;
        m = al * m + (1.0 - al) * g64;
        wr -= lr64 * g64 / ((v - m * m).sqrt() + eps64);
        let at = al.powi(t);
        closed -= lr64 * g64 / (g64 * (at * (1.0 - at)).sqrt() + eps64);
        let got = match &w.data { Data::Single(x) => x[0], _ => unreachable!() };
        let rel = ((got as f64 - wr) / wr).abs();
        println!("step {:2}: library {:>14} reference {:>14.6} closed form {:>14.6} rel.dev {:.2e}", t, got, wr, closed, rel);
        if rel > 1e-2 && first_bad.is_none() { first_bad = Some(t); }
    }
    assert!((wr - closed).abs() < 1e-6 * closed.abs(), "the two f64 derivations disagree");
    let got = match &w.data { Data::Single(x) => x[0], _ => unreachable!() };
    assert!(got.is_finite());
    assert!(((got as f64 - wr) / wr).abs() < 1e-2,
        "after {} steps: library {} but the documented equations give {:.4} (first >1% deviation at step {:?})", steps, got, wr, first_bad);
}
