// C04 finding 1 — a training step with an all-zero gradient changes the weights of a feedback block whose accumulation is
// Add / Subtract / Multiply (plain SGD, no decay): after `Feedback::update` has applied the optimizer step to every unrolled
// copy, the "coupling" loop combines the copies' weights with the block's accumulation method.
//
// Network: input 2 -> feedback block [Dense(2, Linear, no bias)] x 2 loops, no skips, accumulation A -> Dense(1, Linear).
// SGD lr = 0.01, MSE. One sample x = (0, 0) with target = the network's own prediction, so the loss gradient is 0 and
// every weight gradient is exactly 0. One epoch, batch 1.
// Expected (C04: one optimizer step on the summed per-sample gradients; SGD: w - lr * 0 = w): all weights unchanged, bit for bit.
// Observed: A = Add: block weights doubled (w + w); A = Subtract: block weights become 0 (w - w);
//           A = Multiply: block weights squared (w * w); A = Mean: unchanged. Source: src/feedback.rs Feedback::update,
//           "Couple respective layers" loop (Accumulation::Add / Subtract / Multiply arms).
//
// Run: cargo test --offline --features verif --test C04_1 -- --nocapture
use neurons::activation::Activation;
use neurons::feedback::{self, Accumulation};
use neurons::network::Network;
use neurons::objective::Objective;
use neurons::optimizer::SGD;
use neurons::tensor::{Data, Shape, Tensor};
use neurons::verif;

fn flat(t: &Tensor) -> Vec<f32> { match &t.data { Data::Double(v) => v.iter().flatten().cloned().collect(), _ => panic!() } }

fn step(acc: Accumulation) -> (Vec<f32>, Vec<f32>, f32) {
    let mut net = Network::new(Shape::Single(2));
    net.feedback(vec![feedback::Layer::Dense(2, Activation::Linear, false, None)], 2, false, false, acc);
    net.dense(1, Activation::Linear, false, None);
    net.set_objective(Objective::MSE, None);
    net.set_optimizer(SGD::create(0.01, None));
    let before = flat(&verif::params(&net)[0].inner[0].weights[0]);
    let x = Tensor::single(vec![0.0, 0.0]);
    let y = net.predict(&x);
    let (loss, _, _) = net.learn(&vec![&x], &vec![&y], None, 1, 1, None);
    let after = flat(&verif::params(&net)[0].inner[0].weights[0]);
    (before, after, loss[0])
}

#[test]
fn zero_gradient_step_changes_block_weights() {
    let mut bad = vec![];
    for (name, acc) in [("Mean", Accumulation::Mean), ("Add", Accumulation::Add), ("Subtract", Accumulation::Subtract), ("Multiply", Accumulation::Multiply)] {
        let (b, a, loss) = step(acc);
        println!("{:9} loss {} before {:?} after {:?}", name, loss, b, a);
        assert_eq!(loss, 0.0);
        if b.iter().zip(a.iter()).any(|(x, y)| x.to_bits() != y.to_bits()) { bad.push(name); }
    }
    assert!(bad.is_empty(), "zero-gradient SGD step changed the block weights for accumulation {:?}", bad);
}
