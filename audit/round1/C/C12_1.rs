// C12 finding (numerical range; borderline): validate() does not return the arithmetic mean of the
// per-sample losses / accuracies when the f32 running SUM leaves the range in which it is exact,
// although every per-sample value and the mean itself are ordinary finite f32 numbers.
//
// Run: copy to tests/audit_C12_1.rs, then cargo test --offline --features verif --test audit_C12_1 -- --nocapture
//      cargo test --release --offline --features verif --test audit_C12_1 -- --nocapture --ignored
//
// Network: one dense layer 1 -> 1, Linear, no bias, weight 1.0 (so predict(x) = x), objective MSE.
//
// (a) two samples x = 1.5e19, target 0: per-sample loss = (1.5e19)^2 = 2.25e38 (finite, < f32::MAX
//     = 3.4e38; computed here with the objective itself and by hand). Expected mean of two equal
//     values = 2.25e38. Observed: inf.
// (b) [ignored, needs --release, ~5 s] 20 000 000 samples x = 1, target 0, tolerance 2: every sample
//     has loss exactly 1.0 and accuracy exactly 1.0. Expected mean loss 1.0 and accuracy 1.0.
//     Observed: 0.8388608 for both (= 2^24 / 20 000 000): the f32 sum stops growing at 16 777 216.
//     With 2^24 samples or fewer the result is exact.
//
// Source: src/network.rs, Network::validate, last statement:
//     loss.iter().sum::<f32>() / loss.len() as f32,  acc.iter().sum::<f32>() / acc.len() as f32
// Inside the quantifier: "all data-set sizes ... all inputs"; all values involved are finite.

use neurons::tensor::{Shape, Tensor};
use neurons::{activation::Activation, network::Network, objective, verif};

fn identity_net() -> Network {
    let mut net = Network::new(Shape::Single(1));
    net.dense(1, Activation::Linear, false, None);
    let mut ps = verif::params(&net);
    ps[0].weights[0] = Tensor::double(vec![vec![1.0]]);
    verif::set_params(&mut net, &ps);
    net.set_objective(objective::Objective::MSE, None);
    net
}

#[test]
fn mean_of_two_equal_finite_losses() {
    let mut net = identity_net();
    let v = 1.5e19f32;
    let xs = vec![Tensor::single(vec![v]), Tensor::single(vec![v])];
    let ys = vec![Tensor::single(vec![0.0]), Tensor::single(vec![0.0])];
    let vx: Vec<&Tensor> = xs.iter().collect();
    let vy: Vec<&Tensor> = ys.iter().collect();

    assert_eq!(net.predict(&xs[0]).get_flat(), vec![v]);
    let per_sample = objective::Function::create(objective::Objective::MSE, None)
        .loss(&net.predict(&xs[0]), &ys[0])
        .0;
    let by_hand = (v as f64) * (v as f64);
    assert!(per_sample.is_finite() && ((per_sample as f64 - by_hand) / by_hand).abs() < 1e-6);

    // one sample: fine
    let (l1, _) = net.validate(&vx[..1], &vy[..1], 1.0);
    assert_eq!(l1, per_sample);
    // two samples: the mean of {L, L} is L
    let (l2, _) = net.validate(&vx, &vy, 1.0);
    println!("per-sample loss {per_sample:e}; validate over two such samples returns {l2}");
    assert_eq!(l2, per_sample, "expected the mean {per_sample:e}, observed {l2}");
}

#[test]
#[ignore]
fn mean_over_more_than_2pow24_samples() {
    let mut net = identity_net();
    let x = Tensor::single(vec![1.0]);
    let y = Tensor::single(vec![0.0]);
    let n = 20_000_000usize;
    let vx: Vec<&Tensor> = vec![&x; n];
    let vy: Vec<&Tensor> = vec![&y; n];
    let (l, a) = net.validate(&vx, &vy, 2.0);
    println!("n = {n}: mean loss {l} (every sample 1.0), accuracy {a} (every sample 1.0)");
    assert_eq!((l, a), (1.0, 1.0));
}
