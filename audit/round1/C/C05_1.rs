// C05 violation: repeated runs from the same weights and data are NOT bit-identical when the
// network contains a feedback block with input-to-input skips and >= 3 loops.
//
// Run: copy to tests/audit_C05_1.rs, then cargo test --offline --features verif --test audit_C05_1 -- --nocapture
//
// Expected (C05: "repeated runs from the same weights and data are identical", bit-identical
// per-epoch losses and final weights): every freshly built network that is given the same weights
// and trained on the same data (same batch size, same single-thread pool) ends with exactly the same
// weight bits and the same loss bits. Oracle: bit-equality invariant between runs.
//
// Observed: most repetitions end with different final weights (last-bit differences that propagate
// over the epochs), e.g. "58 of 64 repetitions differ from the first run; 10 of 312 weights differ".
// (The count varies from process to process because it follows the random hash seeds.)
// A direct check of one sample's block gradient on 60 fresh identical networks gives 1 distinct bit
// pattern for loops = 2, 2 for loops = 3 and ~20 for loops = 5 (one per ordering of the targets).
//
// Cause: feedback::Feedback::backward (src/feedback.rs, lines ~527-559) inverts the block's
// `connect: HashMap<usize, Vec<usize>>` by iterating over the HashMap; the order of the targets in
// `connect[&0]` therefore follows the per-instance random hash seed, and the skip gradients are
// added (`gradients.last_mut().unwrap().add_inplace(&gradient)`) in that order. Floating-point
// addition is not associative, so (g + a) + b + c and (g + c) + a + b differ in the last bit.
// Network::backward sorts the corresponding vector (`targets.sort()`), Feedback::backward does not.
// Threads play no role: every run below happens in its own one-thread pool.

use neurons::tensor::{Data, Shape, Tensor};
use neurons::verif::{self, LayerParams};
use neurons::{activation::Activation, feedback, network::Network, objective, optimizer};

struct Lcg(u64);
impl Lcg {
    fn next(&mut self) -> f32 {
        self.0 = self.0.wrapping_mul(6364136223846793005).wrapping_add(1442695040888963407);
        ((self.0 >> 40) as f32 / (1u64 << 24) as f32) * 2.0 - 1.0
    }
}
fn fill(t: &mut Tensor, g: &mut Lcg) {
    match &mut t.data {
        Data::Single(v) => v.iter_mut().for_each(|x| *x = g.next() * 0.8),
        Data::Double(v) => v.iter_mut().flatten().for_each(|x| *x = g.next() * 0.8),
        _ => panic!("dense only"),
    }
}
fn bits(p: &LayerParams, out: &mut Vec<u32>) {
    for t in p.weights.iter().chain(p.bias.iter()) {
        match &t.data {
            Data::Single(v) => v.iter().for_each(|x| out.push(x.to_bits())),
            Data::Double(v) => v.iter().flatten().for_each(|x| out.push(x.to_bits())),
            _ => panic!("dense only"),
        }
    }
    p.inner.iter().for_each(|i| bits(i, out));
}

const LOOPS: usize = 5;
const BLOCK: usize = 2; // layers per repetition

fn build() -> Network {
    let mut n = Network::new(Shape::Single(5));
    n.feedback(
        vec![
            feedback::Layer::Dense(5, Activation::Tanh, true, None),
            feedback::Layer::Dense(5, Activation::Tanh, true, None),
        ],
        LOOPS,
        true,  // input-to-input skips
        false, // no output skips
        feedback::Accumulation::Mean,
    );
    n.dense(2, Activation::Linear, true, None);
    n.set_objective(objective::Objective::MSE, None);
    n.set_optimizer(optimizer::SGD::create(0.05, None));

    // The same deterministic weights for every instance (the unrolled repetitions share theirs).
    let mut g = Lcg(9);
    let mut ps = verif::params(&n);
    for p in ps.iter_mut() {
        for t in p.weights.iter_mut().chain(p.bias.iter_mut()) {
            fill(t, &mut g);
        }
        for k in 0..p.inner.len() {
            if k < BLOCK {
                let inner = &mut p.inner[k];
                for t in inner.weights.iter_mut().chain(inner.bias.iter_mut()) {
                    fill(t, &mut g);
                }
            } else {
                p.inner[k] = p.inner[k % BLOCK].clone();
            }
        }
    }
    verif::set_params(&mut n, &ps);
    n
}

fn one_run(xs: &Vec<Tensor>, ys: &Vec<Tensor>) -> (Vec<u32>, Vec<u32>) {
    let mut net = build();
    let x: Vec<&Tensor> = xs.iter().collect();
    let y: Vec<&Tensor> = ys.iter().collect();
    let (train, _, _) = net.learn(&x, &y, None, 4, 5, None);
    let mut w = Vec::new();
    verif::params(&net).iter().for_each(|p| bits(p, &mut w));
    (train.iter().map(|l| l.to_bits()).collect(), w)
}

#[test]
fn repeated_runs_from_same_weights_and_data_are_identical() {
    let mut g = Lcg(5);
    let xs: Vec<Tensor> = (0..32)
        .map(|_| Tensor::single((0..5).map(|_| g.next()).collect()))
        .collect();
    let ys: Vec<Tensor> = (0..32)
        .map(|_| Tensor::single((0..2).map(|_| g.next()).collect()))
        .collect();

    {
        let one_run = |xs: &Vec<Tensor>, ys: &Vec<Tensor>| {
            // A fresh one-thread pool per run: no parallelism at all.
            let pool = rayon::ThreadPoolBuilder::new().num_threads(1).build().unwrap();
            pool.install(|| one_run(xs, ys))
        };
        let reference = one_run(&xs, &ys);
        let total = 64;
        let mut differing = 0;
        let mut example: Option<(Vec<u32>, Vec<u32>)> = None;
        for _ in 0..total {
            let r = one_run(&xs, &ys);
            if r != reference {
                differing += 1;
                example.get_or_insert(r);
            }
        }
        if let Some((train, w)) = &example {
            let nw = w.iter().zip(reference.1.iter()).filter(|(a, b)| a != b).count();
            println!(
                "{differing} of {total} repetitions differ from the first run; e.g. train losses {:?} vs {:?}; {nw} of {} weights differ",
                train.iter().map(|b| f32::from_bits(*b)).collect::<Vec<_>>(),
                reference.0.iter().map(|b| f32::from_bits(*b)).collect::<Vec<_>>(),
                w.len()
            );
        }
        assert_eq!(differing, 0, "{differing} of {total} repetitions (same weights, same data, one thread) differ bitwise");
    }
}
