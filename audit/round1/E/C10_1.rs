// C10 — confirmed (with the caveat on the quantifier stated in C10.md).
//
// Configuration: feedback block [Dense(3->5, tanh, bias), Dense(5->3, tanh, bias)], loops = 2,
// inskips = false, outskips = true, accumulation = Mean (same for Add / Subtract / Multiply),
// default optimizer (SGD), one sample, batch 1, one epoch.
//
// Expected (C10): `learn` performs the training step and afterwards repetition 1 of the block holds
//   bit-identical weights and biases to repetition 0 (derived from the statement itself: the
//   invariant must hold "after any number of training steps").
// Observed: `learn` panics inside Feedback::backward (src/feedback.rs:556-557) with
//   assertion failed: `left == right` (left: `Single(5)`, right: `Single(3)`)
//   -- the block-output gradient (width 3) is added onto the gradient at the output of the first
//   layer of repetition 1 (hidden width 5). No training step can be taken at all.
//
// Run: cp found/C10_1.rs tests/ && cargo test --offline --features verif --test C10_1
use neurons::verif::params;
use neurons::{activation::Activation, feedback, network::Network, tensor};

fn bits(t: &tensor::Tensor) -> Vec<u32> {
    match &t.data {
        tensor::Data::Single(v) => v.iter().map(|x| x.to_bits()).collect(),
        tensor::Data::Double(v) => v.iter().flatten().map(|x| x.to_bits()).collect(),
        _ => panic!("unexpected"),
    }
}

#[test]
fn dense_block_with_wider_hidden_layer_and_output_skips_trains_and_stays_tied() {
    let mut net = Network::new(tensor::Shape::Single(3));
    net.feedback(
        vec![
            feedback::Layer::Dense(5, Activation::Tanh, true, None),
            feedback::Layer::Dense(3, Activation::Tanh, true, None),
        ],
        2,     // loops
        false, // inskips
        true,  // outskips
        feedback::Accumulation::Mean,
    );
    let x = tensor::Tensor::single(vec![0.1, 0.2, 0.3]);
    let y = tensor::Tensor::single(vec![0.3, 0.2, 0.1]);

    // The forward pass of this very block works (C11 holds for it):
    let _ = net.predict(&x);

    net.learn(&vec![&x], &vec![&y], None, 1, 1, None); // <- panics

    let inner = &params(&net)[0].inner;
    assert_eq!(inner.len(), 4);
    for j in 0..2 {
        assert_eq!(bits(&inner[j].weights[0]), bits(&inner[j + 2].weights[0]));
        assert_eq!(bits(inner[j].bias.as_ref().unwrap()), bits(inner[j + 2].bias.as_ref().unwrap()));
    }
}
