// C10 — confirmed (with the caveat on the quantifier stated in C10.md).
//
// Configuration: network input 1x3x3; feedback block [Convolution(1 filter, 3x3, stride 1, padding 1, tanh)],
// loops = 2, inskips = true, outskips = false, accumulation = Mean (same for the other three);
// followed by Dense(9 -> 2) (so the block output is flattened); default SGD, one sample, batch 1, one epoch.
// The same panic occurs for loops = 3 with outskips = true, inskips = false.
//
// Expected (C10): `learn` performs the step; afterwards the two repetitions of the convolution hold
//   bit-identical kernels (the statement: identical "after any number of training steps").
// Observed: `learn` panics inside Feedback::backward (src/feedback.rs:556-557) with
//   assertion failed: `left == right` (left: `Triple(1, 3, 3)`, right: `Single(9)`)
//   -- the flat gradient coming from the dense layer (gradients[0]) is added, un-reshaped, onto the
//   spatial gradient at the output of layer 0 when the input skip is back-propagated.
//   The same block trains fine when a convolution (no flattening) follows, or without skips.
//
// Run: cp found/C10_2.rs tests/ && cargo test --offline --features verif --test C10_2
use neurons::verif::params;
use neurons::{activation::Activation, feedback, network::Network, tensor};

fn bits(t: &tensor::Tensor) -> Vec<u32> {
    match &t.data {
        tensor::Data::Triple(v) => v.iter().flatten().flatten().map(|x| x.to_bits()).collect(),
        _ => panic!("unexpected"),
    }
}

#[test]
fn flattened_spatial_block_with_input_skips_trains_and_stays_tied() {
    let mut net = Network::new(tensor::Shape::Triple(1, 3, 3));
    net.feedback(
        vec![feedback::Layer::Convolution(1, Activation::Tanh, (3, 3), (1, 1), (1, 1), (1, 1), None)],
        2,     // loops
        true,  // inskips
        false, // outskips
        feedback::Accumulation::Mean,
    );
    net.dense(2, Activation::Sigmoid, true, None);

    let x = tensor::Tensor::triple(vec![vec![
        vec![0.1, 0.2, 0.3],
        vec![0.4, 0.5, 0.6],
        vec![0.7, 0.8, 0.9],
    ]]);
    let y = tensor::Tensor::single(vec![0.1, 0.9]);

    let _ = net.predict(&x); // forward works

    net.learn(&vec![&x], &vec![&y], None, 1, 1, None); // <- panics

    let inner = &params(&net)[0].inner;
    assert_eq!(inner.len(), 2);
    assert_eq!(bits(&inner[0].weights[0]), bits(&inner[1].weights[0]));
}
