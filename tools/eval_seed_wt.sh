#!/bin/bash
# tools/eval_seed_wt.sh <scratch-worktree> <dir containing patch.diff demo.rs notes.md> <id> [checks...]
# Like tools/eval_seed.sh, but the part that does not need /repo (the repository's suite with the change, the author's
# demonstration with and without it) runs in the author's scratch worktree, so several seeds can be verified at once;
# only the part that applies the change to /repo and runs the checks is serialised (flock). Writes the same eval.log.
ROOT="$(cd "$(dirname "${BASH_SOURCE[0]}")/.." && pwd)"
WT="$1"; SRC="$2"; ID="$3"; shift; shift; shift
OUT="${SEED_OUT_ROOT:-$ROOT/seeded}/$ID"; mkdir -p "$OUT"
cp "$SRC/patch.diff" "$OUT/patch.diff"; cp "$SRC/demo.rs" "$OUT/demo.rs"; [ -f "$SRC/notes.md" ] && cp "$SRC/notes.md" "$OUT/notes.md"
LOG="$OUT/eval.log"; [ -z "$PHASE_B_ONLY" ] && : > "$LOG"
export CARGO_NET_OFFLINE=true
if [ -z "$PHASE_B_ONLY" ]; then
res() { grep -E "^test result|error(\[|:)" | head -3 | tr '\n' ' '; }
( cd "$WT" && git checkout -q -- . && rm -rf tests && mkdir tests && cp "$OUT/demo.rs" tests/seed_demo.rs ) || exit 2
CLEAN=$(cd "$WT" && cargo test --offline --test seed_demo 2>&1 | res)
git -C "$WT" apply "$OUT/patch.diff" || { echo "patch does not apply" | tee -a "$LOG"; exit 2; }
PATCHED=$(cd "$WT" && cargo test --offline --test seed_demo 2>&1 | res)
rm -rf "$WT/tests"
SUITE=$(cd "$WT" && cargo test --offline 2>&1 | grep -E "^test result" | head -1)
echo "suite with change: $SUITE" | tee -a "$LOG"
echo "demo without change: $CLEAN" | tee -a "$LOG"
echo "demo with change:    $PATCHED" | tee -a "$LOG"
fi
[ -n "$PHASE_A_ONLY" ] && exit 0   # the /repo part is run later (PHASE_B_ONLY=1) when /repo is busy
PROPS="$@"; [ -z "$PROPS" ] && PROPS="C01 C02 C03 C04 C05 C06 C07 C08 C09 C10 C11 C12 C13 C14 C15 C16 C17 C18"
(
  flock 9
  if [ -n "$(git -C /repo status --porcelain -- src Cargo.toml tests)" ]; then echo "refusing: /repo not clean" | tee -a "$LOG"; exit 2; fi
  trap 'git -C /repo checkout -- .' EXIT
  git -C /repo apply "$OUT/patch.diff" || { echo "patch does not apply to /repo" | tee -a "$LOG"; exit 2; }
  caught=""
  for p in $PROPS; do
    out=$("$ROOT/check" $p quick 2>&1); code=$?
    if [ $code = 1 ]; then key=$(echo "$out" | grep -m1 "key:" | sed 's/^ *key: //'); echo "$p CAUGHT [$key]" | tee -a "$LOG"; caught="$caught $p"
    elif [ $code != 0 ]; then echo "$p MACHINERY exit=$code $(echo "$out" | tail -1 | cut -c1-160)" | tee -a "$LOG"; fi
  done
  echo "caught by:$caught" | tee -a "$LOG"
) 9>/tmp/verif-repo.lock
