#!/bin/bash
# tools/regress.sh — re-runs every kept property-breaking change (own mutants, seeded, beyond-bounds) against the quick
# check of its property and lists the ones that are NOT caught (expected: only the documented equivalents).
ROOT="$(cd "$(dirname "${BASH_SOURCE[0]}")/.." && pwd)"
cd "$ROOT"
miss=0; n=0
# changes that do not violate the property they were written against, or that lie outside a limit stated in DESIGN.md
# (sections 9 and 11): expected to pass
DOCUMENTED="mutants/C09-validate-restores-dense-only.patch mutants/C11-subtract-order-in-loop.patch mutants/C13-window-one-longer.patch mutants/data-dependent/C12-data/ mutants/data-dependent/C01-data/ seeded/C02-wave9/ seeded/C05-wave10/ seeded/C06-wave10/"
doc=0
run() { # patch prop label
  n=$((n+1))
  r=$(tools/try_patch.sh "$1" $2 2>&1 | tail -1)
  case "$r" in
    *"caught by: $2"*) case " $DOCUMENTED " in *" $3 "*) echo "UNEXPECTEDLY CAUGHT (documented as not violating): $3";; esac ;;
    *) case " $DOCUMENTED " in *" $3 "*) doc=$((doc+1)); echo "not caught, as documented: $3";; *) echo "NOT CAUGHT: $3 ($r)"; miss=$((miss+1));; esac ;;
  esac
}
for f in mutants/*.patch; do run "$ROOT/$f" "$(basename $f | cut -c1-3)" "$f"; done
for d in seeded/*/ mutants/beyond-bounds/*/ mutants/data-dependent/*/; do [ -f "$d/patch.diff" ] && run "$ROOT/$d/patch.diff" "$(basename $d | cut -c1-3)" "$d"; done
echo "regress: $n changes, $miss not caught, $doc documented (equivalent / left open by the statement / decided by another property / outside a stated limit)"
