#!/usr/bin/env python3
"""tools/seed_meta.py <root-dir> [needs.json]
Writes <root>/<id>/meta.json for every seed directory that has an eval.log (from tools/eval_seed.sh) but no meta.json
yet, taking the one-line 'needs_to_manifest' text from needs.json ({id: text}), and regenerates <root>/INDEX.md from
all meta.json files (the heading paragraph of an existing INDEX.md is kept). Development tool."""
import json, os, re, sys
root = sys.argv[1].rstrip('/')
needs = json.load(open(sys.argv[2])) if len(sys.argv) > 2 else {}
for d in sorted(os.listdir(root)):
    p = os.path.join(root, d)
    log = os.path.join(p, 'eval.log')
    if not os.path.isdir(p) or not os.path.exists(log) or os.path.exists(os.path.join(p, 'meta.json')):
        continue
    t = open(log).read()
    g = lambda k: (re.search(k + r"\s*(.*)", t) or [None, ''])[1].strip()
    caught = g(r"caught by:").split()
    meta = {
        "id": d, "breaks_property": d[:3],
        "needs_to_manifest": needs.get(d, ""),
        "written_by": "independent sub-agent given only the property text and a scratch worktree of /repo",
        "verified_here": {
            "repo_suite_with_change": g("suite with change:"),
            "demo_without_change": g("demo without change:"),
            "demo_with_change": g("demo with change:"),
            "commands": [f"git -C /repo apply {os.path.basename(root)}/{d}/patch.diff", "cd /repo && cargo test --offline",
                         f"cp {os.path.basename(root)}/{d}/demo.rs /repo/tests/seed_demo.rs && cargo test --offline --features verif --test seed_demo (with and without the change)",
                         "./check Cnn quick for all 18 properties with the change applied", "git -C /repo checkout -- . && rm -rf /repo/tests"],
        },
        "caught_by_initially": caught,
        "caught_after_strengthening": "",
    }
    json.dump(meta, open(os.path.join(p, 'meta.json'), 'w'), indent=1)
    print("meta:", d, caught)
idx = os.path.join(root, 'INDEX.md')
head = ""
if os.path.exists(idx):
    s = open(idx).read()
    head = s[:s.index("| id |")] if "| id |" in s else s
rows = ["| id | property | what it needs to manifest | caught by (first run, all 18 quick checks) | after strengthening |", "|---|---|---|---|---|"]
for d in sorted(os.listdir(root)):
    mp = os.path.join(root, d, 'meta.json')
    if not os.path.exists(mp):
        continue
    m = json.load(open(mp))
    c = " ".join(m.get("caught_by_initially") or []) or "— (missed)"
    rows.append(f"| {m['id']} | {m['breaks_property']} | {m.get('needs_to_manifest','')} | {c} | {m.get('caught_after_strengthening','')} |")
open(idx, 'w').write(head + "\n".join(rows) + "\n")
print("index:", len(rows) - 2, "entries")
