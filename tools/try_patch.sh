#!/bin/bash
# tools/try_patch.sh [-t] [-T tier] <patch.diff> [Cnn ...]
# Applies a patch to /repo's working tree, optionally (-t) runs the repository's own tests, runs the given
# checks (default: all 18), reverts the working tree again. Prints one line per check: CAUGHT / missed.
# Development tool; not part of any registered command.
ROOT="$(cd "$(dirname "${BASH_SOURCE[0]}")/.." && pwd)"
TESTS=0; TIER=quick
while getopts "tT:" o; do case $o in t) TESTS=1;; T) TIER=$OPTARG;; esac; done; shift $((OPTIND-1))
PATCH="$1"; shift
PROPS="$@"; [ -z "$PROPS" ] && PROPS="C01 C02 C03 C04 C05 C06 C07 C08 C09 C10 C11 C12 C13 C14 C15 C16 C17 C18"
if [ -n "$(git -C /repo status --porcelain -- src Cargo.toml)" ]; then echo "refusing: /repo working tree is not clean"; exit 2; fi
git -C /repo apply "$PATCH" || { echo "patch does not apply"; exit 2; }
trap 'git -C /repo checkout -- . ' EXIT
if [ $TESTS = 1 ]; then
  r=$(cd /repo && cargo test --offline 2>&1 | grep -E "^test result" | head -1)
  echo "repo tests: $r"
fi
caught=""
for p in $PROPS; do
  out=$("$ROOT/check" $p $TIER 2>&1); code=$?
  if [ $code = 1 ]; then
    key=$(echo "$out" | grep -m1 "key:" | sed 's/^ *key: //')
    echo "$p CAUGHT  [$key]"; caught="$caught $p"
  elif [ $code = 0 ]; then echo "$p missed"
  else echo "$p MACHINERY exit=$code: $(echo "$out" | tail -2 | tr '\n' ' ' | cut -c1-200)"; fi
done
echo "caught by:$caught"
