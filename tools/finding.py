#!/usr/bin/env python3
"""tools/finding.py fixed|open <property> <key> <commit|-> <what...>  — append an entry to known_findings.json"""
import json, sys, os
ROOT = os.path.dirname(os.path.dirname(os.path.abspath(__file__)))
kind, prop, key, commit = sys.argv[1:5]
what = " ".join(sys.argv[5:])
p = os.path.join(ROOT, 'known_findings.json'); j = json.load(open(p))
if kind == 'fixed':
    j['fixed'].append({"property": prop, "key": key, "commit": commit, "what": f"fixed: property={prop} {commit} {what}"})
else:
    j['open'].append({"property": prop, "key": key, "what": what})
json.dump(j, open(p, 'w'), indent=1)
