#!/bin/bash
# tools/refresh_evidence.sh [thorough]
# Re-runs the registered checks on the UNCHANGED /repo tree so that the committed evidence files come from /verif run
# against /repo itself (development runs against mutated trees overwrite them). With `thorough`, runs the thorough tier
# first and snapshots its evidence into evidence/thorough/, then the quick tier (so evidence/Cnn.json is the quick run).
# Refuses to run when /repo's sources differ from HEAD. Then regenerates MANIFEST.json and Appendix A of DESIGN.md.
ROOT="$(cd "$(dirname "${BASH_SOURCE[0]}")/.." && pwd)"
cd "$ROOT"
if [ -n "$(git -C /repo status --porcelain -- src Cargo.toml tests)" ]; then echo "refusing: /repo not clean"; exit 2; fi
PROPS="C01 C02 C03 C04 C05 C06 C07 C08 C09 C10 C11 C12 C13 C14 C15 C16 C17 C18"
bad=0
if [ "$1" = thorough ]; then
  mkdir -p evidence/thorough
  for p in $PROPS; do
    out=$(./check $p thorough 2>&1); code=$?
    echo "$out" | grep -E "^$p thorough|^VIOLATION|^KNOWN-FINDING" | cut -c1-220
    if [ $code != 0 ]; then echo "!! $p thorough exit $code"; bad=1; else cp evidence/$p.json evidence/thorough/$p.json; fi
  done
fi
for p in $PROPS; do
  out=$(./check $p quick 2>&1); code=$?
  echo "$out" | grep -E "^$p quick|^VIOLATION|^KNOWN-FINDING" | cut -c1-220
  if [ $code != 0 ]; then echo "!! $p quick exit $code"; bad=1; fi
done
python3 tools/gen_manifest.py && python3 tools/appendix.py
exit $bad
