#!/usr/bin/env python3
"""Regenerates /verif/MANIFEST.json from the table below (run after adding a check)."""
import json, os, sys
ROOT = os.path.dirname(os.path.dirname(os.path.abspath(__file__)))
props = [json.loads(l) for l in open(os.path.join(ROOT, 'properties.jsonl'))]

# id -> (technique, level text, level note, design section, has_thorough)
CHECKS = {
 'C03': ("explicit-state exploration of optimizer update histories on the real optimizer (history tree, bit-exact rank/slot differentials, reference recurrences)",
         "Every gradient sequence over an 11-value alphabet up to the depth bound x every non-decreasing step-number sequence x 32 hyper-parameter settings x 3 tensor ranks is executed on the real create->validate->update API; each reached parameter is compared with the documented recurrence, across ranks (bit-exact) and across slot interleavings (bit-exact); 2048-step run-length histories for slow numeric drift.",
         "Trusts the 5 scalar reference recurrences (refmodel/optim.rs) and IEEE f32/f64 of the host; gradients outside the alphabet and depth > bound are not covered except through the run-length histories.", "4 C03", True),
 'C06': ("exhaustive enumeration of (prediction,target) tuples over boundary-including alphabets against the documented formulas, rank/clamp differentials, dual-number derivative",
         "All tuples of up to 3 (prediction,target) pairs over the per-objective in-domain alphabets (including exact 0 and 1), both ranks, all clamps: loss and gradient against the documented formulas, clamped = clamp(unclamped) bit-exact, 3-D = vector bit-exact, gradient = derivative of the reference loss for AE/MSE/BCE/KL.",
         "Trusts the 7 reference formulas (refmodel/objective.rs); values outside the alphabets are covered only through the structural (rank/clamp) differentials.", "4 C06", False),
 'C07': ("exhaustive sweep of the float bit-pattern space through the public activation API against an f64 reference (all 2^32 patterns in the thorough tier)",
         "Quick: structured cover of every exponent/sign/leading-mantissa pattern plus threshold neighbourhoods; thorough: every one of the 2^32 bit patterns, forward and backward, vector and CxHxW (bit-identical); soft-max over all vectors of length <= 4 of a 14-value alphabet incl. +-MAX with exact-shift invariance.",
         "Trusts the host libm in f64 as reference; tolerances derived from the f32 transcription of the documented formula.", "4 C07", True),
 'C14': ("exhaustive enumeration of all source/target shape pairs within the bound on the real Tensor API",
         "All ordered pairs of 3-D shapes with extents <= 4 (plus elongated ones) and all vector lengths <= 64 against every shape: sequence preserved, recorded shape = nesting, equal counts accepted, unequal refused, round trip identity.",
         "Shapes beyond the bound are not explored; contents are the pairwise-distinct sequence 0,1,2,...", "4 C14", False),
 'C15': ("exhaustive enumeration of ops x ranks x shapes x all operand pairs over a boundary alphabet, and of all mismatched shape pairs, on the real Tensor API",
         "Every op on every shape with extents <= 3 of rank 1-4 (and nested lists) with valuations that cover all 121 ordered operand pairs per shape, bit-exact against the single IEEE operation; all 14k ordered pairs of different shapes must be refused.",
         "Trusts the host's IEEE-754 f32 arithmetic as the oracle.", "4 C15", False),
 'C18': ("exhaustive state-space sweep: every one of the 2^31-2 LCG states through the real generate/shuffle, plus seed list, call interleavings and Tensor::random shapes",
         "Every generator state is visited exactly once per interval/length (bijection seed -> first state), so range and shuffle-safety hold for all states, not a sample; bands at both ends of the state range get an interval grid with non-dyadic bounds; 64-bit seeds incl. u64::MAX; purity over all 70 interleavings of 4+4 calls.",
         "Intervals are a finite menu (complete state space x finite interval set); min <= max assumed as the statement does.", "4 C18", True),
}

def entry(pid):
    tech, text, note, ref, thorough = CHECKS[pid]
    e = {
        "property_id": pid,
        "quick_cmd": f"./check {pid} quick",
        "evidence_file": f"/verif/evidence/{pid}.json",
        "replay_cmd_template": f"./check {pid} --replay {{path}}",
        "engine": "nv-sched" if pid == 'C05' else "nv",
        "level_claimed": {"category": "model_checking", "text": text, "design_ref": f"DESIGN.md section {ref}"},
        "level_note": note,
        "technique": tech,
    }
    if thorough:
        e["thorough_cmd"] = f"./check {pid} thorough"
    return e

head = os.popen("git -C /repo log --format=%h --grep='^verif hooks' -n 5").read().split()
manifest = {
 "version": 1,
 "setup_cmd": "./setup.sh",
 "hooks": {
   "guard": "cargo feature `verif` of the neurons crate (src/verif.rs, Network::verif_backward)",
   "enable": "the harness workspaces depend on neurons = { path = \"/repo\", features = [\"verif\"] }; every ./check run starts with cargo build --release --offline, which recompiles neurons from /repo's working tree",
   "baseline_off_cmd": "cd /repo && cargo test --workspace --no-fail-fast --offline",
   "source_commits": head,
   "add_only": True,
 },
 "engines": [
   {"name": "nv", "path": "/verif/harness", "serves_properties": sorted(p for p in CHECKS if p != 'C05'),
    "kind_free_text": "hand-rolled bounded-exhaustive explorers (lattice, deviation-bounded, history BFS/tree) executing the real library; reference models in harness/src/refmodel"},
 ],
 "checks": [entry(p) for p in sorted(CHECKS)],
 "notes": "All checks explore the real library code (rebuilt from /repo's working tree). Known findings: /verif/known_findings.json. See DESIGN.md.",
 "not_applicable": [{"property_id": p['id'], "reason": "check not built yet (work in progress, see DESIGN.md section 4); will be claimed once its check exists"} for p in props if p['id'] not in CHECKS],
}
if 'C05' in CHECKS:
    manifest["engines"].append({"name": "nv-sched", "path": "/verif/sched", "serves_properties": ["C05"],
      "kind_free_text": "choice-point DFS over a scheduler model of rayon (crate patched in by [patch.crates-io]) running the unchanged library inside it; conformance against the real rayon pool"})
json.dump(manifest, open(os.path.join(ROOT, 'MANIFEST.json'), 'w'), indent=1)
print("MANIFEST.json:", len(manifest["checks"]), "checks,", len(manifest["not_applicable"]), "not yet claimed")
