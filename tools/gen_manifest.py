#!/usr/bin/env python3
"""Regenerates /verif/MANIFEST.json from the table below (run after adding a check)."""
import json, os, sys
ROOT = os.path.dirname(os.path.dirname(os.path.abspath(__file__)))
props = [json.loads(l) for l in open(os.path.join(ROOT, 'properties.jsonl'))]

# id -> (technique, level text, level note, design section, has_thorough)
CHECKS = {
 'C01': ("bounded-exhaustive lattice / layer-sequence enumeration of the real backward pass against exact dual-number derivatives of a reference model",
         "Quick: ring of <= 2 deviations of the single-layer lattice, dense layers, every layer sequence of <= 2 tokens (one deviation) over 5 input shapes under 7 objectives, soft-max heads; thorough: the full lattice (1.3e5 configurations incl. every stride/dilation/padding combination, rectangular kernels and planes) and sequences of <= 3 tokens with <= 2 deviations. Weight, bias, kernel and input gradients, through the layers' public backward(), Network::backward and one learn() step; every network is also built a second way (placeholder activations + set_activation); planes from 1x1 to 6x7; a large-value ring and heavy layers (>= 64k multiply-adds); soft-max heads of width 2-5 and soft-max output layers that are (de)convolutions under cross-entropy; max-pool windows over extreme finite values (f32::MIN .. f32::MAX) with an exact routing oracle; inputs with exact zeros; the gradient check repeated on the TRAINED network.",
         "Real-valued data is a generic kink-free valuation per configuration (not enumerable); reference forward is bound to the library by C02; tolerance 2e-4 relative to the tensor's largest true derivative.", "4 C01", True),
 'C02': ("exhaustive enumeration of the single-layer configuration lattice and of bounded layer sequences on the real forward pass against a definitional reference, flat-vs-CxHxW differential",
         "The FULL lattice (kernel 1-3 x stride 1-2/3 x padding 0-2 x dilation 1-2 x channels x filters x 16 planes) for convolution, deconvolution and max-pool on pairwise-distinct integer data in both input representations, the deviation ring x 5 activations and x further kinds of data ({-1,0,1} ties/zeros, generic floats, subnormal numbers), a large-value ring (kernels 5/7, strides 3/4, 8 channels, planes to 28x32), all dense n,m <= 4 and wide dense layers, and every layer sequence of <= 3 tokens (a quarter each also on tiny, {-1,0,1}, generic and subnormal data); pre- and post-activation of every layer compared.",
         "Reference operators in refmodel/layers.rs are trusted; data values are fixed valuations per configuration (six kinds); tolerance relative to the scale of the data that flowed in, plus a conditioning-derived allowance.", "4 C02", True),
 'C04': ("exhaustive enumeration of all (N,B,E) up to the bound x networks x optimizers against a reference trainer replaying per-sample library passes",
         "All 126 (N,B,E) combinations incl. B=1, B not dividing N, B>N, plus groups around/above the internal chunk size 64, pairs of consecutive learn() calls, data sets of identical samples and of equal inputs with different targets, batch sizes up to usize::MAX, groups with an exactly zero loss, x 4 networks (one-hot dense, MLP, CNN, feedback block) x 4 optimizers x 2 objectives; final weights and per-epoch losses of learn() vs ordered mini-batch gradient-sum descent with one step per group and step number = epoch (bit-exact on every run so far).",
         "Per-sample gradients and the optimizer step come from the library itself (decided by C01/C03); N <= 6, E <= 3.", "4 C04", False),
 'C08': ("explicit-state exploration of the network builder (layer sequences as states) plus exhaustive sweep of all flat sizes up to the bound",
         "Every layer sequence of <= 3 tokens (<= 1 deviation; thorough: 2, and depth 4): announced vs formula shapes, produced vs announced shapes in a real forward pass, gradient vs parameter shapes in a real backward pass; every flat size 1..4096 (65536) in front of each spatial layer kind (<= 1024 also in front of a feedback block starting with one), and sizes r^2+-2 for roots up to 65536 through the layers' constructors: accepted iff perfect square, and read as 1 x r x r in row-major order.",
         "Only configurations whose effective kernel fits the padded input are explored, as the statement quantifies.", "4 C08", True),
 'C09': ("bounded-exhaustive enumeration of architectures x all dropout subsets with bit-exact differential oracles (learn vs validate, network vs dropout-free twin)",
         "Every layer sequence of <= 3 tokens ending in a dense layer x every subset (size <= 2; thorough: all, depth 4) of droppable layers incl. layers inside feedback blocks x 1-3 epochs x with/without validation data; reported validation metrics, predictions and training flags compared with the dropout-free twin, also after the early-stopping exit, after call sequences validate/learn/learn/learn/validate, with 300 validation samples, on data the network already fits exactly (training loss exactly 0) and on data that makes training diverge at once.",
         "Dropout rate 0.5 with the library's fixed-seed mask; 3 training samples.", "4 C09", True),
 'C10': ("explicit-state exploration of training histories (sequences of learn() calls) with the weight-tying invariant evaluated in every state",
         "220 block configurations (layer lists, bias, loops 1-3, 4 couplings, position) x the block's input/output skip flags x 6 optimizers x all action sequences of length <= 2 (thorough 3) over 4 learn() actions (one with exactly zero gradients); a coupled value that overflows while loss and gradients stay finite; blocks mixing bias-free and bias-carrying layers; in every state all unrolled copies bit-identical and the reported parameter count counts shared parameters once.",
         "History depth bound; data fixed per configuration.", "4 C10", True),
 'C11': ("exhaustive enumeration of block lists x loops x skip flags x accumulations on the real forward pass against a reference interpreter",
         "12 block settings x 3 activations x loops 1-4 (1-9 for three settings) x 4 skip-flag combinations x 5 accumulations x dense-after on/off x 2 exact valuations + the blank sample, incl. dense -> block of spatial layers and max-pool inside a block; blocks near a fixed point of their repeated map (8-22 repetitions, iterates 1 ulp apart); identity blocks on inputs near +-3e38; a block without skips is bit-equal to the written-out plain network.",
         "Reference interpreter in refmodel/net.rs is trusted; L <= 4 complete, L <= 9 / 22 for slices.", "4 C11", False),
 'C12': ("exhaustive enumeration of data-set sizes around the chunk size x heads x bodies x objectives x tolerances against per-element predict",
         "12 sizes (0..200, around 64 and 128; 256..1025 for a slice) x 4 heads (+ a one-unit soft-max) x 6 bodies (incl. skip and loop connections, and skips leaving a looped range) x 7 objectives x 5 tolerances (one negative): predict_batch element-wise bit-equal to predict in order, predict = last activation, validate = mean loss and accuracy by the three rules, repeated inside pools of 1 and 2 workers; soft-max heads with tied maxima under an interval oracle (the statement leaves the tie-break open).",
         "Per-sample loss values come from the library's objective (C06 decides them).", "4 C12", False),
 'C13': ("exhaustive enumeration of all validation-loss trajectories over {rise,fall,equal} x tolerances, driving the real learn() black-box",
         "All 3^(E-1) trajectories for E <= 6 (thorough 8) x tolerances 1-5 are realised exactly by the unmodified learn() (steering by one-hot AE training on a linear unit); history lengths and the stop predicate checked on what learn() returned; every commanded pattern is re-derived from the returned vector; tolerances 6-20 on near-monotone trajectories; epoch budgets up to i32::MAX on strictly rising trajectories (watchdog); runs after an earlier learn() call on the same network; trajectories starting at a loss of exactly 0; the validation accuracy steered to a new best at the stopping epoch; recorded means that repeat while their sum rises; a third of the trajectories at loss 2^-20 (steps 2^-27) and a third at loss 2^20 (steps of one ulp); print frequencies varied.",
         "Stop rule read as the window of the last T recorded losses being strictly increasing.", "4 C13", True),
 'C16': ("exhaustive enumeration of networks x index pairs x accumulations and of all ordered pairs of connect calls, forward vs reference interpreter and backward vs dual-number derivative",
         "All sequences of depth 2-3 (thorough 4) over 10 layer types (incl. a max-pool and a block of spatial layers, as source and as target, and layers that change the arrangement 1x2x2 <-> 4x1x1; index pairs with equal element counts) from a flat and a spatial input x every a <= b x 5 accumulations; every ordered pair of connect calls (acceptance rules, both connections visible), every first connection followed by a call with reversed indices, three connections on a 5-layer network; Network::backward with additive skips vs the derivative of the reference function.",
         "Element count 4; at most three connections.", "4 C16", True),
 'C17': ("exhaustive enumeration of ranges x iterations x accumulations x input skips against a reference interpreter and an unrolled-network differential",
         "6 base networks x every shape-matching range x k 1-3 (4-9 for two ranges each) x 5 accumulations x input skips x 2 valuations, pairs of disjoint ranges in both registration orders (one or both with input skips) and of overlapping ranges (two readings); loops near a fixed point of the repeated map (8-22 iterations, iterates 1 ulp apart, exact arithmetic); overwrite loops bit-equal to the plain unrolled network.",
         "k <= 3 complete; k <= 9 / 22 for slices.", "4 C17", False),
 'C03': ("explicit-state exploration of optimizer update histories on the real optimizer (history tree, bit-exact rank/slot differentials, reference recurrences)",
         "Every gradient sequence over an 11-value alphabet up to the depth bound x every non-decreasing step-number sequence x 45 hyper-parameter settings (32 around the defaults, 13 away from them incl. epsilon 0.125 and 1e-12, momentum 0, beta1 = 1/2), re-validation differential (validated once / twice / three times) x 3 tensor ranks is executed on the real create->validate->update API; each reached parameter is compared with the documented recurrence, across ranks (bit-exact) and across slot interleavings (bit-exact); 2048-step run-length histories for slow numeric drift.",
         "Trusts the 5 scalar reference recurrences (refmodel/optim.rs) and IEEE f32/f64 of the host; gradients outside the alphabet and depth > bound are not covered except through the run-length histories.", "4 C03", True),
 'C05': ("stateless model checking of schedules: choice-point DFS over a scheduler model of rayon (thread counts x steal patterns x leaf interleavings, deviation-bounded by regions) running the unchanged library, bound to real rayon by result equality and partition inclusion",
         "The unchanged library is compiled against a model of rayon 1.10's adaptive splitter and work stealing; every schedule with <= 1 (thorough 2) deviating parallel regions per run is executed for pool sizes 1,2,3,4,8 (16,64) on a driver with every layer kind, batch sizes 2/3/5 (17 and 32 with a choice cap), 65/130 (321/641) evaluation inputs, a 96->70->3 dense network, a feedback block with input skips, a network whose skip connections share a source and a conv(2)->conv(6)->dense network; losses, metrics, final weights and predict_batch outputs must be bit-identical to the canonical run, which itself must reproduce its bits over 96 (1024) freshly built instances, each under its own hash salt: through the salted-hasher hook the iteration orders of the maps inside feedback blocks are an enumerated choice (all 24 orders of a 4-key map, 62 / all 120 of a 5-key map); for the two std maps of Network the instances are a sample of hash seeds, listed with a scan of every HashMap iteration in src/. The model is validated against the real pool: identical results for 5-7 pool sizes in two calling contexts, and every leaf partition observed under real rayon is one the model generates.",
         "Leaf granularity (sound without interior mutability: source scan recorded in the evidence); flat_map inner iterators sequential; memory-ordering effects inside rayon are outside the model.", "4 C05", True),
 'C06': ("exhaustive enumeration of (prediction,target) tuples over boundary-including alphabets against the documented formulas, rank/clamp differentials, dual-number derivative",
         "All tuples of up to 3 (prediction,target) pairs over the per-objective in-domain alphabets (including exact 0 and 1; near-equal values, +-0 and +-1e-8 in tuples of <= 2), both ranks, all clamps incl. one-sided and unbounded: loss and gradient against the documented formulas, clamped = clamp(unclamped) bit-exact, 3-D = vector bit-exact, gradient = derivative of the reference loss for AE/MSE/BCE/KL.",
         "Trusts the 7 reference formulas (refmodel/objective.rs); values outside the alphabets are covered only through the structural (rank/clamp) differentials.", "4 C06", False),
 'C07': ("exhaustive sweep of the float bit-pattern space through the public activation API against an f64 reference (all 2^32 patterns in the thorough tier)",
         "Quick: structured cover of every exponent/sign/leading-mantissa pattern plus threshold neighbourhoods; thorough: every one of the 2^32 bit patterns, forward and backward, vector and CxHxW (bit-identical); soft-max over all vectors of length <= 4 of a 14-value alphabet incl. +-MAX with exact-shift invariance.",
         "Trusts the host libm in f64 as reference; tolerances derived from the f32 transcription of the documented formula.", "4 C07", True),
 'C14': ("exhaustive enumeration of all source/target shape pairs within the bound on the real Tensor API",
         "All ordered pairs of 3-D shapes with extents <= 4 (plus elongated ones and seven shapes of 1024-3072 elements) and all vector lengths <= 64 against every shape, each with three kinds of contents (0,1,2,..; zeros and subnormals only; special values incl. -0, inf, NaN) compared as bit patterns: sequence preserved, recorded shape = nesting, equal counts accepted, unequal refused (reshape and get_triple; also targets with an extent of 0), round trip identity.",
         "Shapes beyond the bound are not explored.", "4 C14", False),
 'C15': ("exhaustive enumeration of ops x ranks x shapes x all operand pairs over a boundary alphabet, and of all mismatched shape pairs, on the real Tensor API",
         "Every op on every shape with extents <= 3 of rank 1-4 (and nested lists) with valuations that cover all 169 ordered operand pairs per shape plus operands entirely within 1e-5 of 1 or 0, and means of operands near +-f32::MAX, bit-exact against the single IEEE operation; the empty vector against every shape; all 14k ordered pairs of different shapes must be refused; product/dot/transpose, hadamard3d/pad3d, clamp; large tensors (1000, 40x40, 3x3x17x2).",
         "Trusts the host's IEEE-754 f32 arithmetic as the oracle.", "4 C15", False),
 'C18': ("exhaustive state-space sweep: every one of the 2^31-2 LCG states through the real generate/shuffle, plus seed list, call interleavings and Tensor::random shapes",
         "Every generator state is visited exactly once per interval/length (bijection seed -> first state), so range and shuffle-safety hold for all states, not a sample; bands at both ends of the state range get an interval grid with non-dyadic bounds; degenerate, subnormal and wider-than-f32::MAX intervals on the seed list, the extreme states and a stride cover; shuffle lengths to 65537 (2^24+4 from the extreme states) and arbitrary contents; 64-bit seeds incl. u64::MAX; purity over all 70 interleavings of 4+4 calls.",
         "Intervals are a finite menu (complete state space x finite interval set); min <= max assumed as the statement does.", "4 C18", True),
}

def entry(pid):
    tech, text, note, ref, thorough = CHECKS[pid]
    e = {
        "property_id": pid,
        "quick_cmd": f"./check {pid} quick",
        "evidence_file": f"/verif/evidence/{pid}.json",
        "replay_cmd_template": f"./check {pid} --replay {{path}}",
        "engine": "nv-sched" if pid == 'C05' else "nv",
        "level_claimed": {"category": "model_checking", "text": text, "design_ref": f"DESIGN.md section {ref}"},
        "level_note": note,
        "technique": tech,
    }
    if thorough:
        e["thorough_cmd"] = f"./check {pid} thorough"
    return e

head = os.popen("git -C /repo log --format=%h --grep='^verif hook' -n 5").read().split()
manifest = {
 "version": 1,
 "setup_cmd": "./setup.sh",
 "hooks": {
   "guard": "cargo feature `verif` of the neurons crate (src/verif.rs: parameter / shape / flag accessors, backward wrapper, salted hasher for the maps of feedback blocks; Network::verif_backward; the cfg-switched HashMap import in src/feedback.rs)",
   "enable": "the harness workspaces depend on neurons = { path = \"/repo\", features = [\"verif\"] }; every ./check run starts with cargo build --release --offline, which recompiles neurons from /repo's working tree",
   "baseline_off_cmd": "cd /repo && cargo test --workspace --no-fail-fast --offline",
   "source_commits": head,
   "add_only": True,
 },
 "engines": [
   {"name": "nv", "path": "/verif/harness", "serves_properties": sorted(p for p in CHECKS if p != 'C05'),
    "kind_free_text": "hand-rolled bounded-exhaustive explorers (lattice, deviation-bounded, history BFS/tree) executing the real library; reference models in harness/src/refmodel"},
 ],
 "checks": [entry(p) for p in sorted(CHECKS)],
 "notes": "All checks explore the real library code (rebuilt from /repo's working tree). Known findings: /verif/known_findings.json. See DESIGN.md.",
 "not_applicable": [{"property_id": p['id'], "reason": "check not built yet (work in progress, see DESIGN.md section 4); will be claimed once its check exists"} for p in props if p['id'] not in CHECKS],
}
if 'C05' in CHECKS:
    manifest["engines"].append({"name": "nv-sched", "path": "/verif/sched", "serves_properties": ["C05"],
      "kind_free_text": "choice-point DFS over a scheduler model of rayon (crate patched in by [patch.crates-io]) running the unchanged library inside it; conformance against the real rayon pool"})
json.dump(manifest, open(os.path.join(ROOT, 'MANIFEST.json'), 'w'), indent=1)
print("MANIFEST.json:", len(manifest["checks"]), "checks,", len(manifest["not_applicable"]), "not yet claimed")
