#!/bin/bash
# tools/coverage.sh [tier]   (development tool, not a registered command)
# Which lines of /repo/src do the checks execute? Builds the harness (and the C05 scheduler binary) with
# -C instrument-coverage on the nightly toolchain (its llvm-tools match), runs every check of the given tier
# (default quick) on the unchanged tree, merges the profiles and writes coverage/SUMMARY.txt (per file) and
# coverage/UNCOVERED.txt (uncovered line ranges of src/*.rs outside #[cfg(test)] modules).
# Scratch build output goes to /tmp/nv-cov and is removed at the end.
ROOT="$(cd "$(dirname "${BASH_SOURCE[0]}")/.." && pwd)"
TIER="${1:-quick}"
if [ -n "$(git -C /repo status --porcelain -- src Cargo.toml tests)" ]; then echo "refusing: /repo not clean"; exit 2; fi
T=/tmp/nv-cov; rm -rf $T; mkdir -p $T/prof "$ROOT/coverage"
BIN=$(dirname $(rustup which --toolchain nightly rustc))/../lib/rustlib/x86_64-unknown-linux-gnu/bin
export CARGO_NET_OFFLINE=true RUSTFLAGS="-C instrument-coverage" VERIF_ROOT="$T/root"
mkdir -p $T/root && cp "$ROOT/known_findings.json" $T/root/ && mkdir -p $T/root/evidence $T/root/replays $T/root/target
(cd "$ROOT/harness" && CARGO_TARGET_DIR=$T/h cargo +nightly build --release --offline 2>&1 | tail -2) || exit 2
(cd "$ROOT/sched" && CARGO_TARGET_DIR=$T/s cargo +nightly build --release --offline 2>&1 | tail -2) || exit 2
for p in ${COV_PROPS:-C01 C02 C03 C04 C06 C07 C08 C09 C10 C11 C12 C13 C14 C15 C16 C17}; do  # C18 (2^31 states) takes 25 min instrumented: add it explicitly
  LLVM_PROFILE_FILE="$T/prof/$p-%p-%m.profraw" $T/h/release/nv $p $TIER 2>&1 | grep -E "^$p " | cut -c1-160
done
if [ -z "${COV_SKIP_C05:-}" ]; then
LLVM_PROFILE_FILE="$T/prof/C05c-%p-%m.profraw" $T/h/release/nv C05conf $TIER $T/root/target/c05-conf.json 2>&1 | tail -1 | cut -c1-160
LLVM_PROFILE_FILE="$T/prof/C05-%p-%m.profraw" $T/s/release/nv-sched $TIER $T/root/target/c05-conf.json 2>&1 | grep -E "^C05 " | cut -c1-160
fi
$BIN/llvm-profdata merge -sparse $T/prof/*.profraw -o $T/all.profdata || exit 2
$BIN/llvm-cov report -instr-profile=$T/all.profdata $T/h/release/nv -object $T/s/release/nv-sched /repo/src 2>$T/cov.err | cut -c1-175 > "$ROOT/coverage/SUMMARY.txt"
$BIN/llvm-cov export -format=lcov -instr-profile=$T/all.profdata $T/h/release/nv -object $T/s/release/nv-sched /repo/src 2>>$T/cov.err > $T/all.lcov; head -5 $T/cov.err
python3 - "$T/all.lcov" "$ROOT/coverage/UNCOVERED.txt" <<'EOF'
import sys, re, collections
cov = collections.defaultdict(dict)
f = None
for line in open(sys.argv[1]):
    line = line.strip()
    if line.startswith('SF:'): f = line[3:]
    elif line.startswith('DA:') and f:
        n, c = line[3:].split(',')[:2]
        cov[f][int(n)] = max(cov[f].get(int(n), 0), int(c))
out = []
for f in sorted(cov):
    if '/repo/src/' not in f: continue
    src = open(f).read().split('\n')
    # start of the unit-test module
    test_start = next((i + 1 for i, l in enumerate(src) if l.strip() == '#[cfg(test)]'), len(src) + 1)
    miss = [n for n, c in sorted(cov[f].items()) if c == 0 and n < test_start]
    ranges = []
    for n in miss:
        if ranges and n <= ranges[-1][1] + 1: ranges[-1][1] = n
        else: ranges.append([n, n])
    total = len([n for n in cov[f] if n < test_start])
    out.append(f"{f}: {len(miss)} of {total} instrumented lines not executed")
    for a, b in ranges:
        out.append(f"  {a}-{b}: {src[a-1].strip()[:110]}")
open(sys.argv[2], 'w').write("\n".join(out) + "\n")
print("\n".join(l for l in out if not l.startswith('  ')))
EOF
[ -z "${COV_KEEP:-}" ] && rm -rf $T
