#!/bin/bash
# tools/eval_seed.sh <seed-dir containing patch.diff demo.rs notes.md> <id> [checks...]
# Re-verifies an independently written breaking change against /repo and records which checks catch it.
# 1. /repo tests with the change; 2. its demonstration with and without the change; 3. all quick checks with it.
ROOT="$(cd "$(dirname "${BASH_SOURCE[0]}")/.." && pwd)"
SRC="$1"; ID="$2"; shift; shift
OUT="${SEED_OUT_ROOT:-$ROOT/seeded}/$ID"; mkdir -p "$OUT"
cp "$SRC/patch.diff" "$OUT/patch.diff"; cp "$SRC/demo.rs" "$OUT/demo.rs"; [ -f "$SRC/notes.md" ] && cp "$SRC/notes.md" "$OUT/notes.md"
if [ -n "$(git -C /repo status --porcelain -- src Cargo.toml tests)" ]; then echo "refusing: /repo not clean"; exit 2; fi
cleanup() { git -C /repo checkout -- . ; rm -rf /repo/tests; }
trap cleanup EXIT
LOG="$OUT/eval.log"; : > "$LOG"
mkdir -p /repo/tests && cp "$OUT/demo.rs" /repo/tests/seed_demo.rs
( cd /repo && cargo test --offline --features verif --test seed_demo 2>&1 | grep -E "^test result|error(\[|:)" | head -3 ) > "$OUT/.demo_clean" 2>&1
git -C /repo apply "$OUT/patch.diff" || { echo "patch does not apply" | tee -a "$LOG"; exit 2; }
( cd /repo && cargo test --offline --features verif --test seed_demo 2>&1 | grep -E "^test result|error(\[|:)" | head -3 ) > "$OUT/.demo_patched" 2>&1
rm -rf /repo/tests
SUITE=$(cd /repo && cargo test --offline 2>&1 | grep -E "^test result" | head -1)
echo "suite with change: $SUITE" | tee -a "$LOG"
echo "demo without change: $(cat $OUT/.demo_clean | tr '\n' ' ')" | tee -a "$LOG"
echo "demo with change:    $(cat $OUT/.demo_patched | tr '\n' ' ')" | tee -a "$LOG"
rm -f "$OUT/.demo_clean" "$OUT/.demo_patched"
PROPS="$@"; [ -z "$PROPS" ] && PROPS="C01 C02 C03 C04 C05 C06 C07 C08 C09 C10 C11 C12 C13 C14 C15 C16 C17 C18"
caught=""
for p in $PROPS; do
  out=$("$ROOT/check" $p quick 2>&1); code=$?
  if [ $code = 1 ]; then key=$(echo "$out" | grep -m1 "key:" | sed 's/^ *key: //'); echo "$p CAUGHT [$key]" | tee -a "$LOG"; caught="$caught $p"
  elif [ $code != 0 ]; then echo "$p MACHINERY exit=$code $(echo "$out" | tail -1 | cut -c1-160)" | tee -a "$LOG"; fi
done
echo "caught by:$caught" | tee -a "$LOG"
