//! C05 driver, compiled twice: against the scheduler model (sched/) and against the real rayon
//! (harness/, conformance). Closed, small, forced to collide: a network with every layer kind,
//! batch sizes > 1, more evaluation inputs than one parallel chunk; data are generic non-dyadic
//! floats so that any re-association of a floating-point sum changes low bits.
use neurons::activation::Activation;
use neurons::feedback;
use neurons::network::Network;
use neurons::objective::Objective;
use neurons::optimizer;
use neurons::tensor::{Data, Shape, Tensor};
use neurons::verif::LayerParams;

struct Mix(u64);
impl Mix {
    fn next(&mut self) -> u64 {
        self.0 = self.0.wrapping_add(0x9E3779B97F4A7C15);
        let mut z = self.0;
        z = (z ^ (z >> 30)).wrapping_mul(0xBF58476D1CE4E5B9);
        z = (z ^ (z >> 27)).wrapping_mul(0x94D049BB133111EB);
        z ^ (z >> 31)
    }
    fn f(&mut self, scale: f32) -> f32 {
        let u = (self.next() >> 40) as f32 / (1u64 << 24) as f32;
        (u * 2.0 - 1.0) * scale * 0.987_654_3
    }
}

fn refill(t: &Tensor, r: &mut Mix, scale: f32) -> Tensor {
    match &t.data {
        Data::Single(v) => Tensor::single(v.iter().map(|_| r.f(scale)).collect()),
        Data::Double(m) => Tensor::double(m.iter().map(|row| row.iter().map(|_| r.f(scale)).collect()).collect()),
        Data::Triple(d) => Tensor::triple(d.iter().map(|c| c.iter().map(|row| row.iter().map(|_| r.f(scale)).collect()).collect()).collect()),
        _ => t.clone(),
    }
}

fn refill_params(p: &LayerParams, r: &mut Mix, first_copy: Option<&[LayerParams]>) -> LayerParams {
    let _ = first_copy;
    let mut q = LayerParams { weights: p.weights.iter().map(|t| refill(t, r, 0.6)).collect(), bias: p.bias.as_ref().map(|t| refill(t, r, 0.3)), inner: Vec::new() };
    if !p.inner.is_empty() {
        // unrolled copies of a feedback block share their values: fill the first repetition, copy it
        let loops = 2;
        let len = p.inner.len() / loops;
        let first: Vec<LayerParams> = p.inner[..len].iter().map(|x| refill_params(x, r, None)).collect();
        for i in 0..p.inner.len() {
            q.inner.push(first[i % len].clone());
        }
    }
    q
}

pub fn network(opt: &str) -> Network {
    let mut net = Network::new(Shape::Triple(1, 6, 6));
    net.convolution(2, (3, 3), (1, 1), (1, 1), (1, 1), Activation::ReLU, None);
    net.maxpool((2, 2), (2, 2));
    net.deconvolution(1, (2, 2), (1, 1), (0, 0), Activation::Tanh, None);
    net.feedback(
        vec![feedback::Layer::Convolution(1, Activation::Tanh, (3, 3), (1, 1), (1, 1), (1, 1), None)],
        2,
        false,
        false,
        feedback::Accumulation::Mean,
    );
    net.dense(6, Activation::Tanh, true, Some(0.25));
    net.dense(3, Activation::Linear, true, None);
    net.set_objective(Objective::MSE, None);
    match opt {
        "adam" => net.set_optimizer(optimizer::Adam::create(0.01, 0.9, 0.999, 1e-8, None)),
        _ => net.set_optimizer(optimizer::SGDM::create(0.05, 0.9, 0.0, None)),
    }
    let mut r = Mix(0xC05);
    let fresh = neurons::verif::params(&net);
    let filled: Vec<LayerParams> = fresh.iter().map(|p| refill_params(p, &mut r, None)).collect();
    neurons::verif::set_params(&mut net, &filled);
    net
}

/// a network with WIDE dense layers (96 -> 70 -> 3): rows of 96 and 70 weights, beyond any blocking / parallel
/// threshold a per-row reduction would plausibly use
pub fn network_wide() -> Network {
    let mut net = Network::new(Shape::Single(96));
    net.dense(70, Activation::Tanh, true, None);
    net.dense(3, Activation::Linear, true, None);
    net.set_objective(Objective::MSE, None);
    net.set_optimizer(optimizer::SGDM::create(0.05, 0.9, 0.0, None));
    let mut r = Mix(0xC05_1DE);
    let fresh = neurons::verif::params(&net);
    let filled: Vec<LayerParams> = fresh.iter().map(|p| refill_params(p, &mut r, None)).collect();
    neurons::verif::set_params(&mut net, &filled);
    net
}

pub fn samples_wide(n: usize, salt: u64) -> (Vec<Tensor>, Vec<Tensor>) {
    let mut r = Mix(0x1DE ^ salt);
    let xs = (0..n).map(|_| Tensor::single((0..96).map(|_| r.f(1.0)).collect())).collect();
    let ts = (0..n).map(|_| Tensor::single((0..3).map(|_| r.f(1.0)).collect())).collect();
    (xs, ts)
}

/// wide network: learn() on 3 samples with batch 2, one epoch, 2 validation samples; then predict_batch on 2 inputs
pub fn seg_wide() -> Vec<u32> {
    let mut net = network_wide();
    let (xs, ts) = samples_wide(3, 1);
    let (vx, vt) = samples_wide(2, 2);
    let (xr, tr): (Vec<&Tensor>, Vec<&Tensor>) = (xs.iter().collect(), ts.iter().collect());
    let (vxr, vtr): (Vec<&Tensor>, Vec<&Tensor>) = (vx.iter().collect(), vt.iter().collect());
    let (train, vl, va) = net.learn(&xr, &tr, Some((&vxr, &vtr, 50)), 2, 1, None);
    let mut out = Vec::new();
    out.extend(train.iter().map(|x| x.to_bits()));
    out.extend(vl.iter().map(|x| x.to_bits()));
    out.extend(va.iter().map(|x| x.to_bits()));
    for p in neurons::verif::params(&net) {
        param_bits(&p, &mut out);
    }
    for p in &net.predict_batch(&vxr) {
        bits_of(p, &mut out);
    }
    out
}

/// MANY parameters x a batch of 8 (1024 -> 256 -> 10: 265 226 parameters, 2.1 million gradient additions per step): beyond
/// any threshold on "parameters x samples" from which the per-sample gradients might be summed in parallel
pub fn seg_manyparams() -> Vec<u32> {
    let mut net = Network::new(Shape::Single(1024));
    net.dense(256, Activation::Tanh, true, None);
    net.dense(10, Activation::Linear, true, None);
    net.set_objective(Objective::MSE, None);
    net.set_optimizer(optimizer::SGD::create(0.05, None));
    let mut r = Mix(0xC05_B16);
    let fresh = neurons::verif::params(&net);
    let filled: Vec<LayerParams> = fresh.iter().map(|p| refill_params(p, &mut r, None)).collect();
    neurons::verif::set_params(&mut net, &filled);
    let xs: Vec<Tensor> = (0..9).map(|_| Tensor::single((0..1024).map(|_| r.f(1.0)).collect())).collect();
    let ts: Vec<Tensor> = (0..9).map(|_| Tensor::single((0..10).map(|_| r.f(1.0)).collect())).collect();
    let (xr, tr): (Vec<&Tensor>, Vec<&Tensor>) = (xs.iter().collect(), ts.iter().collect());
    let (train, _, _) = net.learn(&xr, &tr, None, 8, 1, None);
    let mut out: Vec<u32> = train.iter().map(|x| x.to_bits()).collect();
    // the second layer's parameters and a digest of the first layer's (265k values) keep the observation small
    let ps = neurons::verif::params(&net);
    let mut first = Vec::new();
    param_bits(&ps[0], &mut first);
    let d = digest(&first);
    out.push(d as u32);
    out.push((d >> 32) as u32);
    param_bits(&ps[1], &mut out);
    out
}

/// a feedback block WITH input skips and 5 repetitions: its backward pass adds several skip gradients into the same
/// source - the order of those additions must not depend on anything but the network (e.g. not on hash order)
pub fn network_skips() -> Network {
    let mut net = Network::new(Shape::Single(5));
    net.feedback(
        vec![feedback::Layer::Dense(5, Activation::Tanh, true, None), feedback::Layer::Dense(5, Activation::Tanh, true, None)],
        5,
        true,
        false,
        feedback::Accumulation::Mean,
    );
    net.dense(2, Activation::Linear, true, None);
    net.set_objective(Objective::MSE, None);
    net.set_optimizer(optimizer::SGD::create(0.05, None));
    let mut r = Mix(0xC05_5C1);
    let fresh = neurons::verif::params(&net);
    let filled: Vec<LayerParams> = fresh
        .iter()
        .map(|p| {
            let mut q = LayerParams { weights: p.weights.iter().map(|t| refill(t, &mut r, 0.6)).collect(), bias: p.bias.as_ref().map(|t| refill(t, &mut r, 0.3)), inner: Vec::new() };
            if !p.inner.is_empty() {
                let len = 2;
                let first: Vec<LayerParams> = p.inner[..len].iter().map(|x| refill_params(x, &mut r, None)).collect();
                for i in 0..p.inner.len() {
                    q.inner.push(first[i % len].clone());
                }
            }
            q
        })
        .collect();
    neurons::verif::set_params(&mut net, &filled);
    net
}

/// network-level skip connections that SHARE a source (1 -> 2, 1 -> 3, 1 -> 4, additive): the source's input gradient is a
/// sum of several contributions; their order must not follow the iteration order of `Network::connect` (a std HashMap)
pub fn seg_shared_source() -> Vec<u32> {
    let mut net = Network::new(Shape::Single(4));
    for _ in 0..4 {
        net.dense(4, Activation::Tanh, true, None);
    }
    net.dense(2, Activation::Linear, true, None);
    net.connect(1, 2);
    net.connect(1, 3);
    net.connect(1, 4);
    net.set_accumulation(feedback::Accumulation::Add, feedback::Accumulation::Mean);
    net.set_objective(Objective::MSE, None);
    net.set_optimizer(optimizer::SGD::create(0.05, None));
    let mut r = Mix(0xC05_5A2);
    let fresh = neurons::verif::params(&net);
    let filled: Vec<LayerParams> = fresh.iter().map(|p| refill_params(p, &mut r, None)).collect();
    neurons::verif::set_params(&mut net, &filled);
    let xs: Vec<Tensor> = (0..4).map(|_| Tensor::single((0..4).map(|_| r.f(1.0)).collect())).collect();
    let ts: Vec<Tensor> = (0..4).map(|_| Tensor::single((0..2).map(|_| r.f(1.0)).collect())).collect();
    let (xr, tr): (Vec<&Tensor>, Vec<&Tensor>) = (xs.iter().collect(), ts.iter().collect());
    let (train, _, _) = net.learn(&xr, &tr, None, 2, 3, None);
    let mut out: Vec<u32> = train.iter().map(|x| x.to_bits()).collect();
    for p in neurons::verif::params(&net) {
        param_bits(&p, &mut out);
    }
    out
}

/// a convolution with 6 filters that is NOT the first parameterised layer (its input gradient, a sum over filters,
/// reaches the layer in front of it)
pub fn seg_conv6() -> Vec<u32> {
    let mut net = Network::new(Shape::Triple(1, 5, 5));
    net.convolution(2, (3, 3), (1, 1), (1, 1), (1, 1), Activation::Tanh, None);
    net.convolution(6, (3, 3), (1, 1), (1, 1), (1, 1), Activation::Tanh, None);
    net.dense(3, Activation::Linear, true, None);
    net.set_objective(Objective::MSE, None);
    net.set_optimizer(optimizer::SGD::create(0.05, None));
    let mut r = Mix(0xC05_C06);
    let fresh = neurons::verif::params(&net);
    let filled: Vec<LayerParams> = fresh.iter().map(|p| refill_params(p, &mut r, None)).collect();
    neurons::verif::set_params(&mut net, &filled);
    let xs: Vec<Tensor> = (0..4).map(|_| Tensor::triple(vec![(0..5).map(|_| (0..5).map(|_| r.f(1.0)).collect()).collect()])).collect();
    let ts: Vec<Tensor> = (0..4).map(|_| Tensor::single((0..3).map(|_| r.f(1.0)).collect())).collect();
    let (xr, tr): (Vec<&Tensor>, Vec<&Tensor>) = (xs.iter().collect(), ts.iter().collect());
    let (train, _, _) = net.learn(&xr, &tr, None, 2, 2, None);
    let mut out: Vec<u32> = train.iter().map(|x| x.to_bits()).collect();
    for p in neurons::verif::params(&net) {
        param_bits(&p, &mut out);
    }
    out
}

pub fn seg_skips() -> Vec<u32> {
    let mut net = network_skips();
    let mut r = Mix(0x5C1);
    let xs: Vec<Tensor> = (0..6).map(|_| Tensor::single((0..5).map(|_| r.f(1.0)).collect())).collect();
    let ts: Vec<Tensor> = (0..6).map(|_| Tensor::single((0..2).map(|_| r.f(1.0)).collect())).collect();
    let (xr, tr): (Vec<&Tensor>, Vec<&Tensor>) = (xs.iter().collect(), ts.iter().collect());
    let (train, _, _) = net.learn(&xr, &tr, None, 3, 3, None);
    let mut out: Vec<u32> = train.iter().map(|x| x.to_bits()).collect();
    for p in neurons::verif::params(&net) {
        param_bits(&p, &mut out);
    }
    out
}

pub fn samples(n: usize, salt: u64) -> (Vec<Tensor>, Vec<Tensor>) {
    let mut r = Mix(0xDA7A ^ salt);
    let xs = (0..n).map(|_| Tensor::triple(vec![(0..6).map(|_| (0..6).map(|_| r.f(1.0)).collect()).collect()])).collect();
    let ts = (0..n).map(|_| Tensor::single((0..3).map(|_| r.f(1.0)).collect())).collect();
    (xs, ts)
}

fn bits_of(t: &Tensor, out: &mut Vec<u32>) {
    match &t.data {
        Data::Single(v) => out.extend(v.iter().map(|x| x.to_bits())),
        Data::Double(m) => m.iter().for_each(|row| out.extend(row.iter().map(|x| x.to_bits()))),
        Data::Triple(d) => d.iter().for_each(|c| c.iter().for_each(|row| out.extend(row.iter().map(|x| x.to_bits())))),
        _ => out.push(0xDEAD_BEEF),
    }
}

fn param_bits(p: &LayerParams, out: &mut Vec<u32>) {
    p.weights.iter().for_each(|t| bits_of(t, out));
    if let Some(b) = &p.bias {
        bits_of(b, out);
    }
    p.inner.iter().for_each(|q| param_bits(q, out));
}

/// one training run: per-epoch losses, validation metrics, final weights — as bit patterns
pub fn seg_learn(opt: &str, batch: usize) -> Vec<u32> {
    let mut net = network(opt);
    // batches beyond the small bound get enough samples for one full and one partial group
    let (xs, ts) = samples(if batch > 5 { batch + 8 } else { 5 }, 1);
    let (vx, vt) = samples(65, 2);
    let (xr, tr): (Vec<&Tensor>, Vec<&Tensor>) = (xs.iter().collect(), ts.iter().collect());
    let (vxr, vtr): (Vec<&Tensor>, Vec<&Tensor>) = (vx.iter().collect(), vt.iter().collect());
    let (train, vl, va) = net.learn(&xr, &tr, Some((&vxr, &vtr, 50)), batch, 2, None);
    let mut out = Vec::new();
    out.extend(train.iter().map(|x| x.to_bits()));
    out.extend(vl.iter().map(|x| x.to_bits()));
    out.extend(va.iter().map(|x| x.to_bits()));
    for p in neurons::verif::params(&net) {
        param_bits(&p, &mut out);
    }
    out
}

pub fn seg_validate() -> Vec<u32> {
    let mut net = network("adam");
    let mut out = Vec::new();
    for n in [65usize, 130] {
        let (vx, vt) = samples(n, 3);
        let (vxr, vtr): (Vec<&Tensor>, Vec<&Tensor>) = (vx.iter().collect(), vt.iter().collect());
        let (l, a) = net.validate(&vxr, &vtr, 0.5);
        out.push(l.to_bits());
        out.push(a.to_bits());
    }
    out
}

/// 321 and 641 samples: 6 and 11 internal chunks (a tree reduction over chunk totals re-associates from 5 chunks on)
pub fn seg_validate_large() -> Vec<u32> {
    let mut net = network("adam");
    let mut out = Vec::new();
    for n in [321usize, 641] {
        let (vx, vt) = samples(n, 5);
        let (vxr, vtr): (Vec<&Tensor>, Vec<&Tensor>) = (vx.iter().collect(), vt.iter().collect());
        let (l, a) = net.validate(&vxr, &vtr, 0.5);
        out.push(l.to_bits());
        out.push(a.to_bits());
    }
    out
}

pub fn seg_predict() -> Vec<u32> {
    let net = network("adam");
    let mut out = Vec::new();
    for n in [0usize, 1, 64, 65, 129, 130] {
        let (xs, _) = samples(n, 4 + n as u64);
        let xr: Vec<&Tensor> = xs.iter().collect();
        let ps = net.predict_batch(&xr);
        out.push(ps.len() as u32);
        for p in &ps {
            bits_of(p, &mut out);
        }
    }
    out
}

/// a reduction that DOES depend on the schedule: shows that the explorer re-associates (non-vacuity)
pub fn seg_canary() -> Vec<u32> {
    use rayon::prelude::*;
    let v: Vec<f32> = vec![0.1, 1.0e7, -1.0e7, 0.3, 3.3e-5, 7.7, -2.2e3, 0.7, 1.1e-3];
    vec![v.par_iter().map(|x| *x).sum::<f32>().to_bits()]
}

/// leaf partition rayon produces for n items (model fidelity probe)
pub fn partition(n: usize) -> Vec<Vec<usize>> {
    use rayon::prelude::*;
    (0..n)
        .into_par_iter()
        .fold(Vec::new, |mut a, i| {
            a.push(i);
            a
        })
        .collect()
}

pub const SEGMENTS: [&str; 16] = [
    "learn-adam-b2",
    "learn-adam-b3",
    "learn-adam-b5",
    "learn-sgdm-b2",
    "learn-sgdm-b3",
    "learn-sgdm-b5",
    "validate",
    "predict_batch",
    // beyond the small bound (explored with a cap on non-canonical choices per region)
    "learn-adam-b17",
    "learn-sgdm-b32",
    "validate-large",
    "learn-predict-wide",
    "learn-block-inskips",
    "learn-shared-source-skips",
    "learn-conv6-second",
    "learn-manyparams-wide",
];

pub fn run_segment(name: &str) -> Vec<u32> {
    match name {
        "learn-adam-b2" => seg_learn("adam", 2),
        "learn-adam-b3" => seg_learn("adam", 3),
        "learn-adam-b5" => seg_learn("adam", 5),
        "learn-sgdm-b2" => seg_learn("sgdm", 2),
        "learn-sgdm-b3" => seg_learn("sgdm", 3),
        "learn-sgdm-b5" => seg_learn("sgdm", 5),
        "learn-adam-b17" => seg_learn("adam", 17),
        "learn-sgdm-b32" => seg_learn("sgdm", 32),
        "validate" => seg_validate(),
        "validate-large" => seg_validate_large(),
        "learn-predict-wide" => seg_wide(),
        "learn-block-inskips" => seg_skips(),
        "learn-shared-source-skips" => seg_shared_source(),
        "learn-conv6-second" => seg_conv6(),
        "learn-manyparams-wide" => seg_manyparams(),
        "predict_batch" => seg_predict(),
        "canary" => seg_canary(),
        _ => panic!("unknown segment {}", name),
    }
}

pub fn digest(bits: &[u32]) -> u64 {
    let mut h: u64 = 0xcbf29ce484222325;
    for b in bits {
        for byte in b.to_le_bytes() {
            h ^= byte as u64;
            h = h.wrapping_mul(0x100000001b3);
        }
    }
    h ^ (bits.len() as u64) << 48
}
